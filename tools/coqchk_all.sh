#!/bin/bash
# tools/coqchk_all.sh -- re-check every compiled property file (and everything it depends on) with Coq's independent
# checker and list the axioms the whole development relies on.  Writes /verif/coqchk_report.txt.
# Takes a few minutes and several GB of memory; not part of the quick checks (C05/C11/C20 thorough tiers call coqchk
# for their own file).
set -u
cd /verif/coq || exit 2
mods=$(ls props/C*.v | sed -e 's#props/\(.*\)\.v#FR.props.\1#')
out=/verif/coqchk_report.txt
{
  echo "# coqchk -silent -o over: $mods"
  echo "# coq: $(coqc --version | head -1)"
  echo "# repo HEAD: $(git -C /repo rev-parse --short HEAD)   verif HEAD: $(git -C /verif rev-parse --short HEAD)"
  ( ulimit -s unlimited; timeout 3000 coqchk -silent -o -R . FR $mods ) 2>&1
  echo "# exit code: $?"
} > "$out.tmp"
mv "$out.tmp" "$out"
tail -25 "$out"
