#!/usr/bin/env python3
"""tools/mutsweep.py gen | tests [-j N] | checks [-j N] [--max M] [--only file-substr] | report

Systematic complement to the hand-seeded changes: single-point source mutants of every file the properties are anchored
in (comparison / boolean operator swaps, negated conditions, dropped `not`, constants +-1, True<->False, statement
deletion, continue->break, return None), generated from the CURRENT /repo HEAD.

  gen     enumerate the mutants                          -> /verif/mutation/mutants.json
  tests   run the pinned test suite on each mutant       -> survivors (all 444 stable tests still pass)
  checks  run, for each survivor, the quick check of every property anchored in the mutated file
          (scratch worktree + VERIF_REPO=<worktree> ./check <ID>)      -> caught (with input / no-input) or quiet
  report  summary table                                  -> /verif/mutation/REPORT.md

A quiet survivor is not by itself a miss: most surviving mutants are equivalent or touch behaviour none of the 20
properties speaks about.  Quiet survivors are triaged (tools/mutation/TRIAGE.md) and the ones that break a property are
turned into stored seeded cases.  /repo itself is never modified: every mutant lives in a scratch worktree under /tmp.
"""
import ast
import json
import os
import re
import subprocess
import sys
import threading
from concurrent.futures import ThreadPoolExecutor

OUT = "/verif/mutation"
REPO = "/repo"


def sh(cmd, **kw):
    p = subprocess.run(cmd, stdout=subprocess.PIPE, stderr=subprocess.STDOUT, text=True, **kw)
    return p.returncode, p.stdout


def anchored_files():
    files = {}
    for line in open("/verif/properties.jsonl"):
        p = json.loads(line)
        for f in p["anchors"]["files"]:
            files.setdefault(f, []).append(p["id"])
    return files


CMP = {ast.Eq: ("==", "!="), ast.NotEq: ("!=", "=="), ast.Lt: ("<", "<="), ast.LtE: ("<=", "<"), ast.Gt: (">", ">="),
       ast.GtE: (">=", ">"), ast.In: ("in", "not in"), ast.NotIn: ("not in", "in"), ast.Is: ("is", "is not"),
       ast.IsNot: ("is not", "is")}


class Src:
    def __init__(self, text):
        self.text = text
        self.lines = text.split("\n")
        self.off = [0]
        for l in self.lines:
            self.off.append(self.off[-1] + len(l.encode()) + 1)
        self.bytes = text.encode()

    def pos(self, line, col):
        return self.off[line - 1] + col

    def span(self, node):
        return self.pos(node.lineno, node.col_offset), self.pos(node.end_lineno, node.end_col_offset)

    def get(self, a, b):
        return self.bytes[a:b].decode()


def mutants_of(path, text):
    src = Src(text)
    tree = ast.parse(text)
    out = []

    def add(kind, a, b, new, line):
        old = src.get(a, b)
        if old != new:
            out.append(dict(file=path, kind=kind, line=line, a=a, b=b, old=old, new=new))

    docstrings = set()
    for n in ast.walk(tree):
        if isinstance(n, (ast.FunctionDef, ast.ClassDef, ast.Module, ast.AsyncFunctionDef)) and n.body and \
                isinstance(n.body[0], ast.Expr) and isinstance(n.body[0].value, ast.Constant) and isinstance(n.body[0].value.value, str):
            docstrings.add(id(n.body[0]))
            docstrings.add(id(n.body[0].value))
    parents = {}
    for n in ast.walk(tree):
        for c in ast.iter_child_nodes(n):
            parents[id(c)] = n
    for n in ast.walk(tree):
        if isinstance(n, ast.Compare) and len(n.ops) == 1 and type(n.ops[0]) in CMP:
            a = src.span(n.left)[1]
            b = src.span(n.comparators[0])[0]
            mid = src.get(a, b)
            o, r = CMP[type(n.ops[0])]
            m = re.search(r"(?<![\w])" + re.escape(o).replace(r"\ ", r"\s+") + r"(?![\w=])" if o[0].isalpha() else re.escape(o), mid)
            if m:
                add("cmp", a + len(mid[:m.start()].encode()), a + len(mid[:m.end()].encode()), r, n.lineno)
        elif isinstance(n, ast.BoolOp):
            a = src.span(n.values[0])[1]
            b = src.span(n.values[1])[0]
            mid = src.get(a, b)
            o = "and" if isinstance(n.op, ast.And) else "or"
            m = re.search(r"\b%s\b" % o, mid)
            if m:
                add("boolop", a + len(mid[:m.start()].encode()), a + len(mid[:m.end()].encode()), "or" if o == "and" else "and", n.lineno)
        elif isinstance(n, ast.UnaryOp) and isinstance(n.op, ast.Not):
            a, b = src.span(n)
            oa, ob = src.span(n.operand)
            add("dropnot", a, b, "(" + src.get(oa, ob) + ")", n.lineno)
        elif isinstance(n, (ast.If, ast.While, ast.IfExp)) and not isinstance(n.test, (ast.Compare, ast.BoolOp, ast.UnaryOp)):
            a, b = src.span(n.test)
            add("negcond", a, b, "not (" + src.get(a, b) + ")", n.lineno)
        elif isinstance(n, ast.Constant) and id(n) not in docstrings:
            a, b = src.span(n)
            if n.value is True:
                add("const", a, b, "False", n.lineno)
            elif n.value is False:
                add("const", a, b, "True", n.lineno)
            elif isinstance(n.value, int) and not isinstance(n.value, bool):
                add("const", a, b, str(n.value + 1), n.lineno)
                if n.value != 0:
                    add("const", a, b, str(n.value - 1), n.lineno)
        elif isinstance(n, ast.Continue):
            a, b = src.span(n)
            add("cont2break", a, b, "break", n.lineno)
        elif isinstance(n, ast.Break):
            a, b = src.span(n)
            add("break2cont", a, b, "continue", n.lineno)
        elif isinstance(n, ast.Return) and n.value is not None and not (isinstance(n.value, ast.Constant) and n.value.value is None):
            a, b = src.span(n.value)
            add("retnone", a, b, "None", n.lineno)
        elif isinstance(n, ast.BinOp) and isinstance(n.op, (ast.Add, ast.Sub)):
            a = src.span(n.left)[1]
            b = src.span(n.right)[0]
            mid = src.get(a, b)
            o = "+" if isinstance(n.op, ast.Add) else "-"
            i = mid.find(o)
            if i >= 0:
                add("arith", a + len(mid[:i].encode()), a + len(mid[:i + 1].encode()), "-" if o == "+" else "+", n.lineno)
        if isinstance(n, (ast.Expr, ast.Assign, ast.AugAssign)) and id(n) not in docstrings and n.lineno == n.end_lineno:
            par = parents.get(id(n))
            if isinstance(par, (ast.FunctionDef, ast.If, ast.For, ast.While, ast.With, ast.Try, ast.ExceptHandler)) and \
                    not (isinstance(n, ast.Assign) and isinstance(par, ast.ClassDef)):
                if isinstance(n, ast.Expr) and isinstance(n.value, ast.Constant):
                    continue
                a, b = src.span(n)
                add("delstmt", a, b, "pass", n.lineno)
    return out


def apply_mutant(root, m):
    p = os.path.join(root, m["file"])
    data = open(p, "rb").read()
    assert data[m["a"]:m["b"]].decode() == m["old"], (m, data[m["a"]:m["b"]])
    open(p, "wb").write(data[:m["a"]] + m["new"].encode() + data[m["b"]:])


def revert(root, m):
    sh(["git", "-C", root, "checkout", "--", m["file"]])


def load():
    return json.load(open(OUT + "/mutants.json"))


def save(ms):
    tmp = OUT + "/mutants.json.tmp"
    json.dump(ms, open(tmp, "w"), indent=0)
    os.replace(tmp, OUT + "/mutants.json")


def cmd_gen():
    os.makedirs(OUT, exist_ok=True)
    ms = []
    files = anchored_files()
    for f in sorted(files):
        text = open(os.path.join(REPO, f)).read()
        for m in mutants_of(f, text):
            try:
                new = text.encode()[:m["a"]] + m["new"].encode() + text.encode()[m["b"]:]
                ast.parse(new.decode())
            except SyntaxError:
                continue
            m["props"] = files[f]
            ms.append(m)
    head = sh(["git", "-C", REPO, "rev-parse", "--short", "HEAD"])[1].strip()
    for i, m in enumerate(ms):
        m["id"] = i
        m["head"] = head
    save(ms)
    print(len(ms), "mutants over", len(files), "files at", head)


class Workers:
    def __init__(self, n, tag):
        self.free = []
        self.lock = threading.Lock()
        for i in range(n):
            wt = "/tmp/mw_%s_%d" % (tag, i)
            sh(["git", "-C", REPO, "worktree", "remove", "--force", wt])
            rc, out = sh(["git", "-C", REPO, "worktree", "add", "-q", "--detach", wt, "HEAD"])
            assert rc == 0, out
            self.free.append(wt)
        self.all = list(self.free)

    def take(self):
        with self.lock:
            return self.free.pop()

    def give(self, wt):
        with self.lock:
            self.free.append(wt)

    def close(self):
        for wt in self.all:
            sh(["git", "-C", REPO, "worktree", "remove", "--force", wt])
            sh(["bash", "-c", "rm -rf /verif/.work/coq.*%s* /verif/.work/evidence.*%s*" % (os.path.basename(wt), os.path.basename(wt))])
        sh(["git", "-C", REPO, "worktree", "prune"])


STABLE = None
# the seven tests that fail in this sandbox on the unchanged tree (rdump executable not on PATH); not part of stable_pass
NOT_STABLE = ["tests/test_rdump.py::test_rdump_pipe", "tests/test_rdump.py::test_rdump_format_template", "tests/test_rdump.py::test_rdump_json",
              "tests/test_rdump.py::test_rdump_json_no_descriptors", "tests/test_rdump.py::test_rdump_format_spec_hex",
              "tests/test_rdump.py::test_rdump_list_adapters", "tests/test_regression.py::test_rdump_fieldtype_path_json"]


def run_tests(wt):
    import tempfile
    import xml.etree.ElementTree as ET
    global STABLE
    if STABLE is None:
        STABLE = set(json.load(open("/root/.vp/BASELINE.json"))["stable_pass"])
    f = tempfile.mktemp(suffix=".xml")
    env = dict(os.environ, PYTHONPATH=wt, PYTHONDONTWRITEBYTECODE="1")
    env.pop("FOX_IT_FLOW_RECORD_VERIF", None)
    try:
        subprocess.run(["/venv/bin/python", "-m", "pytest", "-q", "-x", "-p", "no:cacheprovider", "--timeout=120",
                        "--continue-on-collection-errors", "--junitxml=" + f,
                        ] + sum((["--deselect", t] for t in NOT_STABLE), []), cwd=wt, env=env,
                       stdout=subprocess.DEVNULL, stderr=subprocess.DEVNULL, timeout=600)
    except subprocess.TimeoutExpired:
        return False
    passed = set()
    try:
        for tc in ET.parse(f).getroot().iter("testcase"):
            if not any(c.tag in ("failure", "error", "skipped") for c in tc):
                passed.add("%s::%s" % (tc.get("classname"), tc.get("name")))
    except Exception:
        return False
    finally:
        if os.path.exists(f):
            os.unlink(f)
    return not (STABLE - passed)


def cmd_tests(jobs):
    ms = load()
    todo = [m for m in ms if "survives" not in m]
    w = Workers(jobs, "t")
    lock = threading.Lock()
    done = [0]

    def one(m):
        wt = w.take()
        try:
            apply_mutant(wt, m)
            m["survives"] = run_tests(wt)
        finally:
            revert(wt, m)
            w.give(wt)
        with lock:
            done[0] += 1
            if done[0] % 100 == 0:
                save(ms)
                print(done[0], "/", len(todo), "survivors so far:", sum(1 for x in ms if x.get("survives")), flush=True)

    try:
        with ThreadPoolExecutor(jobs) as ex:
            list(ex.map(one, todo))
    finally:
        save(ms)
        w.close()
    print("survivors:", sum(1 for x in ms if x.get("survives")), "of", len(ms))


def cmd_checks(jobs, mx, only):
    ms = load()
    todo = [m for m in ms if m.get("survives") and "checks" not in m and (not only or only in m["file"])
            # the pre-3.11 ISO pre-parser of fieldtypes.datetime is dead code on CPython 3.12 (triage batches 11-14: all equivalent)
            and not (m["file"].endswith("fieldtypes/__init__.py") and 262 <= m["line"] <= 299)]
    if mx:
        # spread the sample over files and kinds deterministically
        todo.sort(key=lambda m: (m["id"] * 2654435761) % 1000003)
        todo = todo[:mx]
    w = Workers(jobs, "c")
    lock = threading.Lock()
    done = [0]

    def one(m):
        wt = w.take()
        res = {}
        try:
            apply_mutant(wt, m)
            for cid in m["props"]:
                env = dict(os.environ, VERIF_REPO=wt, PYTHONDONTWRITEBYTECODE="1")
                try:
                    p = subprocess.run(["./check", cid], cwd="/verif", env=env, stdout=subprocess.PIPE, stderr=subprocess.STDOUT,
                                       text=True, timeout=1800)
                    rc, out = p.returncode, p.stdout
                except subprocess.TimeoutExpired:
                    rc, out = 124, "VIOLATION (timeout)"
                v = [l for l in out.splitlines() if l.startswith("VIOLATION")]
                res[cid] = "quiet" if rc == 0 and not v else ("input" if any("no-failing-input-found" not in l for l in v) else "no-input")
                if res[cid] != "quiet":
                    m.setdefault("lines", {})[cid] = v[:1]
            m["checks"] = res
        finally:
            revert(wt, m)
            w.give(wt)
        with lock:
            done[0] += 1
            save(ms)
            print(done[0], "/", len(todo), m["file"], m["line"], m["kind"], repr(m["old"][:30]), "->", repr(m["new"][:30]), res, flush=True)

    try:
        with ThreadPoolExecutor(jobs) as ex:
            list(ex.map(one, todo))
    finally:
        save(ms)
        w.close()


def cmd_report():
    ms = load()
    surv = [m for m in ms if m.get("survives")]
    chk = [m for m in surv if "checks" in m]
    caught = [m for m in chk if any(v != "quiet" for v in m["checks"].values())]
    quiet = [m for m in chk if m not in caught]
    lines = ["# Mutation sweep (tools/mutsweep.py) at /repo %s" % (ms[0]["head"] if ms else "?"), "",
             "mutants generated: %d; killed by the 444 pinned tests: %d; survivors: %d; survivors run through the checks: %d; "
             "caught by a check: %d (with failing input: %d); quiet: %d" % (
                 len(ms), sum(1 for m in ms if m.get("survives") is False), len(surv), len(chk), len(caught),
                 sum(1 for m in caught if any(v == "input" for v in m["checks"].values())), len(quiet)), "",
             "| file | survivors checked | caught | quiet |", "|---|---|---|---|"]
    byf = {}
    for m in chk:
        d = byf.setdefault(m["file"], [0, 0, 0])
        d[0] += 1
        d[1 if m in caught else 2] += 1
    for f in sorted(byf):
        lines.append("| %s | %d | %d | %d |" % (f, *byf[f]))
    lines += ["", "## Quiet survivors (triage in TRIAGE.md)", ""]
    for m in quiet:
        lines.append("- M%d %s:%d %s `%s` -> `%s`" % (m["id"], m["file"], m["line"], m["kind"], m["old"][:60].replace("\n", " "), m["new"][:60].replace("\n", " ")))
    open(OUT + "/REPORT.md", "w").write("\n".join(lines) + "\n")
    print("\n".join(lines[:40]))


def main():
    a = sys.argv[1:]
    jobs = 8
    if "-j" in a:
        i = a.index("-j")
        jobs = int(a[i + 1])
        del a[i:i + 2]
    mx = 0
    if "--max" in a:
        i = a.index("--max")
        mx = int(a[i + 1])
        del a[i:i + 2]
    only = None
    if "--only" in a:
        i = a.index("--only")
        only = a[i + 1]
        del a[i:i + 2]
    if a[0] == "gen" and len(a) > 1:
        # gen <file>: the file changed in /repo since the sweep began - replace its mutants by fresh ones of the current HEAD
        ms = [m for m in load() if m["file"] != a[1]]
        files = anchored_files()
        text = open(os.path.join(REPO, a[1])).read()
        head = sh(["git", "-C", REPO, "rev-parse", "--short", "HEAD"])[1].strip()
        nid = max(m["id"] for m in ms) + 1
        for m in mutants_of(a[1], text):
            try:
                ast.parse((text.encode()[:m["a"]] + m["new"].encode() + text.encode()[m["b"]:]).decode())
            except SyntaxError:
                continue
            m.update(props=files[a[1]], id=nid, head=head)
            nid += 1
            ms.append(m)
        save(ms)
        print(len(ms), "mutants now")
    elif a[0] == "gen":
        cmd_gen()
    elif a[0] == "tests":
        cmd_tests(jobs)
    elif a[0] == "checks":
        cmd_checks(jobs, mx, only)
    elif a[0] == "report":
        cmd_report()


if __name__ == "__main__":
    main()
