#!/usr/bin/env python3
"""tools/seedcheck.py <ID> <k> [--src /tmp/seed_<ID>_out] [--keep]

Confirms a seeded change (patch<k>.diff + demo<k>.py + meta<k>.json produced by an independent sub-agent) in a scratch
worktree of /repo and runs the property's check against it (VERIF_REPO = that worktree; /repo itself is not touched):
  1. the patch applies to HEAD; the test suite's stable-pass set still passes (tools/baseline_check.py);
  2. the demonstration exits non-zero with the change and 0 without it;
  3. ./check <ID> (quick) against the changed tree: VIOLATION expected.
Confirmed seeds are stored as /verif/seeded/<ID>-<k>/ {patch.diff, demo.py, meta.json}.
"""
import json
import os
import shutil
import subprocess
import sys


def sh(cmd, **kw):
    p = subprocess.run(cmd, stdout=subprocess.PIPE, stderr=subprocess.STDOUT, text=True, **kw)
    return p.returncode, p.stdout


def main():
    pid, k = sys.argv[1], sys.argv[2]
    src = "/tmp/seed_%s_out" % pid
    if "--src" in sys.argv:
        src = sys.argv[sys.argv.index("--src") + 1]
    check_ids = [pid]
    if "--also" in sys.argv:
        check_ids += sys.argv[sys.argv.index("--also") + 1].split(",")
    patch = os.path.join(src, "patch%s.diff" % k)
    demo = os.path.join(src, "demo%s.py" % k)
    meta = json.load(open(os.path.join(src, "meta%s.json" % k)))
    wt = "/tmp/sv_%s_%s" % (pid, k)
    sh(["git", "-C", "/repo", "worktree", "remove", "--force", wt])
    rc, out = sh(["git", "-C", "/repo", "worktree", "add", "-q", wt, "HEAD"])
    res = dict(applies=False)
    try:
        rc, out = sh(["git", "-C", wt, "apply", patch])
        res["applies"] = rc == 0
        if rc != 0:
            res["apply_error"] = out[-500:]
            return res
        rc, out = sh(["/verif/tools/baseline_check.py", wt])
        res["tests_ok"] = rc == 0
        res["tests"] = out.strip().splitlines()[:4]
        env = dict(os.environ, PYTHONPATH=wt, PYTHONDONTWRITEBYTECODE="1")
        rc1, o1 = sh(["/venv/bin/python", demo, wt], env=env, cwd="/tmp")
        env0 = dict(os.environ, PYTHONPATH="/repo", PYTHONDONTWRITEBYTECODE="1")
        rc0, o0 = sh(["/venv/bin/python", demo, "/repo"], env=env0, cwd="/tmp")
        res["demo_changed_rc"], res["demo_clean_rc"] = rc1, rc0
        res["demo_changed_out"] = o1[-400:]
        res["confirmed"] = bool(res["tests_ok"] and rc1 != 0 and rc0 == 0)
        det = {}
        for cid in check_ids:
            rc, out = sh(["./check", cid], cwd="/verif", env=dict(os.environ, VERIF_REPO=wt))
            lines = [l for l in out.splitlines() if l.startswith("VIOLATION") or l.startswith("# ")]
            det[cid] = dict(rc=rc, detected=rc != 0 and any(l.startswith("VIOLATION") for l in lines),
                            with_input=any(l.startswith("VIOLATION") and "no-failing-input-found" not in l for l in lines),
                            lines=lines[:4])
        res["detection"] = det
        if res["confirmed"]:
            dst = "/verif/seeded/%s-%s" % (pid, k)
            os.makedirs(dst, exist_ok=True)
            shutil.copy(patch, os.path.join(dst, "patch.diff"))
            shutil.copy(demo, os.path.join(dst, "demo.py"))
            meta.update(confirmed=dict(
                how="scratch worktree of /repo HEAD (%s) + git apply; tools/baseline_check.py (444 stable tests) passed; demo.py exit %d with the "
                    "change, %d on the unchanged tree; checks run with VERIF_REPO=<worktree> ./check <ID> (private copy of the Coq tree)" % (
                        sh(["git", "-C", "/repo", "rev-parse", "--short", "HEAD"])[1].strip(), rc1, rc0),
                detection=det))
            json.dump(meta, open(os.path.join(dst, "meta.json"), "w"), indent=1)
        return res
    finally:
        sh(["git", "-C", "/repo", "worktree", "remove", "--force", wt])
        sh(["bash", "-c", "rm -rf /verif/.work/coq.*sv_%s_%s* /verif/.work/evidence.*sv_%s_%s*" % (pid, k, pid, k)])
        print(json.dumps(res, indent=1))


if __name__ == "__main__":
    main()
