"""C05 -- record fields always hold values of their declared type.

proof:   coq/props/C05.v  (theorems about model/Coerce.v instantiated with the GENERATED facts of gen/Gen_coerce.v)
tie:     (T) gen/Gen_coerce.v regenerated from fieldtypes/__init__.py, fieldtypes/net/ip.py and base.py each run: the
             range tests of uint16/uint32/boolean, bytes' isinstance test, the digest lengths and branches,
             Record.__setattr__'s guard and statement order, typedlist's element rule, datetime's naive -> UTC rule;
         (C) for every whitelisted type (scalar and T[]) a candidate table (valid, boundary, boundary +- 1, wrong kinds)
             and random operation sequences (construct / assign / failed assign / _replace, normal and keyword-named
             descriptors) run on the implementation; after every step the outcome and the deep observation of every
             slot are compared with the model's run of the same operations inside Coq (vm_compute).
On the implementation itself, independent of the model: every slot well typed after every step, a failed step leaves
the record observably unchanged, the property's list of unrepresentable values is rejected, valid values are accepted,
every reached record serialises (record stream + JSON) and what is read back is well typed again.
"""
from __future__ import annotations

import datetime as pydt
import io
import ipaddress as pyip
import math
import pathlib
import random
import re
import shlex
import struct
import warnings
from urllib.parse import urlparse

from vf import core, recgen

THEOREMS = [
    "C05_generated_facts", "C05_coerce_sound", "C05_rejects_fractions", "C05_without_boolean_fix",
    "C05_without_uint_fix", "C05_without_digest_fix", "C05_invariant", "C05_invariant_blank",
    "C05_invariant_former_witness", "C05_failed_op_is_noop", "C05_grouped_assignment_is_member_assignment",
    "C05_constructor_state_free", "C05_new_record_holds_defaults", "C05_records_do_not_share_state",
    "C05_none_is_always_accepted", "C05_rejects_unrepresentable", "C05_rejects_uint16_out_of_range",
    "C05_rejects_uint32_out_of_range", "C05_rejects_boolean_other_integer", "C05_rejects_non_bytes",
    "C05_rejects_malformed_digest", "C05_rejects_address_out_of_range", "C05_accepts_representable",
    "C05_conversions", "C05_serialisable_partial", "C05_refuted_lone_surrogate", "C05_list_elements",
    "C05_list_bad_element_rejects_all", "C05_hyp_satisfiable",
]

UTC = pydt.timezone.utc
T0 = pydt.datetime(2023, 5, 6, 7, 8, 9, 123456, tzinfo=UTC)

TYPE_MAP = {
    "string": "TString", "wstring": "TString", "uri": "TUri",
    "varint": "TVarint", "filesize": "TVarint", "unix_file_mode": "TVarint",
    "uint16": "TUint16", "net.tcp.Port": "TUint16", "net.udp.Port": "TUint16", "uint32": "TUint32",
    "boolean": "TBoolean", "float": "TFloat", "bytes": "TBytes", "datetime": "TDatetime", "path": "TPath",
    "command": "TCommand", "digest": "TDigest", "net.ipaddress": "TIpAddress", "net.IPAddress": "TIpAddress",
    "net.ipnetwork": "TIpNetwork", "net.IPNetwork": "TIpNetwork", "record": "TRecord", "stringlist": "TStringlist",
    "dictlist": "TDictlist", "dynamic": "TDynamic",
}
# names that are the same class as (or an unchanged subclass of) another name: the scalar table only
ALIASES = {"wstring", "filesize", "unix_file_mode", "net.tcp.Port", "net.udp.Port", "net.IPAddress", "net.IPNetwork"}
# whitelisted but outside the anchored code (deprecated, flow/record/fieldtypes/net/ipv4.py)
NOT_COVERED = ["net.ipv4.Address", "net.ipv4.Subnet"]
UINTS = {"uint16": 0xFFFF, "net.tcp.Port": 0xFFFF, "net.udp.Port": 0xFFFF, "uint32": 0xFFFFFFFF}
NEEDS = {
    "TString": {"str"}, "TUri": {"str", "uri"}, "TVarint": {"int"}, "TUint16": {"int"}, "TUint32": {"int"},
    "TBoolean": {"int"}, "TFloat": {"float"}, "TBytes": set(), "TDatetime": {"dt"}, "TPath": {"path"},
    "TCommand": {"cmd"}, "TDigest": set(), "TIpAddress": {"ip"}, "TIpNetwork": {"net"}, "TRecord": set(),
    "TStringlist": {"iter"}, "TDictlist": {"iter"}, "TDynamic": set(),
}
RESERVED = [("string", "_source"), ("string", "_classification"), ("datetime", "_generated"), ("varint", "_version")]


def base_of(tn):
    return tn[:-2] if tn.endswith("[]") else tn


def coq_ftype(tn):
    return "(TList %s)" % TYPE_MAP[tn[:-2]] if tn.endswith("[]") else TYPE_MAP[tn]


def all_typenames():
    from flow.record.whitelist import WHITELIST
    names = [n for n in WHITELIST if n in TYPE_MAP]
    missing = [n for n in WHITELIST if n not in TYPE_MAP and n not in NOT_COVERED]
    if missing:
        raise RuntimeError("whitelisted types the check does not know: %r" % missing)
    return names


# ------------------------------------------------------------------------------------------ literals

def cB(b):
    b = bytes(b)
    if b and all(32 <= c < 127 and c != 34 for c in b):
        return '(B "%s")' % b.decode("ascii")
    return '(unhex "%s")' % b.hex()


def cZ(n):
    return "(%d)" % n if n < 0 else "%d" % n


def cbool(b):
    return "true" if b else "false"


def clist(items):
    return "[" + "; ".join(items) + "]"


def copt(x, pr=lambda v: v):
    return "None" if x is None else "(Some %s)" % pr(x)


def text_enc(s):
    """(bytes, lone): UTF-8/surrogateescape encoding; lone = holds a surrogate that is not such an escape"""
    try:
        return s.encode("utf-8", "surrogateescape"), False
    except UnicodeEncodeError:
        return s.encode("utf-8", "surrogatepass"), True


def float_bits(f):
    return struct.unpack(">Q", struct.pack(">d", float.__float__(f)))[0]


def cwall(d):
    return "(Wall %s)" % " ".join(cZ(x) for x in (d.year, d.month, d.day, d.hour, d.minute, d.second, d.microsecond))


def off_us(d):
    off = d.utcoffset()
    return None if off is None else (off.days * 86400 + off.seconds) * 10 ** 6 + off.microseconds


def has_lone(v):
    if isinstance(v, str):
        return text_enc(v)[1]
    if isinstance(v, (list, tuple)):
        return any(has_lone(x) for x in v)
    if isinstance(v, dict):
        return any(has_lone(k) or has_lone(x) for k, x in v.items())
    return False


# ------------------------------------------------------------------------------------------ encoder

class Enc:
    """Python values -> Gallina terms of coq/model/Coerce.v, plus the runtime's answers (the model's `env`)."""

    ORACLES = ["str", "int", "float", "ip", "net", "dt", "uri", "path", "cmd", "iter"]

    def __init__(self):
        self.ids = {}
        self.keep = []
        self.typed = {}        # id(instance) -> (typename, payload)
        self.tables = {k: {} for k in self.ORACLES}

    def reset_tables(self):
        self.tables = {k: {} for k in self.ORACLES}

    def ident(self, o):
        k = id(o)
        if k not in self.ids:
            self.ids[k] = len(self.ids) + 1
            self.keep.append(o)
        return self.ids[k]

    def instance(self, tn, payload):
        """an instance of the class of field type tn built from payload (a candidate that already has the type)"""
        from flow.record.base import fieldtype
        with warnings.catch_warnings():
            warnings.simplefilter("ignore")
            inst = fieldtype(tn)(payload)
        self.typed[id(inst)] = (tn, payload)
        self.keep.append(inst)
        return inst

    def register(self, inst, tn, payload):
        """an instance of the class of field type tn that exists already (read from a record's field)"""
        self.typed[id(inst)] = (tn, payload)
        self.keep.append(inst)
        if tn.endswith("[]") and isinstance(payload, (list, tuple)) and len(inst) == len(payload):
            # the elements of a typed list are instances of the element type built from the payload's elements
            for x, y in zip(inst, payload):
                if id(x) not in self.typed and x is not y:
                    self.typed[id(x)] = (tn[:-2], y)
        return inst

    def same_class(self, c, tn):
        """does an instance of field type c pass isinstance(<class of tn>) in the model (instance_of / dynamic)"""
        if tn.endswith("[]") or c.endswith("[]"):
            return c == tn
        return TYPE_MAP[c] == TYPE_MAP[tn] or (TYPE_MAP[c], TYPE_MAP[tn]) == ("TUri", "TString") or tn == "dynamic"

    def lowered(self, o):
        """the builtin value an instance of another field-type class behaves as (model: Coerce.lower)"""
        from flow.record import fieldtypes as ft
        if isinstance(o, ft.string):
            b, lone = text_enc(str.__str__(o))
            return "(PStr %s %s)" % (cB(b), cbool(lone))
        if isinstance(o, (ft.varint, ft.uint16, ft.uint32, ft.boolean)):
            return "(PInt %s)" % cZ(int(o))
        if isinstance(o, ft.bytes):
            return "(PBytes %s)" % cB(bytes(o))
        if isinstance(o, ft.datetime):
            return "(PDatetime %s %s)" % (cwall(o), copt(off_us(o), cZ))
        if isinstance(o, ft.path):
            return "(PPath %s %s)" % (cbool(isinstance(o, pathlib.PureWindowsPath)), cB(text_enc(str(o))[0]))
        raise ValueError("no builtin form for %r" % type(o))

    # ---- candidate values
    def pv(self, v):
        from flow.record import Record
        from flow.record.base import FieldType
        if v is None:
            return "PNone"
        if id(v) in self.typed:
            tn, payload = self.typed[id(v)]
            return "(PTyped %s %s)" % (coq_ftype(tn), self.pv(payload))
        if isinstance(v, Record):
            return "(PRecord %d%%N)" % self.ident(v)
        if isinstance(v, FieldType):
            return "(POther %d%%N)" % self.ident(v)
        if isinstance(v, bool):
            return "(PBool %s)" % cbool(v)
        if isinstance(v, int):
            return "(PInt %s)" % cZ(int(v))
        if isinstance(v, float):
            if math.isnan(v):
                c = "FNan"
            elif math.isinf(v):
                c = "(FInf %s)" % cbool(v < 0)
            else:
                fl = math.floor(v)
                c = "(FFinite %s %s)" % (cZ(fl), cbool(v == fl))
            return "(PFloat %d%%N %s)" % (float_bits(v), c)
        if isinstance(v, str):
            b, lone = text_enc(v)
            return "(PStr %s %s)" % (cB(b), cbool(lone))
        if isinstance(v, bytes):
            return "(PBytes %s)" % cB(v)
        if isinstance(v, list):
            return "(PList %s)" % clist(self.pv(x) for x in v)
        if isinstance(v, tuple):
            return "(PTuple %s)" % clist(self.pv(x) for x in v)
        if isinstance(v, dict):
            return "(PDict %s)" % clist("(%s, %s)" % (self.pv(k), self.pv(x)) for k, x in v.items())
        if isinstance(v, pydt.datetime):
            return "(PDatetime %s %s)" % (cwall(v), copt(off_us(v), cZ))
        if isinstance(v, pathlib.PurePath):
            return "(PPath %s %s)" % (cbool(isinstance(v, pathlib.PureWindowsPath)), cB(text_enc(str(v))[0]))
        return "(POther %d%%N)" % self.ident(v)

    # ---- the runtime's answers (standard library only, never the code under test)
    def oracle(self, v, tn):
        """fill the tables with what the constructor of field type tn will ask the runtime about v"""
        if id(v) in self.typed:
            t2, payload = self.typed[id(v)]
            self.oracle(payload, t2)
            if tn.endswith("[]") and not self.same_class(t2, tn) and (t2.endswith("[]") or t2 in ("stringlist", "dictlist")):
                # a list object of another flow.record list type: its elements go through the element rule
                for x in v:
                    self.oracle(x, tn[:-2])
                return
            if not self.same_class(t2, tn) and not tn.endswith("[]") and tn != "record":
                # an instance of another class: the constructor sees the builtin value it extends; only str()
                # is asked of the instance itself
                low = self.lowered(v)
                for n in NEEDS[TYPE_MAP[tn]]:
                    key = self.pv(v) if n == "str" else low
                    if key not in self.tables[n]:
                        ans = getattr(self, "o_" + n)(v)
                        if ans is not None:
                            self.tables[n][key] = ans
            return
        if tn.endswith("[]"):
            et = tn[:-2]
            if isinstance(v, (list, tuple)):
                for x in v:
                    self.oracle(x, et)
            elif isinstance(v, dict):
                for x in v:
                    self.oracle(x, et)
            elif isinstance(v, (str, bytes)) and not isinstance(v, bytearray):
                key = self.pv(v)
                items = list(v)
                if key not in self.tables["iter"]:
                    self.tables["iter"][key] = copt(clist(self.pv(x) for x in items))
                for x in items:             # also when the entry exists already (filled for another slot type)
                    self.oracle(x, et)
            return
        needs = NEEDS[TYPE_MAP[tn]]
        if tn == "dynamic":
            if isinstance(v, (list, tuple)):
                return
            return
        key = self.pv(v)
        for n in needs:
            tbl = self.tables[n]
            if key in tbl:
                continue
            ans = getattr(self, "o_" + n)(v)
            if ans is not None:
                tbl[key] = ans

    def o_str(self, v):
        if isinstance(v, str):
            return None
        b, lone = text_enc(str(v))
        return "(%s, %s)" % (cB(b), cbool(lone))

    def o_int(self, v):
        if isinstance(v, (str, bytes)):
            try:
                return copt(int(v), cZ)
            except ValueError:
                return "None"
        return None

    def o_float(self, v):
        if isinstance(v, (str, bytes, int)):
            try:
                return "(Some %d%%N)" % float_bits(float(v))
            except (ValueError, OverflowError):
                return "None"
        return None

    def o_ip(self, v):
        if isinstance(v, (int, bytes)):
            return None
        try:
            a = pyip.ip_address(v)
            return "(Some (%d, %s))" % (a.version, cZ(int(a)))
        except Exception:  # noqa: any refusal
            return "None"

    def o_net(self, v):
        try:
            return "(Some %s)" % cB(pyip.ip_network(v).compressed.encode())
        except Exception:  # noqa: any refusal (ip_network(()) raises IndexError)
            return "None"

    def o_dt(self, v):
        try:
            if isinstance(v, bytes):
                d = pydt.datetime.fromisoformat(v.decode(errors="surrogateescape"))
            elif isinstance(v, str):
                d = pydt.datetime.fromisoformat(v)
            elif isinstance(v, (int, float)):
                d = pydt.datetime.fromtimestamp(v, UTC)
            else:
                return None
        except (ValueError, OverflowError, OSError):
            return "None"
        return "(Some (%s, %s))" % (cwall(d), copt(off_us(d), cZ))

    def o_uri(self, v):
        try:
            urlparse(v)
            return "true"
        except Exception:
            return "false"

    def o_path(self, v):
        if isinstance(v, str):
            s = "" if v == "" else str(pathlib.PurePosixPath(v))
            b, lone = text_enc(s)
            return "(%s, %s)" % (cB(b), cbool(lone))
        return None

    def o_cmd(self, v):
        if not isinstance(v, str):
            return None
        stripped = v.lstrip("\"'")
        windows = v.startswith(("\\\\", "%")) or (len(stripped) >= 2 and stripped[1] == ":")
        try:
            parts = shlex.split(v, posix=not windows)
        except ValueError:
            return "None"
        if not parts:
            return "None"
        return "(Some (%s, %s))" % (cbool(windows), cbool(has_lone(v)))

    def o_iter(self, v):
        if isinstance(v, (str, bytes)) and not isinstance(v, bytearray):
            return copt(clist(self.pv(x) for x in list(v)))
        return None

    def tables_term(self):
        def tbl(name):
            return clist("(%s, %s)" % (k, a) for k, a in self.tables[name].items())
        if not any(self.tables.values()):
            return "no_tables"
        return ("{| t_str := %s; t_int := %s; t_float := %s; t_ip := %s; t_net := %s; t_dt := %s; t_uri := %s; "
                "t_path := %s; t_cmd := %s; t_iter := %s |}") % tuple(tbl(n) for n in self.ORACLES)

    # ---- stored values
    def sv(self, o):
        from flow.record import fieldtypes as ft
        from flow.record.fieldtypes.net import ip
        if o is None:
            return "SNone"
        if isinstance(o, ft.string):
            b, lone = text_enc(str.__str__(o))
            return "(SStr %s %s)" % (cB(b), cbool(lone))
        if isinstance(o, ft.varint):
            return "(SInt %s)" % cZ(int(o))
        if isinstance(o, (ft.uint16, ft.uint32)):
            val = o.value
            if isinstance(val, bool):
                u = "(UBool %s)" % cbool(val)
            elif isinstance(val, int):
                u = "(UInt %s)" % cZ(int(val))
            elif isinstance(val, float):
                u = "(UFloat %d%%N)" % float_bits(val)
            else:
                return "(SPass %s)" % self.pv(val)
            return "(SUInt %s %s)" % (cZ(int(o)), u)
        if isinstance(o, ft.boolean):
            if not isinstance(o.value, bool):
                return "(SPass %s)" % self.pv(o.value)
            return "(SBool %s %s)" % (cZ(int(o)), cbool(o.value))
        if isinstance(o, ft.float):
            return "(SFloat %d%%N)" % float_bits(o)
        if isinstance(o, ft.bytes):
            if not isinstance(o.value, bytes) or bytes(o.value) != bytes(o):
                return "(SPass %s)" % self.pv(o.value)
            return "(SBytes %s)" % cB(bytes(o))
        if isinstance(o, ft.datetime):
            return "(SDt %s %s)" % (cwall(o), copt(off_us(o), cZ))
        if isinstance(o, ft.path):
            b, lone = text_enc(str(o))
            return "(SPath %s %s %s)" % (cbool(isinstance(o, pathlib.PureWindowsPath)), cB(b), cbool(lone))
        if isinstance(o, ft.command):
            lone = has_lone(str(o.executable)) or has_lone(list(o.args or []))
            return "(SCmd %s %s)" % (cbool(isinstance(o, ft.windows_command)), cbool(lone))
        if isinstance(o, ft.digest):
            return "(SDigest %s)" % " ".join(copt(x, cB) for x in o._pack())
        if isinstance(o, ip.ipaddress):
            return "(SIp %d %s)" % (o.val.version, cZ(int(o.val)))
        if isinstance(o, ip.ipnetwork):
            return "(SNet %s)" % cB(o.val.compressed.encode())
        if isinstance(o, (ft.stringlist, ft.dictlist)):
            return "(SList %s)" % clist("(SPass %s)" % self.pv(x) for x in o)
        if isinstance(o, list) and getattr(type(o), "__type__", None) is not None:
            return "(SList %s)" % clist(self.sv(x) for x in o)
        return "(SPass %s)" % self.pv(o)


# ------------------------------------------------------------------------------------------ candidates

class Cand:
    __slots__ = ("kind", "value", "expect", "classes")

    def __init__(self, kind, value, expect=None, classes=()):
        self.kind, self.value, self.expect, self.classes = kind, value, expect, set(classes)

    def __repr__(self):
        return "%s=%r" % (self.kind, self.value)


MD5 = "d41d8cd98f00b204e9800998ecf8427e"
SHA1 = "da39a3ee5e6b4b0d3255bfef95601890afd80709"
SHA256 = "e3b0c44298fc1c149afbf4c8996fb92427ae41e4649b934ca495991b7852b855"


class World:
    """the objects candidates are made of (records for the pass-through type, instances of field types)"""

    def __init__(self):
        from flow.record import RecordDescriptor
        self.enc = Enc()
        self.inner_a = RecordDescriptor("c05/inner", [("varint", "n"), ("string", "s")])
        self.inner_b = RecordDescriptor("c05/other", [("boolean", "flag")])
        self.rec_a = self.inner_a(n=1, s="x", _generated=T0)
        self.rec_b = self.inner_b(flag=True, _generated=T0)
        self.cache = {}
        # values taken from the fields of another record: already field-type instances, of OTHER types
        src_fields = [("varint", "size", 70000), ("varint", "small", 80), ("varint", "neg", -2), ("filesize", "fsize", 2048),
                      ("string", "name", "443"), ("string", "text", "abc"), ("uint32", "big", 70000), ("uint32", "u", 1),
                      ("uint16", "port", 22), ("boolean", "flag", True), ("boolean", "off", False), ("path", "p", "/x/y"),
                      ("datetime", "ts", pydt.datetime(2020, 1, 2, 3, 4, 5)), ("bytes", "raw", b"10.0.0.1"),
                      ("uri", "link", "http://h/p"), ("net.tcp.Port", "tport", 443), ("net.udp.Port", "uport", 53),
                      ("unix_file_mode", "mode", 0o644), ("wstring", "wtext", "w")]
        self.src_desc = RecordDescriptor("c05/source", [(t, n) for t, n, _ in src_fields])
        self.src = self.src_desc(_generated=T0, **{n: v for _, n, v in src_fields})
        self.foreign = []
        for t, n, v in src_fields:
            self.foreign.append((t, n, self.enc.register(getattr(self.src, n), t, v)))

        list_fields = [("varint[]", "sizes", [80, 70000]), ("varint[]", "small", [1, 0]), ("string[]", "names", ["443", "not-an-ip"]),
                       ("string[]", "ips", ["1.2.3.4", "::1"]), ("uint32[]", "bigs", [70000]), ("uint16[]", "ports", [22, 65535]),
                       ("boolean[]", "flags", [True, False]), ("bytes[]", "raws", [b"ab"]), ("uri[]", "links", ["http://h/p"]),
                       ("float[]", "floats", [1.0]), ("stringlist", "sl", ["a", b"b\xff"]), ("stringlist", "sl_ints", [1, 70000]),
                       ("dictlist", "dl", [{"a": 1}]), ("varint[]", "none", []),
                       ("net.tcp.Port[]", "tports", [22, 80]), ("net.udp.Port[]", "uports", [53]), ("filesize[]", "fsizes", [1024]),
                       ("net.IPAddress[]", "addrs", ["10.0.0.1"]), ("wstring[]", "wnames", ["w"])]
        self.src2_desc = RecordDescriptor("c05/listsource", [(t, n) for t, n, _ in list_fields])
        self.src2 = self.src2_desc(_generated=T0, **{n: v for _, n, v in list_fields})
        self.foreign_lists = []
        for t, n, v in list_fields:
            self.foreign_lists.append((t, n, self.enc.register(getattr(self.src2, n), t, v)))

    def foreign_list_cands(self, tn):
        """candidates for a T[] slot that are flow.record list objects of ANOTHER list type (another record's field)"""
        et = tn[:-2]
        out = []
        if et in ("record", "stringlist", "dictlist"):
            return out
        for t, n, inst in self.foreign_lists:
            if t == tn:
                continue
            if t in ("float[]", "net.IPAddress[]") and et != "dynamic" and TYPE_MAP[et] != TYPE_MAP[t[:-2]]:
                continue                    # float / address instances have no builtin form in the model
            expects = []
            classes = set()
            for x in inst:
                probe = Cand("probe", self._plain(x))
                self.classify(et, probe)
                expects.append(probe.expect)
                classes |= probe.classes
            exp = "reject" if "reject" in expects else ("accept" if expects and all(e == "accept" for e in expects) else None)
            if not len(inst):
                exp = "accept"
            out.append(Cand("listobj_%s_%s" % (re.sub(r"\W", "_", t), n), inst, exp, classes))
        return out

    def foreign_cands(self, tn):
        """candidates for a slot (or element) of scalar type tn that are field-type values of another type"""
        out = []
        if tn in ("record", "stringlist", "dictlist"):
            return out
        from flow.record.base import fieldtype
        with warnings.catch_warnings():
            warnings.simplefilter("ignore")
            target_cls = fieldtype(tn) if tn != "dynamic" else None
        for t, n, inst in self.foreign:
            if target_cls is None or isinstance(inst, target_cls):
                continue                    # passes isinstance(v, <class of tn>): covered by the "instance" candidates
            probe = Cand("probe", self._plain(inst))
            self.classify(tn, probe)
            c = Cand("foreign_%s_%s" % (t.replace(".", "_"), n), inst, probe.expect, probe.classes)
            out.append(c)
        return out

    @staticmethod
    def _plain(inst):
        """the builtin value of a field-type instance (for the expectations only)"""
        from flow.record import fieldtypes as ft
        if isinstance(inst, ft.boolean):
            return int(inst)
        if isinstance(inst, int):
            return int(inst)
        if isinstance(inst, str):
            return str.__str__(inst) + ""
        if isinstance(inst, bytes):
            return bytes(inst)
        if isinstance(inst, pydt.datetime):
            return pydt.datetime(inst.year, inst.month, inst.day, inst.hour, inst.minute, inst.second, inst.microsecond, inst.tzinfo)
        if isinstance(inst, pathlib.PurePath):
            return pathlib.PurePosixPath(str(inst))
        return inst

    def common(self):
        """wrong-kind pool shared by all types (fresh containers on every call)"""
        return [
            Cand("bool_true", True), Cand("bool_false", False), Cand("int_0", 0), Cand("int_1", 1), Cand("int_2", 2),
            Cand("int_neg1", -1), Cand("int_small", 5), Cand("float_fraction_in_0_1", 0.5), Cand("float_fraction", 5.7),
            Cand("float_neg_fraction", -0.5), Cand("float_neg_zero", -0.0), Cand("float_one", 1.0),
            Cand("float_integral", 7.0), Cand("float_nan", float("nan")), Cand("float_inf", float("inf")),
            Cand("float_neg_inf", float("-inf")), Cand("str_empty", ""), Cand("str_text", "abc"), Cand("str_digits", "5"),
            Cand("str_escape", "a\udcff"), Cand("str_lone_surrogate", "x\ud800"), Cand("bytes_empty", b""),
            Cand("bytes_text", b"abc"), Cand("bytes_digits", b"5"), Cand("bytes_undecodable", b"\xff\xfe"),
            Cand("list_empty", []), Cand("list_ints", [1, 2]), Cand("tuple_empty", ()), Cand("dict_empty", {}),
            Cand("dict_other", {"a": 1}), Cand("object", object()), Cand("bytearray", bytearray(b"x")),
            Cand("datetime_naive", pydt.datetime(2020, 1, 2, 3, 4, 5, 678)),
            Cand("datetime_aware", pydt.datetime(2020, 1, 2, 3, 4, 5, tzinfo=pydt.timezone(pydt.timedelta(hours=2)))),
            Cand("purepath", pathlib.PurePosixPath("/x/y")),
        ]

    def specific(self, tn):
        e = self.enc
        A, R = "accept", "reject"
        if tn in UINTS:
            m = UINTS[tn]
            return [Cand("uint_min", 0, A), Cand("uint_one", 1, A), Cand("uint_max_minus_1", m - 1, A), Cand("uint_max", m, A),
                    Cand("uint_max_plus_1", m + 1, R), Cand("uint_far_above", m * 65536 + 17, R), Cand("uint_far_below", -(2 ** 40), R),
                    Cand("uint_huge", 2 ** 80, R), Cand("float_max", float(m)), Cand("float_above_max", m + 0.5, R),
                    Cand("float_max_plus_1", float(m + 1), R), Cand("float_neg_one", -1.0, R), Cand("float_mid", 1234.25),
                    Cand("str_max", str(m)), Cand("instance", e.instance(tn, 7), A)]
        if tn == "boolean":
            return [Cand("float_zero", 0.0), Cand("float_above_one", 1.5, R), Cand("float_two", 2.0, R),
                    Cand("float_just_below_one", 0.9999999999999999, R), Cand("float_tiny", 5e-324, R),
                    Cand("int_huge", 10 ** 30, R), Cand("int_neg_huge", -(10 ** 30), R), Cand("int_3", 3, R),
                    Cand("int_neg2", -2, R), Cand("float_neg_one", -1.0, R), Cand("float_neg_tiny", -5e-324, R),
                    Cand("str_one", "1"), Cand("str_true", "true"), Cand("bytes_one", b"1"),
                    Cand("instance", e.instance("boolean", True), A), Cand("instance_false", e.instance("boolean", 0), A)]
        if tn in ("varint", "filesize", "unix_file_mode"):
            ints = [127, 128, -129, 2 ** 31, 2 ** 32, 2 ** 63 - 1, 2 ** 63, -2 ** 63, -2 ** 63 - 1, 2 ** 64, 10 ** 30, -(10 ** 30)]
            return [Cand("int_b%d" % i, v, A) for i, v in enumerate(ints)] + [
                Cand("float_big", 1e20), Cand("float_neg_fraction_big", -7.9), Cand("str_hex", "0x10"), Cand("str_spaced", " 7 "),
                Cand("str_underscore", "1_000"), Cand("str_neg", "-12"), Cand("str_float", "1.5"), Cand("bytes_neg", b"-3"),
                Cand("instance", e.instance(tn, 9), A)]
        if tn == "float":
            return [Cand("float_max", 1.7976931348623157e308, A), Cand("float_min", 5e-324, A), Cand("float_pi", 3.141592653589793, A),
                    Cand("int_2_53_plus_1", 2 ** 53 + 1), Cand("int_too_large", 10 ** 400), Cand("int_big", 10 ** 30),
                    Cand("str_float", "1.5"), Cand("str_nan", "nan"), Cand("str_inf", "-inf"), Cand("str_exp", "1e5"),
                    Cand("str_bad", "x"), Cand("bytes_float", b"2.5"), Cand("instance", e.instance("float", 2.5), A)]
        if tn == "bytes":
            return [Cand("bytes_nul", b"\x00" * 300, A), Cand("bytes_all", bytes(range(256)), A), Cand("memoryview", memoryview(b"ab"), R),
                    Cand("list_bytes", [97, 98], R), Cand("int_neg", -3, R), Cand("str_latin", "\xe9", R),
                    Cand("instance", e.instance("bytes", b"inst"), A)]
        if tn in ("string", "wstring"):
            return [Cand("str_unicode", "h\xe9llo \u20ac \U0001f600", A), Cand("str_nul", "a\x00b", A), Cand("str_long", "x" * 300, A),
                    Cand("bytes_utf8", "h\xe9".encode(), A), Cand("bytes_mixed", b"ok\xc3\xa9\xff", A),
                    Cand("str_escaped_pair", "\udcc3\udca9", A), Cand("instance", e.instance(tn, "inst"), A),
                    Cand("instance_uri", e.instance("uri", "http://x/y"), A)]
        if tn == "uri":
            return [Cand("uri_http", "http://example.com/a?b=c#d", A), Cand("uri_plain", "not a uri", A), Cand("uri_bad_v6", "http://[::1"),
                    Cand("bytes_uri", b"http://x/y"), Cand("bytes_non_ascii", b"http://\xff"), Cand("instance", e.instance("uri", "ftp://h/p"), A)]
        if tn == "datetime":
            tz = pydt.timezone
            td = pydt.timedelta
            return [Cand("naive_epoch", pydt.datetime(1970, 1, 1), A), Cand("naive_min", pydt.datetime(1, 1, 1), A),
                    Cand("naive_max", pydt.datetime(9999, 12, 31, 23, 59, 59, 999999), A),
                    Cand("aware_utc", pydt.datetime(2000, 2, 29, 12, 0, tzinfo=UTC), A),
                    Cand("aware_negative", pydt.datetime(1969, 12, 31, 23, 59, 59, tzinfo=tz(td(hours=-11, minutes=-30))), A),
                    Cand("aware_seconds_offset", pydt.datetime(2021, 6, 1, tzinfo=tz(td(seconds=3723, microseconds=5))), A),
                    Cand("aware_zoneinfo_fold", _zone_dt(), A),
                    Cand("iso_date", "2020-01-02"), Cand("iso_naive", "2020-01-02T03:04:05"), Cand("iso_offset", "2020-01-02T03:04:05.5+02:00"),
                    Cand("iso_z", "2020-01-02 03:04:05Z"), Cand("iso_basic", "20200102T030405"), Cand("iso_bad_month", "2020-13-01"),
                    Cand("iso_bytes", b"2020-01-02T03:04:05"), Cand("epoch_zero", 0), Cand("epoch_fraction", 1.5),
                    Cand("epoch_negative", -86400), Cand("epoch_out_of_range", 10 ** 20), Cand("epoch_big_float", 1e18),
                    Cand("instance", e.instance("datetime", pydt.datetime(2022, 2, 2, 2, 2, 2)), A)]
        if tn == "path":
            return [Cand("posix_abs", "/tmp/foo/../bar", A), Cand("posix_rel", "user/.bash_history", A), Cand("posix_slashes", "//a///b/", A),
                    Cand("windows_text", "C:\\Windows\\x", A), Cand("pure_windows", pathlib.PureWindowsPath("d:/Users/Public"), A),
                    Cand("pure_posix_empty", pathlib.PurePosixPath(""), A), Cand("str_dot", ".", A),
                    Cand("instance", e.instance("path", "/inst/p"), A)]
        if tn == "command":
            return [Cand("posix_cmd", "ls -l /tmp", A), Cand("windows_cmd", "C:\\Windows\\system32\\cmd.exe /c dir", A),
                    Cand("quoted", "/bin/echo 'a b' c", A), Cand("env_cmd", "%WINDIR%\\x.dll a,b", A), Cand("unbalanced", "a 'b"),
                    Cand("spaces_only", "   "), Cand("unc", "\\\\server\\share\\x.exe /q", A)]
        if tn == "digest":
            return [Cand("tuple_all", (MD5, SHA1, SHA256), A), Cand("list_all", [MD5, SHA1, SHA256], A), Cand("tuple_md5", (MD5, None, None), A),
                    Cand("tuple_none", (None, None, None), A), Cand("tuple_upper", (MD5.upper(), None, SHA256.upper()), A),
                    Cand("tuple_bytes_hex", (MD5.encode(), None, None)), Cand("dict_sha1", {"sha1": SHA1}, A),
                    Cand("dict_all", {"md5": MD5, "sha1": SHA1, "sha256": SHA256}, A), Cand("dict_unknown_key", {"foo": "x"}),
                    Cand("dict_bad_value", {"md5": "zz"}, R), Cand("dict_short_value", {"sha256": MD5}, R),
                    Cand("tuple_arity_1", (MD5,), R), Cand("tuple_arity_2", (MD5, SHA1), R), Cand("tuple_arity_4", (MD5, SHA1, SHA256, None), R),
                    Cand("tuple_non_hex", ("z" * 32, None, None), R), Cand("tuple_short", ("abcd", None, None), R),
                    Cand("tuple_long", (MD5 + "00", None, None), R), Cand("tuple_odd", (MD5[:-1], None, None), R),
                    Cand("tuple_swapped", (SHA1, MD5, None), R), Cand("tuple_int", (5, None, None), R),
                    Cand("tuple_non_ascii", ("\xe9" * 32, None, None), R), Cand("tuple_empty_text", ("", None, None), R),
                    Cand("tuple_spaces", (" " + MD5, None, None), R), Cand("tuple_sha256_short", (None, None, SHA1), R),
                    Cand("str_hex", MD5, R), Cand("bytes_hex", MD5.encode(), R),
                    Cand("instance", e.instance("digest", (MD5, None, None)), A)]
        if tn in ("net.ipaddress", "net.IPAddress"):
            vals = [("v4", "1.2.3.4"), ("v4_zero", "0.0.0.0"), ("v4_max", "255.255.255.255"), ("v6_loop", "::1"), ("v6_any", "::"),
                    ("v6_mapped", "::ffff:1.2.3.4"), ("v6_max", "ffff:ffff:ffff:ffff:ffff:ffff:ffff:ffff"), ("three_octets", "1.2.3"),
                    ("octet_256", "256.1.1.1"), ("with_prefix", "1.2.3.4/8"), ("leading_space", " 1.2.3.4"), ("leading_zero", "01.2.3.4"),
                    ("v6_too_long", "1:2:3:4:5:6:7:8:9"), ("v6_scope", "fe80::1%eth0"), ("int_v4_max", 2 ** 32 - 1), ("int_v6_min", 2 ** 32),
                    ("int_v6_max", 2 ** 128 - 1), ("int_too_big", 2 ** 128), ("int_negative", -5), ("packed_v4", b"\x01\x02\x03\x04"),
                    ("packed_v6", bytes(range(16))), ("packed_3", b"\x01\x02\x03"), ("packed_5", b"\x01\x02\x03\x04\x05")]
            out = []
            for k, v in vals:
                try:
                    pyip.ip_address(v)
                    out.append(Cand(k, v, A))
                except Exception:  # noqa
                    out.append(Cand(k, v, R))
            return out + [Cand("instance", e.instance(tn, "9.8.7.6"), A)]
        if tn in ("net.ipnetwork", "net.IPNetwork"):
            vals = [("net_v4", "10.0.0.0/8"), ("net_any", "0.0.0.0/0"), ("net_host", "192.168.1.1/32"), ("net_v6", "2001:db8::/32"),
                    ("net_v6_any", "::/0"), ("net_plain_address", "1.2.3.4"), ("net_host_bits", "10.0.0.1/8"), ("net_prefix_33", "10.0.0.0/33"),
                    ("net_netmask", "10.0.0.0/255.0.0.0"), ("net_text", "x"), ("net_two_slashes", "10.0.0.0/8/8"), ("net_tuple", ("10.0.0.0", 8)),
                    ("net_int", 167772160), ("net_packed", b"\x0a\x00\x00\x00"), ("net_int_negative", -1)]
            out = []
            for k, v in vals:
                try:
                    pyip.ip_network(v)
                    out.append(Cand(k, v, A))
                except Exception:  # noqa
                    out.append(Cand(k, v, R))
            return out + [Cand("instance", e.instance(tn, "172.16.0.0/12"), A)]
        if tn == "record":
            return [Cand("record_a", self.rec_a, A), Cand("record_b", self.rec_b, A)]
        if tn == "stringlist":
            return [Cand("list_text", ["a", "b"], A), Cand("tuple_text", ("x",), A), Cand("list_mixed", [1, "a"], A), Cand("str_iter", "ab")]
        if tn == "dictlist":
            return [Cand("list_dicts", [{"a": 1}, {"b": "x"}], A), Cand("list_none", [], A)]
        if tn == "dynamic":
            return [Cand("dyn_text", "s", A), Cand("dyn_int_huge", 2 ** 70, A), Cand("dyn_bytes", b"b", A), Cand("dyn_list", ["a", "b"], A),
                    Cand("dyn_tuple", ("a",), A), Cand("dyn_windows_path", pathlib.PureWindowsPath("c:/x"), A),
                    Cand("dyn_instance_string", e.instance("string", "typed"), A), Cand("dyn_instance_varint", e.instance("varint", 3), A),
                    Cand("dyn_instance_digest", e.instance("digest", (MD5, None, None)), A)]
        raise ValueError(tn)

    def scalar(self, tn):
        """candidate table of a scalar type"""
        if tn == "record":
            cands = self.specific(tn)            # quantifier: records (and None)
        elif tn in ("stringlist", "dictlist"):
            # legacy untyped containers: plain, packable payloads only; wrong kinds that are not iterable
            cands = self.specific(tn) + [c for c in self.common() if c.kind in (
                "int_small", "float_fraction", "bool_true", "object", "list_empty", "tuple_empty", "list_ints", "int_0")]
        else:
            cands = self.specific(tn) + self.common()
        for c in cands:
            self.classify(tn, c)
        return cands + self.foreign_cands(tn)

    def classify(self, tn, c):
        v = c.value
        if tn in UINTS and isinstance(v, float) and not math.isnan(v) and 0 <= v <= UINTS[tn]:
            c.classes.add("float_in_range")
        if tn in UINTS and isinstance(v, (int, float)) and not (isinstance(v, float) and math.isnan(v)) and c.expect is None:
            if not (0 <= v <= UINTS[tn]):
                c.expect = "reject"
        if tn in UINTS and isinstance(v, float) and (math.isnan(v) or (not math.isinf(v) and v != math.floor(v))):
            c.expect = "reject"            # a non-integral value is not an unsigned integer
        if tn == "boolean" and isinstance(v, (int, float)) and c.expect is None:
            c.expect = "accept" if (v == 0 or v == 1) and not isinstance(v, float) else ("reject" if not (v == 0 or v == 1) else None)
        if tn == "boolean" and isinstance(v, float) and 0 < v < 1:
            c.classes.add("float_strictly_between_0_and_1")
        if tn == "bytes" and c.expect is None:
            c.expect = "accept" if type(v) is bytes else "reject"
        if tn == "digest" and c.expect is None and not isinstance(v, (tuple, list, dict)):
            c.expect = "reject"
        if tn == "digest" and c.expect is None and isinstance(v, (tuple, list)) and len(v) != 3:
            c.expect = "reject"
        if tn in UINTS and type(v) is int and c.expect is None and 0 <= v <= UINTS[tn]:
            c.expect = "accept"
        if tn == "digest" and not isinstance(v, (tuple, list, dict)) and id(v) not in self.enc.typed:
            c.classes.add("not_tuple_list_dict")
        if tn in ("net.ipaddress", "net.IPAddress") and c.expect is None:
            try:
                pyip.ip_address(v)
            except Exception:  # noqa
                c.expect = "reject"
        if tn in ("net.ipnetwork", "net.IPNetwork") and c.expect is None:
            try:
                pyip.ip_network(v)
            except Exception:  # noqa
                c.expect = "reject"
        if has_lone(v):
            c.classes.add("text_lone_surrogate")

    def listform(self, tn):
        """candidate table of T[]: one-element lists of every element candidate, longer lists, tuples, wrong kinds"""
        et = tn[:-2]
        elems = self.scalar(et)
        valid = [c for c in elems if c.expect == "accept" and id(c.value) not in self.enc.typed][:3]
        out = [Cand("list_empty", [], "accept"), Cand("tuple_empty", (), "accept")]
        for c in elems:
            out.append(Cand("list1:" + c.kind, [c.value], c.expect, c.classes))
        if valid:
            v0 = valid[0].value
            out.append(Cand("tuple_valid", tuple(c.value for c in valid), "accept"))
            for c in elems[:: max(1, len(elems) // 8)]:
                exp = c.expect if c.expect == "reject" else (c.expect if c.expect == "accept" else None)
                out.append(Cand("list3:" + c.kind, [v0, c.value, v0], exp, c.classes))
        if et != "record":
            out.append(Cand("list1:none", [None]))
            out += [Cand("scalar_int", 5), Cand("scalar_float", 1.5), Cand("scalar_true", True), Cand("scalar_false", False),
                    Cand("scalar_zero", 0), Cand("text_empty", ""), Cand("text_iter", "ab"), Cand("bytes_iter", b"ab"),
                    Cand("dict_empty", {}), Cand("dict_keys", {"k": 1}), Cand("object", object())]
            for c in out[-11:]:
                self.classify_list(et, c)
        if valid:
            from flow.record.base import fieldtype
            inst = fieldtype(tn)([valid[0].value])
            self.enc.typed[id(inst)] = (tn, [valid[0].value])
            self.enc.keep.append(inst)
            out.append(Cand("list_instance", inst, "accept"))
        return out + self.mixed_cands(tn, elems) + self.foreign_list_cands(tn)

    def mixed_cands(self, tn, elems):
        """lists of three in which the element at position p (0..2) already is an instance of the element type (as if
        taken from another record's field) and the other two are raw: valid, invalid, of a wrong kind, None.  The
        oracle is per element: every element of the stored list is of the element type, or the whole assignment is
        refused and leaves the slot unchanged."""
        et = tn[:-2]
        if et in ("record", "stringlist", "dictlist", "dynamic"):
            return []
        raw = [c for c in elems if id(c.value) not in self.enc.typed]
        valid = next((c for c in raw if c.expect == "accept"), None)
        invalid = next((c for c in raw if c.expect == "reject"), None)
        wrong = next((c for c in raw if c.kind == "object"), None)
        if valid is None:
            return []
        out = []
        for p in range(3):
            for label, other in (("valid", valid), ("invalid", invalid), ("wrong", wrong), ("none", Cand("none", None))):
                if other is None:
                    continue
                try:
                    inst = self.enc.instance(et, valid.value)
                except Exception:  # noqa: the type has no instance of this payload
                    return out
                items = [other.value, other.value, other.value]
                if label != "valid":
                    items[(p + 1) % 3] = valid.value          # one valid raw, one `other` raw, one typed
                items[p] = inst
                exp = "reject" if other.expect == "reject" else ("accept" if label == "valid" else None)
                out.append(Cand("mixed_p%d_%s" % (p, label), items, exp, set(other.classes)))
        return out

    def classify_list(self, et, c):
        """a non-list value handed to a list field: what its iteration yields decides the class"""
        v = c.value
        if isinstance(v, (str, bytes, dict)) and v:
            for x in list(v):
                if et == "digest":
                    c.classes.add("not_tuple_list_dict")
                if et in UINTS and isinstance(x, float):
                    c.classes.add("float_in_range")
                if et == "boolean" and isinstance(x, float) and 0 < x < 1:
                    c.classes.add("float_strictly_between_0_and_1")
        if has_lone(v):
            c.classes.add("text_lone_surrogate")

    def table(self, tn):
        if tn not in self.cache:
            with warnings.catch_warnings():
                warnings.simplefilter("ignore")
                self.cache[tn] = self.listform(tn) if tn.endswith("[]") else self.scalar(tn)
            kinds = [c.kind for c in self.cache[tn]]
            assert len(kinds) == len(set(kinds)), (tn, kinds)
        return self.cache[tn]

    def by_kind(self, tn, kind):
        for c in self.table(tn):
            if c.kind == kind:
                return c
        raise KeyError((tn, kind))


def _zone_dt():
    import zoneinfo
    return pydt.datetime(2021, 10, 31, 2, 30, tzinfo=zoneinfo.ZoneInfo("Europe/Amsterdam"), fold=1)


# ------------------------------------------------------------------------------------------ the specification on objects

def slot_problem(tn, o):
    """None when the object is a value of the declared type tn (or unset), else a description"""
    from flow.record import GroupedRecord, Record
    from flow.record import fieldtypes as ft
    from flow.record.base import FieldType, fieldtype
    from flow.record.fieldtypes.net import ip
    if o is None:
        return None
    with warnings.catch_warnings():
        warnings.simplefilter("ignore")
        declared = fieldtype(tn)
    if tn.endswith("[]"):
        if not isinstance(o, list):
            return "list field holds %s" % type(o).__name__
        # by class identity, not by name: the list class of T[] and its element class
        if type(o) is not declared:
            return "list object is a %s, not the list class of %s" % (_clsname(type(o)), tn)
        with warnings.catch_warnings():
            warnings.simplefilter("ignore")
            elem_cls = fieldtype(tn[:-2])
        if declared.__type__ is not elem_cls:
            return "the list class of %s converts its elements to %s, the declared element class is %s" % (
                tn, _clsname(declared.__type__), _clsname(elem_cls))
        for i, x in enumerate(o):
            if x is None:
                return "element %d is None" % i
            p = slot_problem(tn[:-2], x)
            if p:
                return "element %d: %s" % (i, p)
        return None
    if tn not in ("record", "dynamic") and not isinstance(o, declared):
        return "holds a %s, not a %s" % (_clsname(type(o)), _clsname(declared))
    if tn in UINTS:
        cls = declared
        if not isinstance(o, cls):
            return "holds %s" % type(o).__name__
        val = o.value
        if not isinstance(val, int):
            return "packed value is the %s %r" % (type(val).__name__, val)
        if int(val) != int(o) or not (0 <= int(val) <= UINTS[tn]):
            return "packed value %r / object %r" % (val, int(o))
        return None
    if tn == "boolean":
        if not isinstance(o, ft.boolean):
            return "holds %s" % type(o).__name__
        if type(o.value) is not bool:
            return "packed value is %r" % (o.value,)
        if int(o) != int(o.value):
            return "the object is the integer %d but its packed value is %r" % (int(o), o.value)
        return None
    if tn == "datetime":
        if not isinstance(o, pydt.datetime):
            return "holds %s" % type(o).__name__
        if o.utcoffset() is None:
            return "naive datetime"
        return None
    if tn == "digest":
        if not isinstance(o, ft.digest):
            return "holds %s" % type(o).__name__
        for b, n in zip(o._pack(), (16, 20, 32)):
            if b is not None and (not isinstance(b, bytes) or len(b) != n):
                return "digest of %r bytes where %d are required" % (b if not isinstance(b, bytes) else len(b), n)
        return None
    if tn in ("net.ipaddress", "net.IPAddress"):
        if not isinstance(o, ip.ipaddress) or not isinstance(o.val, (pyip.IPv4Address, pyip.IPv6Address)):
            return "holds %s" % type(o).__name__
        return None
    if tn == "record":
        if not isinstance(o, Record) or isinstance(o, GroupedRecord):
            return "holds %s" % type(o).__name__
        return None
    if tn in ("stringlist", "dictlist"):
        return None if isinstance(o, getattr(ft, tn)) else "holds %s" % type(o).__name__
    if tn == "dynamic":
        return None if isinstance(o, FieldType) else "holds %s" % type(o).__name__
    if tn == "bytes":
        if not isinstance(o, ft.bytes) or type(o.value) is not bytes or o.value != bytes(o):
            return "holds %s with packed value %r" % (type(o).__name__, getattr(o, "value", None))
        return None
    canon = {"wstring": "string", "net.IPNetwork": "net.ipnetwork"}.get(tn, tn)
    try:
        recgen.obs_value(canon, o)
    except recgen.Unobservable as e:
        if "text not encodable" in str(e):
            return None          # a str it is; whether it can be serialised is the serialisation clause
        return str(e)
    return None


def _clsname(c):
    return "%s.%s" % (getattr(c, "__module__", "?"), getattr(c, "__qualname__", getattr(c, "__name__", "?")))


def record_problems(r, fields):
    out = []
    for i, (tn, name) in enumerate(fields):
        p = slot_problem(tn, getattr(r, name))
        if p:
            out.append((i, "%s field %s: %s" % (tn, name, p)))
    return out


def serialise(r):
    """record stream + JSON; returns (stream bytes, json text)"""
    from flow.record.jsonpacker import JsonRecordPacker
    from flow.record.stream import RecordStreamWriter
    buf = io.BytesIO()
    w = RecordStreamWriter(buf)
    w.write(r)
    w.flush()
    jp = JsonRecordPacker()
    lines = []
    jp.on_descriptor.add_handler(lambda d: lines.append(jp.pack(d)))
    lines.append(jp.pack(r))
    return buf.getvalue(), lines


def decode_stream(data):
    from flow.record.stream import RecordStreamReader
    return list(RecordStreamReader(io.BytesIO(data)))


def decode_json(lines):
    from flow.record.jsonpacker import JsonRecordPacker
    from flow.record import Record
    jp = JsonRecordPacker()
    out = []
    for ln in lines:
        o = jp.unpack(ln)
        if isinstance(o, Record):
            out.append(o)
    return out


# ------------------------------------------------------------------------------------------ cases

FIELD_NAMES = ["f0", "f1", "f2", "f3"]
KW_NAMES = ["from", "f1", "class", "f3"]


class Case:
    """a descriptor (user field types; kw = keyword-named fields) and a list of operations:
       ("construct", {idx: (tn, kind)}) | ("set", idx, (tn, kind)|None) | ("replace", {idx: (tn, kind)|None})
       | ("gset", idx, (tn, kind)|None)  assignment through a GroupedRecord view on the record
       | ("init_from", {idx: (tn, kind)})  Target.init_from_record(<record whose field holds the value>)
       | ("set_unknown", (tn, kind)) | ("replace_unknown", (tn, kind))"""

    def __init__(self, types, kw, ops, label):
        self.types, self.kw, self.ops, self.label = list(types), kw, ops, label

    def to_json(self):
        return dict(kind="ops", types=self.types, kw=self.kw, ops=self.ops, label=self.label)


class WorldCase(Case):
    """a history over SEVERAL records of one descriptor, with in-place mutation of the values they hold:
       ("new", {idx: (tn, kind)})            one more record (fields without a value get the documented default)
       | ("mutate", j, idx, how, value)      records[j].<field>: how = "append" | "iadd" (lists), "md5" (digest)
       | ("wset", j, idx, (tn, kind)|None)   setattr on records[j]
       | ("replace_new", j, {idx: ref|None}) records[j]._replace(...) as one more record
       | ("decode_none", j)                  records[j] (all user fields None) through a record stream: one more record"""

    def to_json(self):
        return dict(kind="world", types=self.types, kw=self.kw, ops=self.ops, label=self.label)


def descriptor_for(case):
    from flow.record import RecordDescriptor
    names = (KW_NAMES if case.kw else FIELD_NAMES)[: len(case.types)]
    with warnings.catch_warnings():
        warnings.simplefilter("ignore")
        d = RecordDescriptor("c05/case", list(zip(case.types, names)))
    return d, names


class Problem:
    def __init__(self, stage, what, info, step):
        self.stage, self.what, self.info, self.step = stage, what, info, step


def cand_info(tn, cand, stage):
    return dict(type=base_of(tn), list_form=tn.endswith("[]"),
                candidate_kind=cand.kind.split(":", 1)[-1] if cand else None,
                candidate_classes=sorted(cand.classes) if cand else [], stage=stage)


def finding_for(kf, info):
    for f in kf:
        m = f.get("match", {})
        ok = True
        for k, want in m.items():
            if k == "type_in":
                ok = info.get("type") in want
            elif k == "candidate_class":
                ok = want in info.get("candidate_classes", [])
            elif k == "stage_in":
                ok = info.get("stage") in want
            else:
                ok = info.get(k) == want
            if not ok:
                break
        if ok:
            return f
    return None


def execute(world, case, check_serialise=True):
    """Run the case on the implementation.  Returns (coq term | None, problems, step summaries)."""
    enc = world.enc
    enc.reset_tables()
    d, names = descriptor_for(case)
    fields = list(zip(case.types, names)) + RESERVED
    all_names = names + [n for _, n in RESERVED]
    nslots = len(fields)
    cur = None
    slot_cand = {}           # slot index -> (tn, Cand) that produced the current value
    coq_ops, coq_exp, steps, problems = [], [], [], []
    seen_states = set()

    def get(ref):
        if ref is None:
            return None, None
        tn, kind = ref
        c = world.by_kind(tn, kind)
        return c, c.value

    def observe(r):
        return [enc.sv(getattr(r, n)) for n in all_names]

    for si, op in enumerate(case.ops):
        before = observe(cur) if cur is not None else None
        used = []            # (slot index, tn, Cand)
        err = None
        new = None
        with warnings.catch_warnings():
            warnings.simplefilter("ignore")
            try:
                if op[0] == "construct":
                    kwargs = {"_generated": T0}
                    args = ["PNone"] * len(case.types)
                    for idx, ref in op[1].items():
                        idx = int(idx)
                        c, v = get(ref)
                        used.append((idx, case.types[idx], c))
                        enc.oracle(v, case.types[idx])
                        args[idx] = enc.pv(v)
                        kwargs[names[idx]] = v
                    coq_ops.append("(OConstruct (%s ++ ARGS0))" % clist(args))
                    new = d.recordType(**kwargs)
                elif op[0] == "set":
                    idx = op[1]
                    c, v = get(op[2])
                    tn = fields[idx][0]
                    used.append((idx, tn, c))
                    if c is not None:
                        enc.oracle(v, tn)
                    coq_ops.append("(OSet %d%%nat %s)" % (idx, enc.pv(v)))
                    setattr(cur, all_names[idx], v)
                    new = cur
                elif op[0] == "gset":
                    from flow.record import GroupedRecord
                    idx = op[1]
                    c, v = get(op[2])
                    tn = fields[idx][0]
                    used.append((idx, tn, c))
                    if c is not None:
                        enc.oracle(v, tn)
                    coq_ops.append("(OSetGrouped %d%%nat %s)" % (idx, enc.pv(v)))
                    group = GroupedRecord("c05/group", [cur, world.rec_b])
                    setattr(group, all_names[idx], v)
                    new = cur
                    if getattr(group, all_names[idx]) is not getattr(cur, all_names[idx]):
                        raise AssertionError("the group and its member disagree on %s" % all_names[idx])
                elif op[0] == "init_from":
                    from flow.record import RecordDescriptor
                    args = ["PNone"] * len(case.types)
                    sfields, svals = [], {}
                    for idx, ref in op[1].items():
                        idx = int(idx)
                        c, v = get(ref)
                        t2, payload = enc.typed[id(v)]
                        sfields.append((t2, names[idx]))
                        svals[names[idx]] = payload
                        used.append((idx, case.types[idx], c))
                    src = RecordDescriptor("c05/initsource", sfields)(_generated=T0, **svals)
                    for idx, ref in op[1].items():
                        idx = int(idx)
                        c, v = get(ref)
                        val = getattr(src, names[idx])
                        enc.register(val, *enc.typed[id(v)])
                        enc.oracle(val, case.types[idx])
                        args[idx] = enc.pv(val)
                    coq_ops.append("(OConstruct (%s ++ ARGS0))" % clist(args))
                    new = d.init_from_record(src)
                elif op[0] == "set_unknown":
                    c, v = get(op[1])
                    coq_ops.append("(OSet %d%%nat %s)" % (nslots, enc.pv(v)))
                    setattr(cur, "no_such_field", v)
                    new = cur
                elif op[0] == "replace":
                    kwargs = {}
                    kvs = []
                    for idx, ref in op[1].items():
                        idx = int(idx)
                        c, v = get(ref)
                        tn = fields[idx][0]
                        used.append((idx, tn, c))
                        if c is not None:
                            enc.oracle(v, tn)
                        kvs.append("(%d%%nat, %s)" % (idx, enc.pv(v)))
                        kwargs[all_names[idx]] = v
                    coq_ops.append("(OReplace %s)" % clist(kvs))
                    new = cur._replace(**kwargs)
                elif op[0] == "replace_unknown":
                    c, v = get(op[1])
                    coq_ops.append("(OReplace [(%d%%nat, %s)])" % (nslots, enc.pv(v)))
                    new = cur._replace(no_such_field=v)
                else:
                    raise ValueError(op)
            except Exception as e:  # noqa: the outcome class is the observation
                err = type(e).__name__
        accepted = err is None
        if accepted:
            cur = new
            for idx, tn, c in used:
                slot_cand[idx] = (tn, c)
            if op[0] in ("construct", "init_from"):
                for idx in list(slot_cand):
                    if idx not in [u[0] for u in used]:
                        del slot_cand[idx]
        after = observe(cur) if cur is not None else None
        if cur is None:
            # no record yet (the first construct failed): the model's blank record is not observable; end of the case
            return None, problems, steps
        if not accepted and after == before:
            coq_exp.append("(false, None)")
        elif after[-4:] == RES0:
            coq_exp.append("(%s, Some (%s ++ RES))" % (cbool(accepted), clist(after[:-4])))
        else:
            coq_exp.append("(%s, Some %s)" % (cbool(accepted), clist(after)))
        steps.append(dict(op=op[0], outcome="accepted" if accepted else err))
        # --- the property on the implementation
        if not accepted and before is not None and after != before:
            changed = [all_names[i] for i in range(nslots) if before[i] != after[i]]
            for idx, tn, c in (used or [(None, "string", None)]):
                problems.append(Problem("unchanged", "step %d (%s) raised %s but changed the record: slot(s) %s" % (
                    si, op[0], err, ", ".join(changed)), cand_info(tn, c, "unchanged"), si))
        for idx, tn, c in used:
            if c is None:
                if not accepted and all(u[2] is None for u in used):
                    problems.append(Problem("none", "step %d: assigning None to %s field raised %s" % (si, tn, err),
                                            cand_info(tn, None, "none"), si))
                continue
            if c.expect == "reject" and accepted and len(used) == 1:
                problems.append(Problem("reject", "%s accepted the unrepresentable value %s (%r) through %s" % (
                    tn, c.kind, _short(c.value), op[0]), cand_info(tn, c, "reject"), si))
            if c.expect == "accept" and not accepted and len(used) == 1:
                problems.append(Problem("accept", "%s rejected the valid value %s (%r) through %s with %s" % (
                    tn, c.kind, _short(c.value), op[0], err), cand_info(tn, c, "accept"), si))
        if accepted:
            for idx, why in record_problems(cur, fields):
                tn, c = slot_cand.get(idx, (fields[idx][0], None))
                problems.append(Problem("typing", "after step %d (%s): %s" % (si, op[0], why), cand_info(tn, c, "typing"), si))
            key = tuple(after)
            if check_serialise and key not in seen_states:
                seen_states.add(key)
                problems += serialise_check(cur, fields, slot_cand, si)
    tbl = enc.tables_term()
    term = "case_ops gen_facts %s %s %s %s %s" % (
        tbl, cbool(case.kw), clist([coq_ftype(t) for t, _ in fields]), clist(coq_ops), clist(coq_exp))
    return term, problems, steps


def execute_world(world, case):
    """Run a multi-record history on the implementation.  Returns (coq term, problems, step summaries)."""
    enc = world.enc
    enc.reset_tables()
    d, names = descriptor_for(case)
    fields = list(zip(case.types, names)) + RESERVED
    all_names = names + [n for _, n in RESERVED]
    nuser = len(case.types)
    records = []
    coq_ops, coq_exp, steps, problems = [], [], [], []

    def get(ref):
        if ref is None:
            return None, None
        c = world.by_kind(*ref)
        return c, c.value

    def observe_all():
        return [[enc.sv(getattr(r, n)) for n in all_names] for r in records]

    def default_term(tn):
        if case.kw:
            return "SNone"
        return "(SList [])" if tn.endswith("[]") else ("(SDigest None None None)" if tn == "digest" else "SNone")

    def check_fresh(si, what, rec, unset):
        """slots that were given no value hold the documented default -- a new one"""
        for idx in unset:
            tn = case.types[idx]
            val = getattr(rec, names[idx])
            got = enc.sv(val)
            if got != default_term(tn):
                problems.append(Problem("default", "step %d: %s: the %s field that was given no value holds %s instead of the type's "
                                        "empty default (values of another record of the type)" % (si, what, tn, _short(_plain_repr(val))),
                                        dict(type=base_of(tn), list_form=tn.endswith("[]"), candidate_kind=None, candidate_classes=[],
                                             stage="default"), si))
            if val is not None:
                for other in records:
                    if other is not rec and getattr(other, names[idx]) is val:
                        problems.append(Problem("default", "step %d: %s: the %s field that was given no value is the SAME object as "
                                                "another record's" % (si, what, tn),
                                                dict(type=base_of(tn), list_form=tn.endswith("[]"), candidate_kind=None,
                                                     candidate_classes=[], stage="default"), si))

    for si, op in enumerate(case.ops):
        before = observe_all()
        err = None
        with warnings.catch_warnings():
            warnings.simplefilter("ignore")
            try:
                if op[0] == "new":
                    kwargs = {"_generated": T0}
                    args = ["PNone"] * nuser
                    for idx, ref in op[1].items():
                        idx = int(idx)
                        c, v = get(ref)
                        enc.oracle(v, case.types[idx])
                        args[idx] = enc.pv(v)
                        kwargs[names[idx]] = v
                    coq_ops.append("(WNew (%s ++ ARGS0))" % clist(args))
                    rec = d.recordType(**kwargs)
                    records.append(rec)
                    check_fresh(si, "a new record", rec, [i for i in range(nuser) if i not in [int(k) for k in op[1]]])
                elif op[0] == "mutate":
                    _, j, idx, how, x = op
                    coq_ops.append("(WMutate %d%%nat %d%%nat %s)" % (j, idx, enc.pv(x)))
                    val = getattr(records[j], names[idx])
                    if val is not None:
                        if how == "append":
                            val.append(x)
                        elif how == "iadd":
                            val += [x]
                        elif how == "md5":
                            val.md5 = x
                elif op[0] == "wset":
                    _, j, idx, ref = op
                    c, v = get(ref)
                    if c is not None:
                        enc.oracle(v, fields[idx][0])
                    coq_ops.append("(WOp %d%%nat (OSet %d%%nat %s))" % (j, idx, enc.pv(v)))
                    setattr(records[j], all_names[idx], v)
                elif op[0] == "replace_new":
                    _, j, kv = op
                    kvs, kwargs = [], {}
                    for idx, ref in kv.items():
                        idx = int(idx)
                        c, v = get(ref)
                        if c is not None:
                            enc.oracle(v, fields[idx][0])
                        kvs.append("(%d%%nat, %s)" % (idx, enc.pv(v)))
                        kwargs[all_names[idx]] = v
                    coq_ops.append("(WReplaceNew %d%%nat %s)" % (j, clist(kvs)))
                    src = records[j]
                    unset = [i for i in range(nuser) if getattr(src, names[i]) is None and i not in [int(k) for k in kv]]
                    rec = src._replace(**kwargs)
                    records.append(rec)
                    check_fresh(si, "_replace of a record whose field is None", rec, unset)
                elif op[0] == "decode_none":
                    j = op[1]
                    src = records[j]
                    if any(getattr(src, n) is not None for n in names):
                        raise AssertionError("decode_none needs a record whose user fields are None")
                    coq_ops.append("(WNew (%s ++ ARGS0))" % clist(["PNone"] * nuser))
                    data, _ = serialise(src)
                    back = [b for b in decode_stream(data) if b._desc.name == src._desc.name]
                    rec = back[0]
                    records.append(rec)
                    check_fresh(si, "a record decoded from a stream whose field is None", rec, list(range(nuser)))
                else:
                    raise ValueError(op)
            except AssertionError:
                raise
            except Exception as e:  # noqa: the outcome class is the observation
                err = type(e).__name__
        after = observe_all()
        accepted = err is None
        coq_exp.append("(%s, %s)" % (cbool(accepted), clist(clist(r) for r in after)))
        steps.append(dict(op=op[0], outcome="accepted" if accepted else err))
        # frame: only the record(s) the operation works on may change
        target = op[1] if op[0] in ("mutate", "wset") else None
        for k, (b, a) in enumerate(zip(before, after)):
            if k != target and a != b:
                problems.append(Problem("frame", "step %d (%s): record %d changed although the operation works on %s" % (
                    si, op[0], k, "record %d" % target if target is not None else "a new record"),
                    dict(type=None, candidate_kind=None, candidate_classes=[], stage="frame"), si))
        if not accepted and after != before:
            problems.append(Problem("unchanged", "step %d (%s) raised %s but changed a record" % (si, op[0], err),
                                    dict(type=None, candidate_kind=None, candidate_classes=[], stage="unchanged"), si))
    term = "case_world gen_facts %s %s %s %s %s" % (
        enc.tables_term(), cbool(case.kw), clist([coq_ftype(t) for t, _ in fields]), clist(coq_ops), clist(coq_exp))
    return term, problems, steps


def _plain_repr(v):
    try:
        return repr(list(v)) if isinstance(v, list) else repr(v)
    except Exception:  # noqa
        return "<%s>" % type(v).__name__


def world_cases(world, typenames, rnd=None, nrandom=0):
    """fixed histories for every list type and digest (normal and keyword-named descriptor): a record built without a
    value, its default mutated in place, then further records built without a value / by _replace of a record whose
    field is None / decoded from a stream whose field is None -- each must hold a fresh default"""
    out = []
    targets = [tn + "[]" for tn in typenames] + ["digest"]
    for tn in targets:
        if tn == "digest":
            mut1 = ("md5", MD5)
            mut2 = ("md5", "0" * 32)
            valid = ("digest", "tuple_md5")
        else:
            raw = "raw-text" if base_of(tn) not in ("string", "wstring", "uri") else 70000
            mut1 = ("append", raw)
            mut2 = ("iadd", 5.5)
            good = [c for c in world.table(tn) if c.expect == "accept" and c.kind.startswith("list1:")]
            valid = (tn, good[0].kind) if good else None
        for kw in (False, True):
            ops = [("new", {})]
            if kw and valid:
                ops.append(("wset", 0, 0, valid))          # keyword-named descriptors have no defaults: give A a value
            ops += [("mutate", 0, 0) + mut1, ("new", {}), ("mutate", 1, 0) + mut2, ("wset", 1, 0, None), ("replace_new", 1, {}),
                    ("decode_none", 1), ("mutate", 3, 0) + mut1, ("new", {}), ("mutate", 0, 0) + mut2, ("new", {})]
            out.append(WorldCase([tn], kw, ops, "world"))
    # two list fields and a digest side by side
    for kw in (False, True):
        ops = [("new", {}), ("mutate", 0, 0, "append", "x"), ("mutate", 0, 2, "append", 70000), ("mutate", 0, 1, "md5", MD5),
               ("new", {}), ("new", {0: ("string[]", "list1:str_text")}), ("mutate", 2, 2, "iadd", "y"), ("new", {}),
               ("wset", 3, 2, None), ("replace_new", 3, {0: ("string[]", "list1:str_text")})]
        out.append(WorldCase(["string[]", "digest", "uint16[]"], kw, ops, "world"))
    if rnd is not None:
        lists = [tn + "[]" for tn in typenames if tn not in ("record",)]
        for _ in range(nrandom):
            types = [rnd.choice(lists + ["digest"]) for _ in range(rnd.randrange(1, 4))]
            kw = rnd.random() < 0.3
            ops = [("new", {})]
            nrec = 1
            handed_on = set()
            for _ in range(rnd.randrange(3, 9)):
                x = rnd.random()
                j = rnd.randrange(nrec)
                idx = rnd.randrange(len(types))
                tn = types[idx]
                if x < 0.4 and j not in handed_on:
                    if tn == "digest":
                        ops.append(("mutate", j, idx, "md5", rnd.choice([MD5, "0" * 32, "ff" * 16])))
                    else:
                        ops.append(("mutate", j, idx, rnd.choice(["append", "iadd"]), rnd.choice(["raw", 70000, 5.5, -1, b"b"])))
                elif x < 0.75:
                    good = [c for c in world.table(tn) if c.expect == "accept" and not c.kind.startswith(("listobj_", "list_instance"))
                            and "foreign" not in c.kind and "instance" not in c.kind and "mixed" not in c.kind]
                    ids = {idx: (tn, rnd.choice(good).kind)} if good and rnd.random() < 0.4 else {}
                    ops.append(("new", ids))
                    nrec += 1
                else:
                    ops.append(("wset", j, idx, None))
            out.append(WorldCase(types, kw, ops, "world-random"))
    return out


def _short(v):
    s = repr(v)
    return s if len(s) <= 60 else s[:57] + "..."


def serialise_check(r, fields, slot_cand, si):
    problems = []
    try:
        data, lines = serialise(r)
    except Exception as e:  # noqa
        what = "a record that accepted all its assignments cannot be serialised: %s: %s" % (type(e).__name__, str(e)[:80])
        # which slot?  unset the slots that hold text with a lone surrogate; what still fails is something else
        lone = [(idx, tn, c) for idx, (tn, c) in slot_cand.items() if c is not None and "text_lone_surrogate" in c.classes]
        rest_fails = True
        if lone:
            try:
                serialise(r._replace(**{fields[idx][1]: None for idx, _, _ in lone}))
                rest_fails = False
            except Exception:  # noqa
                pass
        if rest_fails:
            problems.append(Problem("serialise", what, dict(type=None, candidate_kind=None, candidate_classes=[], stage="serialise"), si))
        else:
            for idx, tn, c in lone:
                problems.append(Problem("serialise", what + " (%s field holds %r)" % (tn, _short(c.value)), cand_info(tn, c, "serialise"), si))
        return problems
    for what, dec in (("record stream", lambda: decode_stream(data)), ("JSON", lambda: decode_json(lines))):
        try:
            back = dec()
        except Exception:
            continue            # whether everything can be read back is C01 / C14; here: what IS decoded is well typed
        for b in back:
            if b._desc.name != r._desc.name:
                continue
            for idx, why in record_problems(b, fields):
                tn, c = slot_cand.get(idx, (fields[idx][0], None))
                problems.append(Problem("typing", "decoded from %s: %s" % (what, why), cand_info(tn, c, "typing"), si))
    return problems


def single_cases(world, typenames, kws=(False, True), quick=False):
    """quick tier: the keyword-named variant for every second candidate only, and for the list forms of alias names
    (same class or unchanged subclass of another name) the candidates that are about class identity"""
    out = []
    for tn in typenames:
        forms = [tn, tn + "[]"]
        for form in forms:
            for ci, c in enumerate(world.table(form)):
                ref = (form, c.kind)
                if quick and tn in ALIASES and form.endswith("[]") and not (
                        c.kind.startswith(("listobj_", "list1:foreign_", "list1:instance", "list_", "tuple_")) or ci % 4 == 0):
                    continue
                for kw in (kws if tn not in ALIASES else (False,)):
                    if quick and kw and ci % 2:
                        continue
                    ops = [("construct", {}), ("set", 0, ref), ("construct", {0: ref}), ("replace", {0: ref}), ("gset", 0, ref)]
                    if c.kind.split(":")[-1].startswith(("foreign_", "listobj_")) and ":" not in c.kind:
                        ops.append(("init_from", {0: ref}))      # Target.init_from_record(source record)
                    ops += [("gset", 0, None) if kw else ("set", 0, None)]
                    out.append(Case([form], kw, ops, "table"))
    return out


def name_collisions(typenames):
    """pairs of DIFFERENT whitelist names whose classes carry the same __name__ (case-insensitively): port / port,
    ipaddress / IPAddress, ... -- the names a cache keyed by the class name would confuse"""
    from flow.record.base import fieldtype
    groups = {}
    with warnings.catch_warnings():
        warnings.simplefilter("ignore")
        for tn in typenames:
            groups.setdefault(fieldtype(tn).__name__.lower(), []).append(tn)
    pairs = []
    for names in groups.values():
        for a in names:
            for b in names:
                if a != b:
                    pairs.append((a, b))
    return pairs


def pair_cases(world, typenames):
    """descriptors that use the list forms of two colliding names side by side, in both orders; each list is
    constructed, assigned, replaced, assigned through a group, and given the OTHER field's list object"""
    out = []
    for a, b in name_collisions(typenames):
        fa, fb = a + "[]", b + "[]"
        ta, tb = world.table(fa), world.table(fb)
        va = [c for c in ta if c.expect == "accept" and c.kind.startswith(("list1:", "tuple_valid"))][:2]
        vb = [c for c in tb if c.expect == "accept" and c.kind.startswith(("list1:", "tuple_valid"))][:2]
        xa = [c for c in ta if c.kind.startswith("listobj_") and c.expect == "accept"][:3]
        xb = [c for c in tb if c.kind.startswith("listobj_") and c.expect == "accept"][:3]
        if not va or not vb:
            continue
        for kw in (False, True):
            ops = [("construct", {0: (fa, va[0].kind), 1: (fb, vb[0].kind)}), ("set", 1, (fb, vb[-1].kind)), ("set", 0, (fa, va[-1].kind)),
                   ("replace", {0: (fa, va[0].kind), 1: (fb, vb[0].kind)}), ("gset", 1, (fb, vb[-1].kind))]
            for c in xb:
                ops.append(("set", 1, (fb, c.kind)))
            for c in xa:
                ops.append(("gset", 0, (fa, c.kind)))
            out.append(Case([fa, fb], kw, ops, "pair"))
    return out


SCENARIO = r"""
import json, sys, warnings, io
warnings.simplefilter("ignore")
order = sys.argv[1]
from flow.record.whitelist import WHITELIST
from flow.record.base import fieldtype
from flow.record import RecordDescriptor, RecordPacker
names = list(WHITELIST)
if order == "reverse":
    names.reverse()
problems = []
lists = {}
for n in names:                       # resolve every list type first, in the given order
    try:
        lists[n] = fieldtype(n + "[]")
    except Exception as e:
        problems.append(dict(type=n, what="fieldtype(%r) raised %s" % (n + "[]", type(e).__name__)))
table = {}
for n in names:
    ok = n in lists and lists[n].__type__ is fieldtype(n)
    table[n] = bool(ok)
    if n in lists and not ok:
        problems.append(dict(type=n, what="fieldtype(%r).__type__ is %s.%s, declared element class %s.%s" % (
            n + "[]", lists[n].__type__.__module__, lists[n].__type__.__name__, fieldtype(n).__module__, fieldtype(n).__name__)))
# values through records: construct / assign / _replace / msgpack round trip
VALUES = {"uint16": [22, 80], "uint32": [1], "net.tcp.Port": [22, 80], "net.udp.Port": [53], "string": ["a"], "wstring": ["w"],
          "varint": [1], "filesize": [1024], "unix_file_mode": [420], "net.ipaddress": ["10.0.0.1"], "net.IPAddress": ["::1"],
          "net.ipnetwork": ["10.0.0.0/8"], "net.IPNetwork": ["::/0"], "boolean": [True], "float": [1.5], "bytes": [b"x"],
          "uri": ["http://h/p"], "path": ["/x"], "command": ["ls -l"], "digest": [("d41d8cd98f00b204e9800998ecf8427e", None, None)],
          "datetime": ["2020-01-02T03:04:05+00:00"]}
covered = [n for n in names if n in VALUES]
desc = RecordDescriptor("c05/alltypes", [(n + "[]", "f%d" % i) for i, n in enumerate(covered)])
packer = RecordPacker()
def check(stage, rec):
    for i, n in enumerate(covered):
        v = getattr(rec, "f%d" % i)
        cls = fieldtype(n)
        if type(v) is not fieldtype(n + "[]"):
            problems.append(dict(type=n, stage=stage, what="%s: %s[] field holds a %s" % (stage, n, type(v).__name__)))
        for e in v or []:
            if not isinstance(e, cls):
                problems.append(dict(type=n, stage=stage, value=repr(VALUES[n]), what="%s: element %r of the %s[] field is a %s.%s, not a %s.%s" % (
                    stage, e, n, type(e).__module__, type(e).__name__, cls.__module__, cls.__name__)))
try:
    r = desc.recordType(**{"f%d" % i: VALUES[n] for i, n in enumerate(covered)})
    check("construct", r)
    for i, n in enumerate(covered):
        setattr(r, "f%d" % i, list(VALUES[n]))
    check("assign", r)
    check("_replace", r._replace(**{"f%d" % i: tuple(VALUES[n]) for i, n in enumerate(covered)}))
    check("msgpack decode", packer.unpack(packer.pack(r)))
except Exception as e:
    problems.append(dict(type=None, what="scenario raised %s: %s" % (type(e).__name__, e)))
print("@@" + json.dumps(dict(order=order, table=table, problems=problems)))
"""


def list_class_scenario(order):
    """fresh interpreter that imports only flow.record: resolve every whitelisted list type in the given order, then
    check by class identity that T[] converts to the class of T, through construct / assign / _replace / decode"""
    import json
    import sys
    rc, out = core.sh([sys.executable, "-c", SCENARIO, order], env=core.env_for_repo(), timeout=120, cwd=str(core.VERIF))
    for ln in out.splitlines():
        if ln.startswith("@@"):
            return json.loads(ln[2:])
    return dict(order=order, table={}, problems=[dict(type=None, what="scenario process failed (rc=%s): %s" % (rc, out[-400:]))])


def scenario_stage(ctx):
    """returns True when a violation was reported"""
    for order in ("forward", "reverse"):
        res = list_class_scenario(order)
        ctx.count_case(("list-class-scenario", order), nontrivial=True)
        ctx.coverage["evaluations"] += max(0, len(res.get("table", {})) - 1)
        if res["problems"]:
            staged = [p for p in res["problems"] if p.get("stage")]
            p0 = res["problems"][0]
            what = p0["what"] + ("; e.g. %s with value %s" % (staged[0]["what"], staged[0].get("value")) if staged else "")
            ctx.violation("typed list classes, %s resolution order in a fresh process: %s" % (order, what),
                          dict(kind="listclass", order=order, problems=res["problems"][:10], table=res.get("table")))
            return True
    ctx.notes.append("list-class scenario in fresh interpreters (forward and reverse resolution order): %d whitelist entries" % len(res["table"]))
    return False


def random_cases(world, typenames, rnd, n):
    out = []
    forms = []
    for tn in typenames:
        forms.append(tn)
        forms.append(tn + "[]")
    for k in range(n):
        types = [rnd.choice(forms) for _ in range(rnd.randrange(1, 5))]
        kw = rnd.random() < 0.4
        nres = len(types) + 2       # _source / _classification are assignable too
        ops = [("construct", {})]
        for _ in range(rnd.randrange(2, 8)):
            def pick(idx):
                tn = (types + ["string", "string"])[idx]
                tbl = world.table(tn)
                if rnd.random() < 0.55:
                    good = [c for c in tbl if c.expect == "accept"]
                    if good:
                        return (tn, rnd.choice(good).kind)
                return (tn, rnd.choice(tbl).kind)
            x = rnd.random()
            idx = rnd.randrange(nres)
            if x < 0.33:
                ops.append(("set", idx, pick(idx)))
            elif x < 0.45:
                ops.append(("gset", idx, pick(idx) if rnd.random() < 0.9 else None))
            elif x < 0.52:
                ops.append(("set", idx, None))
            elif x < 0.70:
                ids = rnd.sample(range(len(types)), rnd.randrange(0, len(types) + 1))
                ops.append(("construct", {i: pick(i) for i in ids}))
            elif x < 0.92:
                ids = rnd.sample(range(nres), rnd.randrange(1, min(3, nres) + 1))
                ops.append(("replace", {i: (pick(i) if rnd.random() < 0.9 else None) for i in ids}))
            elif x < 0.96:
                ops.append(("set_unknown", pick(0)))
            else:
                ops.append(("replace_unknown", pick(0)))
        out.append(Case(types, kw, ops, "random"))
    return out


HEADER = """From Coq Require Import List Bool ZArith NArith String.
Import ListNotations.
From FR Require Import Bytes Coerce CoerceObs Gen_coerce.
Open Scope Z_scope.
Definition T0 : wall := Wall 2023 5 6 7 8 9 123456.
Definition ARGS0 : list pv := [PNone; PNone; PDatetime T0 (Some 0); PInt 1].
Definition RES : list sval := [SNone; SNone; SDt T0 (Some 0); SInt 1].
"""
RES0 = ["SNone", "SNone", "(SDt (Wall 2023 5 6 7 8 9 123456) (Some 0))", "(SInt 1)"]


def evaluate(ctx, world, cases, kf, coq=True):
    """run every case on the implementation (+ the model in Coq); report findings / the first violation"""
    terms, metas = [], []
    reported = False
    nprob = 0
    for case in cases:
        if isinstance(case, WorldCase):
            term, problems, steps = execute_world(world, case)
            for si, st in enumerate(steps):
                ctx.count_case((tuple(case.types), case.kw, "world", si, repr(case.ops[si]), st["outcome"]), nontrivial=True)
            steps_iter = []
        else:
            term, problems, steps = execute(world, case)
            steps_iter = steps
        for si, st in enumerate(steps_iter):
            op = case.ops[si]
            refs = []
            if op[0] in ("set", "gset", "set_unknown", "replace_unknown"):
                refs = [op[-1]]
            elif op[0] in ("construct", "replace", "init_from"):
                refs = list(op[1].values())
            ctx.count_case((tuple(case.types), case.kw, si, op[0], tuple(map(repr, refs)), st["outcome"] == "accepted"),
                           nontrivial=bool(refs))
        for p in problems:
            nprob += 1
            f = finding_for(kf, p.info)
            if f:
                ctx.known_finding(f["id"], f["what"])
            elif not reported:
                reported = True
                ctx.violation(p.what, dict(case.to_json(), stage=p.stage, info=p.info, step=p.step, steps=steps))
        if term is not None:
            terms.append(term)
            metas.append((case, steps))
    if not coq or reported:
        return reported, terms, metas
    failing, err = core.eval_bool_cases(ctx, HEADER, terms, shard_size=120, name="c05")
    if err:
        ctx.violation("correspondence shards did not evaluate: " + err[:300], dict(kind="coq-eval", log=err), no_input=True)
        return True, terms, metas
    ctx.coverage["traces_validated_against_impl"] = len(terms) - len(failing)
    if failing:
        case, steps = metas[failing[0]]
        detail = explain(ctx, terms[failing[0]])
        ctx.violation(
            "model/Coerce.v and the implementation disagree on %d of %d operation sequences; first: types %s kw=%s ops %s -> "
            "implementation %s; the implementation-level checks of the property passed on it" % (
                len(failing), len(terms), case.types, case.kw, _short(case.ops), [s["outcome"] for s in steps]),
            dict(case.to_json(), stage="correspondence", steps=steps, model=detail,
                 failing=[metas[i][0].to_json() for i in failing[:10]]), no_input=True)
        return True, terms, metas
    return False, terms, metas


def explain(ctx, term):
    """the model's own run of a disagreeing case (for the replay file)"""
    t = term.replace("case_ops gen_facts", "model_run gen_facts", 1).replace("case_world gen_facts", "model_world gen_facts", 1)
    # drop the last argument (the observations)
    depth = 0
    cut = None
    for i in range(len(t) - 1, -1, -1):
        ch = t[i]
        if ch == "]":
            depth += 1
        elif ch == "[":
            depth -= 1
            if depth == 0:
                cut = i
                break
    v = ctx.work / "explain.v"
    v.write_text(HEADER + "Eval vm_compute in (%s).\n" % t[:cut])
    rc, out = core.coqc_file(v, timeout=120)
    return out[-3000:]


def sweep_one(name, z):
    """(accepted, consistent) of <type>(z) for an integer z"""
    from flow.record import fieldtypes as ft
    cls = getattr(ft, name)
    try:
        v = cls(z)
    except (ValueError, OverflowError, TypeError):
        return False, True
    if name == "boolean":
        return True, type(v.value) is bool and int(v) == z == int(v.value)
    return True, type(v.value) is int and int(v) == z == v.value


def range_sweep(ctx, report=True):
    """the whole uint16 range (and a margin), +-1000 around both uint32 limits and every power of two, -1000..1000
    for boolean: accepted exactly inside the range, stored unchanged.  Returns True when a violation was reported."""
    plans = [
        ("uint16", 0xFFFF, range(-70000, 140000)),
        ("uint32", 0xFFFFFFFF, list(range(-1000, 1000)) + list(range(0xFFFFFFFF - 1000, 0xFFFFFFFF + 1000))
         + [s * (2 ** k) + d for k in range(8, 70) for d in (-1, 0, 1) for s in (1, -1)]),
        ("boolean", 1, range(-1000, 1001)),
    ]
    for name, m, zs in plans:
        n = 0
        for z in zs:
            acc, cons = sweep_one(name, z)
            n += 1
            want = 0 <= z <= m
            if acc != want or not cons:
                if report:
                    ctx.violation("%s(%d) is %s%s; the type represents exactly 0..%d" % (
                        name, z, "accepted" if acc else "rejected", "" if cons else " and stored inconsistently", m),
                        dict(kind="sweep", type=name, value=z, want=want))
                return True
        ctx.count_case(("sweep", name, n), nontrivial=True)
        ctx.coverage["evaluations"] += n - 1
        ctx.notes.append("range sweep %s: %d integers" % (name, n))
    return False


def search(ctx, reason):
    """The proof / translator broke: look for a concrete failing input on the implementation."""
    kf = core.known_for("C05")
    try:
        if range_sweep(ctx):
            return True
        if scenario_stage(ctx):
            return True
        world = World()
        names = all_typenames()
        # the repaired defects first (fixed: e636926, f4497f4, b7afec5), then everything else
        probes = [Case([tn], False, [("construct", {}), ("set", 0, (tn, kind))], "former-finding")
                  for tn, kind in (("boolean", "float_fraction_in_0_1"), ("uint16", "float_fraction"), ("uint32", "float_fraction"),
                                   ("digest", "str_hex"))]
        cases = (probes + world_cases(world, names) + pair_cases(world, names) + single_cases(world, names)
                 + random_cases(world, names, random.Random(ctx.seed), 150))
        for case in cases:
            term, problems, steps = (execute_world if isinstance(case, WorldCase) else execute)(world, case)
            for p in problems:
                if not finding_for(kf, p.info):
                    ctx.violation("%s; failing input: %s" % (reason, p.what),
                                  dict(case.to_json(), stage=p.stage, info=p.info, step=p.step, steps=steps, reason=reason))
                    return True
    except Exception:  # noqa
        return False
    return False


def run(ctx):
    kf = core.known_for("C05")
    ctx.coverage["rule"] = (
        "for every whitelisted field type (scalar and T[]; deprecated net.ipv4.* excluded) a candidate table (valid, boundary, "
        "boundary+-1, every wrong kind: bool/int/float classes/str/bytes/list/tuple/dict/object/bytearray/datetime/path, instances "
        "of the type; T[]: one-element and three-element lists of every element candidate, tuples, non-iterables, text, dicts) "
        "run through construct / setattr / construct-with-value / _replace / setattr(None) on a normal and on a keyword-named "
        "descriptor, plus seeded random operation sequences (length <= 8, 1-4 fields, construct / assign / failed assign / "
        "_replace / unknown attribute); distinct = distinct (descriptor types, variant, position in history, operation, "
        "candidate kinds, outcome); a step is non-trivial when it carries a candidate value")
    ok = core.standard_proof_stage(ctx, ["props/C05.vo", "model/CoerceObs.vo"], "C05", THEOREMS, search_fn=search,
                                   gens=["gen_coerce"])
    ctx.assumptions += [
        "runtime / standard-library behaviour the constructors delegate to enters the model as `env` (str(), int(), float() of "
        "foreign kinds, ipaddress.ip_address / ip_network, datetime.fromisoformat / fromtimestamp, urllib.parse.urlparse, pathlib "
        "normalisation, shlex splitting, iteration of str/bytes); the theorems hold for every env (with the stated hypothesis that "
        "ip_address answers an address in range); the correspondence instantiates it with the real answers for each case",
        "hand-written in the model, validated by the correspondence only: int()'s truncation of floats, comparison of floats with "
        "integers (through floor/integral supplied by the harness), ip_address's family-by-magnitude rule for integers and packed "
        "bytes, binascii.a2b_hex on ASCII hex text, the generated __init__ (defaults for T[] and digest; the setattr loop of "
        "keyword-named descriptors has none) and Record._replace",
        "candidates that are instances of a field-type class are generated only for the slot's own class or a subclass",
        "uint16(True) / uint16(5.0) are accepted and stored as the integers 1 / 5 (conversion on the way in)",
        "net.ipv4.Address / net.ipv4.Subnet (deprecated, outside the anchored files) are not covered",
    ]
    if not ok:
        return
    if ctx.tier == "thorough":
        # independent checker on the property module and everything it depends on
        with core.Lock(core.COQ / ".lock"):
            rc, out = core.sh(["coqchk", "-silent", "-o", "-R", ".", "FR", "props/C05.vo"], cwd=str(core.COQ), timeout=1500)
        ctx.coverage["trusted_base"].append("coqchk -silent -o props/C05.vo (rc=%d): %s" % (rc, " ".join(out.split())[-420:]))
        if rc != 0 or "Axioms: <none>" not in out:
            ctx.violation("coqchk does not accept props/C05.vo or reports axioms", dict(kind="coqchk", log=out[-3000:]), no_input=True)
            return
    world = World()
    names = all_typenames()
    rnd = random.Random(ctx.seed)
    quick = ctx.tier == "quick"
    cases = (world_cases(world, names, rnd, 60 if quick else 1500) + pair_cases(world, names) + single_cases(world, names, quick=quick)
             + random_cases(world, names, rnd, 250 if quick else 12000))
    reported, terms, metas = evaluate(ctx, world, cases, kf)
    if not reported:
        reported = range_sweep(ctx)
    if not reported:
        scenario_stage(ctx)
    ctx.coverage["exhaustive"] = False
    ctx.notes.append("%d operation sequences (%d from the candidate tables, %d random), %d types incl. list forms" % (
        len(cases), sum(1 for c in cases if c.label == "table"), sum(1 for c in cases if c.label == "random"),
        len({t for c in cases for t in c.types})))
    for case, steps in metas[:: max(1, len(metas) // 6)]:
        ctx.sample(dict(types=case.types, kw=case.kw, ops=[list(map(str, o)) for o in case.ops], outcomes=[s["outcome"] for s in steps]))


def replay(obj):
    if obj.get("kind") == "sweep":
        acc, cons = sweep_one(obj["type"], obj["value"])
        print("replay %s(%d): %s, consistent=%s (expected %s)" % (obj["type"], obj["value"], "accepted" if acc else "rejected",
                                                                   cons, "accepted" if obj["want"] else "rejected"))
        return 0 if (acc == obj["want"] and cons) else 1
    if obj.get("kind") == "listclass":
        res = list_class_scenario(obj["order"])
        for p in res["problems"][:10]:
            print("  PROBLEM:", p["what"])
        print("replay list-class scenario (%s order): %d problems" % (obj["order"], len(res["problems"])))
        return 1 if res["problems"] else 0
    if obj.get("kind") == "world":
        world = World()
        ops = []
        for op in obj["ops"]:
            op = list(op)
            if op[0] == "new":
                op[1] = {int(k): tuple(v) for k, v in op[1].items()}
            elif op[0] == "wset":
                op[3] = tuple(op[3]) if op[3] is not None else None
            elif op[0] == "replace_new":
                op[2] = {int(k): (tuple(v) if v is not None else None) for k, v in op[2].items()}
            ops.append(tuple(op))
        case = WorldCase(obj["types"], obj["kw"], ops, obj.get("label", "replay"))
        term, problems, steps = execute_world(world, case)
        print("replay world history types=%s kw=%s" % (case.types, case.kw))
        for o, st in zip(case.ops, steps):
            print("  %s -> %s" % (_short(o), st["outcome"]))
        for p in problems:
            print("  PROBLEM (%s): %s" % (p.stage, p.what))
        return 1 if problems else 0
    if obj.get("kind") != "ops":
        print("replay of kind %s: re-run ./check C05" % obj.get("kind"))
        return 2
    world = World()
    ops = []
    for op in obj["ops"]:
        op = list(op)
        if op[0] in ("construct", "replace", "init_from"):
            op[1] = {int(k): (tuple(v) if v is not None else None) for k, v in op[1].items()}
        elif op[0] in ("set", "gset"):
            op[2] = tuple(op[2]) if op[2] is not None else None
        else:
            op[1] = tuple(op[1])
        ops.append(tuple(op))
    case = Case(obj["types"], obj["kw"], ops, obj.get("label", "replay"))
    kf = core.known_for("C05")
    term, problems, steps = execute(world, case)
    print("replay types=%s kw=%s" % (case.types, case.kw))
    for o, s in zip(case.ops, steps):
        print("  %s -> %s" % (_short(o), s["outcome"]))
    bad = [p for p in problems if not finding_for(kf, p.info)]
    for p in bad:
        print("  PROBLEM (%s): %s" % (p.stage, p.what))
    return 1 if bad else 0
