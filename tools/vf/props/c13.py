"""C13 -- timestamps are timezone-aware and keep their instant everywhere.

proof:   coq/props/C13.v  (theorems about model/IsoTime.v instantiated with the GENERATED facts of gen/Gen_time.v)
tie:     (T) gen/Gen_time.v regenerated from packer.py / jsonpacker.py / adapter/{avro,sqlite}.py / fieldtypes each run
         (C) every generated timestamp is pushed through the implementation (field type, four storage formats) and
             through the model inside Coq; wall clock + utcoffset are compared, never Python `==` between zones.
         Display setting: one subprocess per FLOW_RECORD_TZ / TZ setting, everything but str() must be identical.
"""
from __future__ import annotations

import datetime as _pydt
import hashlib
import json
import os
import random
import re
import subprocess
import sys
from pathlib import Path

from vf import core
from vf.coqlit import cstr

THEOREMS = [
    "C13_generated_pack_rule_safe", "C13_generated_new", "C13_generated_text_formats", "C13_generated_avro",
    "C13_generated_class_defines", "C13_parse_print_digits", "C13_iso_roundtrip", "C13_iso_roundtrip_partial",
    "C13_iso_roundtrip_refuted", "C13_iso_roundtrip_space",
    "C13_iso_parse_valid", "C13_always_aware", "C13_naive_means_utc", "C13_object_input_keeps_offset",
    "C13_refuted_if_fold_dropped", "C13_text_input", "C13_text_input_partial", "C13_epoch_input", "C13_coercion_keeps_instant",
    "C13_tuple_roundtrip", "C13_tuple_roundtrip_naive", "C13_stream_json_sqlite_keep_offset",
    "C13_stream_json_sqlite_keep_offset_partial", "C13_stream_json_sqlite_refuted",
    "C13_civil_days_inverse", "C13_micros_roundtrip", "C13_micros_roundtrip_inverse", "C13_avro_keeps_instant",
    "C13_avro_guard_branch", "C13_avro_utc_unchanged", "C13_avro_out_of_range_refused",
    "C13_display_setting_irrelevant", "C13_generated_sqlite_columns", "C13_sqlite_created_and_added_column_partial",
    "C13_sqlite_text_column_refuted", "C13_every_route_coerces", "C13_route_without_constructor_refuted",
    "C13_fieldwise_construction_aware", "C13_replace_tzinfo_none", "C13_replace_tzinfo_none_refuted",
]

UTC = _pydt.timezone.utc
EPOCH = _pydt.datetime(1970, 1, 1, tzinfo=UTC)
US = _pydt.timedelta(microseconds=1)
DAY_US = 86400 * 10 ** 6
MIN_MICROS = -62135596800 * 10 ** 6
MAX_MICROS = 253402300799 * 10 ** 6 + 999999
FORMATS = ["records", "jsonl", "sqlite", "avro"]
ZONES = ["Europe/Amsterdam", "America/New_York", "Australia/Lord_Howe", "Asia/Kathmandu", "Europe/London",
         "America/St_Johns", "Pacific/Apia", "Africa/Casablanca", "America/Caracas", "Asia/Tehran"]
SETTINGS = [
    {}, {"FLOW_RECORD_TZ": "NONE"}, {"FLOW_RECORD_TZ": "Europe/Amsterdam"}, {"FLOW_RECORD_TZ": "America/New_York"},
    {"TZ": "America/New_York"}, {"TZ": "Asia/Kathmandu", "FLOW_RECORD_TZ": "Australia/Lord_Howe"}, {"TZ": "Asia/Kolkata"},
]
SMOKE_ENVS = [{}, {"TZ": "Asia/Kolkata"}]
FORMS_ENVS = [{"TZ": "America/New_York"}]
G_WALL = (2020, 1, 1, 0, 0, 0, 0)
# the ISO texts model/IsoTime.v parses (what isoformat() prints, ' ' separator and 'Z' included)
MODEL_TEXT = re.compile(r"^\d{4}-\d\d-\d\d[T ]\d\d:\d\d:\d\d(\.\d{6})?(Z|[+-]\d\d:\d\d(:\d\d(\.\d{6})?)?)?$")


# ------------------------------------------------------------------------------------------ observation

def obs(d):
    """(wall clock fields, utcoffset in microseconds or None)"""
    off = d.utcoffset()
    return (d.year, d.month, d.day, d.hour, d.minute, d.second, d.microsecond, None if off is None else off // US)


def obs_any(v):
    """observation of whatever a timestamp field holds"""
    if isinstance(v, _pydt.datetime):
        return obs(v)
    return ("EXC", "holds %s %r" % (type(v).__name__, v))


def micros_of(o):
    """instant of an observation by integer arithmetic (naive = UTC)"""
    y, mo, d, h, mi, s, us, off = o
    days = _pydt.date(y, mo, d).toordinal() - 719163
    return ((days * 24 + h) * 60 + mi) * 60 * 10 ** 6 + s * 10 ** 6 + us - (off or 0)


def own_iso(wall, off, sep="T", zulu=False):
    """ISO text of (wall, offset) written without the datetime module"""
    y, mo, d, h, mi, s, us = wall
    t = "%04d-%02d-%02d%s%02d:%02d:%02d" % (y, mo, d, sep, h, mi, s)
    if us:
        t += ".%06d" % us
    if off is None:
        return t
    if zulu and off == 0:
        return t + "Z"
    a = abs(off)
    t += "%s%02d:%02d" % ("-" if off < 0 else "+", a // (3600 * 10 ** 6), a // (60 * 10 ** 6) % 60)
    sec, frac = a // 10 ** 6 % 60, a % 10 ** 6
    if sec or frac:
        t += ":%02d" % sec
        if frac:
            t += ".%06d" % frac
    return t


# ------------------------------------------------------------------------------------------ input specs (JSON-able)

def make_tz(tz):
    from zoneinfo import ZoneInfo
    k = tz["kind"]
    if k == "naive":
        return None
    if k == "utc":
        return UTC
    if k == "fixed":
        return _pydt.timezone(_pydt.timedelta(microseconds=tz["off_us"]))
    return ZoneInfo(tz["zone"])          # "zone"


def build_object(spec):
    w = spec["wall"]
    return _pydt.datetime(*w, tzinfo=make_tz(spec["tz"]), fold=spec["tz"].get("fold", 0))


def build_input(spec):
    f = spec["form"]
    if f in ("object", "fieldobject"):
        return build_object(spec)
    if f == "text":
        return spec["text"]
    if f == "isotext":
        return spec["text"].encode() if spec.get("bytes") else spec["text"]
    if f == "epoch_int":
        return spec["num"]
    if f == "epoch_float":
        return spec["num"][0] + spec["num"][1] / 64.0
    raise ValueError(f)


def expected_obs(spec):
    """what the field value must be: same wall clock, same offset; naive means UTC"""
    f = spec["form"]
    if f in ("object", "fieldobject"):
        o = obs(build_object(spec))
        return o[:7] + (0 if o[7] is None else o[7],)
    if f == "text":
        return tuple(spec["wall"]) + (0 if spec["off"] is None else spec["off"],)
    if f == "isotext":
        # any spelling the standard reader knows: it means what datetime.fromisoformat says (naive => UTC);
        # None = not ISO text, must be refused
        from vf.factgen import c13 as fg
        return fg.iso_reference(spec["text"])
    n = spec["num"] * 10 ** 6 if f == "epoch_int" else spec["num"][0] * 10 ** 6 + spec["num"][1] * 15625
    return obs(EPOCH + _pydt.timedelta(microseconds=n))


def epoch_micros(spec):
    return spec["num"] * 10 ** 6 if spec["form"] == "epoch_int" else spec["num"][0] * 10 ** 6 + spec["num"][1] * 15625


def find_transitions(zone, year):
    """UTC transition instants of `zone` in `year`: [(T, offset_before, offset_after)] (zoneinfo as oracle)."""
    from zoneinfo import ZoneInfo
    z = ZoneInfo(zone)
    out = []
    t = _pydt.datetime(year, 1, 1, tzinfo=UTC)
    end = _pydt.datetime(year, 12, 31, tzinfo=UTC)
    prev = t.astimezone(z).utcoffset()
    while t < end:
        n = t + _pydt.timedelta(days=1)
        cur = n.astimezone(z).utcoffset()
        if cur != prev:
            lo, hi = t, n
            while hi - lo > _pydt.timedelta(seconds=1):
                mid = lo + (hi - lo) // 2
                mid = mid.replace(microsecond=0)
                if mid <= lo:
                    break
                if mid.astimezone(z).utcoffset() == prev:
                    lo = mid
                else:
                    hi = mid
            out.append((hi, prev, cur))
        prev, t = cur, n
    return out


def fold_gap_walls(zone, year):
    """[(wall tuple, 'fold'|'gap')]: wall times that occur twice / never in the zone"""
    res = []
    for T, before, after in find_transitions(zone, year):
        naive = T.replace(tzinfo=None)
        lo, hi = (naive + after, naive + before) if after < before else (naive + before, naive + after)
        kind = "fold" if after < before else "gap"
        for w in (lo, lo + (hi - lo) // 2, hi - US):
            res.append(((w.year, w.month, w.day, w.hour, w.minute, w.second, w.microsecond), kind))
    return res


BOUNDARY_WALLS = [
    (1, 1, 1, 0, 0, 0, 0), (1, 1, 1, 0, 0, 0, 1), (1, 12, 31, 23, 59, 59, 999999), (9999, 12, 31, 23, 59, 59, 999999),
    (9999, 1, 1, 0, 0, 0, 0), (9999, 12, 31, 0, 0, 0, 0), (1969, 12, 31, 23, 59, 59, 999999), (1970, 1, 1, 0, 0, 0, 0),
    (1970, 1, 1, 0, 0, 0, 1), (1969, 12, 31, 0, 0, 0, 0), (1970, 1, 1, 1, 11, 34, 967295), (1970, 1, 1, 1, 11, 34, 967296),
    (2000, 2, 29, 12, 0, 0, 1), (1900, 2, 28, 23, 59, 59, 999999), (1900, 3, 1, 0, 0, 0, 0), (2400, 2, 29, 0, 0, 0, 0),
    (2024, 2, 29, 23, 59, 59, 999999), (2100, 2, 28, 23, 59, 59, 0), (4, 2, 29, 0, 0, 0, 0), (100, 3, 1, 0, 0, 0, 0),
    (400, 2, 29, 23, 59, 59, 999999), (2038, 1, 19, 3, 14, 7, 0), (2038, 1, 19, 3, 14, 8, 0), (2106, 2, 7, 6, 28, 16, 0),
    (1582, 10, 10, 0, 0, 0, 0), (2021, 6, 15, 12, 30, 45, 123456), (1999, 12, 31, 23, 59, 59, 0), (2021, 1, 1, 0, 0, 0, 100000),
]
FIXED_OFFSETS = [
    0, 3600 * 10 ** 6, -3600 * 10 ** 6, 14 * 3600 * 10 ** 6, -12 * 3600 * 10 ** 6, (5 * 60 + 45) * 60 * 10 ** 6,
    -(3 * 60 + 30) * 60 * 10 ** 6, 10 ** 6, -10 ** 6, 1, -1, 1172 * 10 ** 6, -(4 * 3600 + 56 * 60 + 2) * 10 ** 6,
    DAY_US - 1, -(DAY_US - 1), DAY_US - 60 * 10 ** 6, -(DAY_US - 60 * 10 ** 6), 59 * 10 ** 6 + 999999, 60 * 10 ** 6,
    3600 * 10 ** 6 + 500000, -(60 * 10 ** 6 + 1), 999999, -500000,
]


def random_wall(rnd):
    y = rnd.choice([rnd.randint(1, 9999), rnd.randint(1900, 2100), rnd.randint(1, 9999), rnd.choice([1, 2, 9998, 9999, 1969, 1970])])
    mo = rnd.randint(1, 12)
    dim = [31, 29 if (y % 4 == 0 and (y % 100 != 0 or y % 400 == 0)) else 28, 31, 30, 31, 30, 31, 31, 30, 31, 30, 31][mo - 1]
    d = rnd.choice([1, dim, rnd.randint(1, dim)])
    us = rnd.choice([0, 0, 1, 999999, rnd.randint(0, 999999), rnd.randint(0, 999) * 1000])
    return (y, mo, d, rnd.choice([0, 23, rnd.randint(0, 23)]), rnd.choice([0, 59, rnd.randint(0, 59)]),
            rnd.choice([0, 59, rnd.randint(0, 59)]), us)


def random_offset(rnd):
    k = rnd.randint(0, 3)
    if k == 0:
        return rnd.randint(-23 * 60 - 59, 23 * 60 + 59) * 60 * 10 ** 6
    if k == 1:
        return rnd.randint(-86399, 86399) * 10 ** 6
    if k == 2:
        return rnd.randint(-(DAY_US - 1), DAY_US - 1)
    return rnd.choice(FIXED_OFFSETS)


def available_zones():
    from zoneinfo import ZoneInfo
    out = []
    for z in ZONES:
        try:
            ZoneInfo(z)
            out.append(z)
        except Exception:
            pass
    return out


def object_ok(spec):
    """the standard library accepts this input (zone arithmetic can overflow at the ends of the year range)"""
    try:
        d = build_object(spec)
        d.utcoffset()
        d.isoformat()
        return True
    except Exception:
        return False


def gen_specs(seed, tier):
    rnd = random.Random(seed)
    zones = available_zones()
    specs = []

    def add_object(wall, tz):
        s = dict(form="object", wall=list(wall), tz=tz)
        if object_ok(s):
            specs.append(s)
            return s
        return None

    def tz_utc():
        return dict(kind="utc")

    def tz_fixed(off):
        return dict(kind="fixed", off_us=off)

    # boundaries x tz kinds
    for w in BOUNDARY_WALLS:
        add_object(w, tz_utc())
        add_object(w, dict(kind="naive"))
        for off in rnd.sample(FIXED_OFFSETS, 4) + [14 * 3600 * 10 ** 6, -12 * 3600 * 10 ** 6]:
            add_object(w, tz_fixed(off))
        for z in rnd.sample(zones, min(2, len(zones))):
            add_object(w, dict(kind="zone", zone=z, fold=rnd.randint(0, 1)))
    for off in FIXED_OFFSETS:
        add_object((2021, 6, 15, 12, 30, 45, 123456), tz_fixed(off))
        add_object((1969, 12, 31, 23, 59, 59, 999999), tz_fixed(off))
    add_object((2021, 1, 1, 0, 0, 0, 0), dict(kind="zone", zone="UTC", fold=0))
    # folds and gaps: fixed well-known ones first, then random years
    known = [("Europe/Amsterdam", 2021), ("America/New_York", 2021), ("Australia/Lord_Howe", 2021), ("Asia/Kathmandu", 1986),
             ("Europe/London", 1971), ("Pacific/Apia", 2011), ("Europe/Amsterdam", 1937), ("America/New_York", 2500)]
    nyears = 6 if tier == "quick" else 40
    for _ in range(nyears):
        known.append((rnd.choice(zones), rnd.choice([rnd.randint(1900, 2037), rnd.randint(1970, 2037), rnd.randint(2038, 9998)])))
    for z, y in known:
        if z not in zones:
            continue
        for w, kind in fold_gap_walls(z, y):
            for fold in (0, 1):
                s = add_object(w, dict(kind="zone", zone=z, fold=fold))
                if s:
                    s["class"] = kind
    # random
    n = 220 if tier == "quick" else 5000
    for _ in range(n):
        w = random_wall(rnd)
        k = rnd.randint(0, 9)
        if k <= 1:
            add_object(w, tz_utc())
        elif k <= 5:
            add_object(w, tz_fixed(random_offset(rnd)))
        elif k <= 7 and zones:
            add_object(w, dict(kind="zone", zone=rnd.choice(zones), fold=rnd.randint(0, 1)))
        else:
            add_object(w, dict(kind="naive"))
    # the same values in the other input forms
    base = list(specs)
    step = 3 if tier == "quick" else 2
    for i, s in enumerate(base):
        if i % step:
            continue
        o = obs(build_object(s))
        wall, off = list(o[:7]), o[7]
        variants = [own_iso(wall, off)]
        if off == 0:
            variants.append(own_iso(wall, off, zulu=True))
        variants.append(own_iso(wall, off, sep=" "))
        for t in variants[: (3 if i % (2 * step) == 0 else 1)]:
            specs.append(dict(form="text", wall=wall, off=off, text=t, tz=s["tz"]))
        if i % (4 * step) == 0:
            specs.append(dict(form="fieldobject", wall=s["wall"], tz=s["tz"]))
    # epoch numbers
    secs = [0, 1, -1, 4294, 4295, 4294967295, 4294967296, -62135596800, 253402300799, 2147483647, 2147483648, -2147483649,
            951782400, -2208988800]
    for _ in range(30 if tier == "quick" else 400):
        secs.append(rnd.randint(-62135596800, 253402300799))
    for n_ in secs:
        specs.append(dict(form="epoch_int", num=n_, tz=dict(kind="utc")))
        k = rnd.choice([1, 32, 63, rnd.randint(1, 63)])
        if n_ < 253402300799:
            specs.append(dict(form="epoch_float", num=[n_, k], tz=dict(kind="utc")))
    # ISO text in every spelling fromisoformat knows, and digit-only texts (execution-only: the Coq parser covers the
    # extended format isoformat() prints; the reference for these is the standard reader on the same text)
    from vf.factgen import c13 as fg
    texts = list(fg.DIGIT_TEXTS)
    for ln in range(1, 15):
        for _ in range(2 if tier == "quick" else 12):
            texts.append("".join(rnd.choice("0123456789") for _ in range(ln)))
    for _ in range(6 if tier == "quick" else 60):      # random valid basic dates
        w = random_wall(rnd)
        texts.append("%04d%02d%02d" % w[:3])
    srcs = [s for s in base if s["form"] == "object"]
    for s in rnd.sample(srcs, min(len(srcs), 25 if tier == "quick" else 250)):
        o = obs(build_object(s))
        texts += fg.iso_spellings(tuple(o[:7]), o[7], rnd, 6 if tier == "quick" else 10)
    seen_t = set()
    for t in texts:
        if t in seen_t:
            continue
        seen_t.add(t)
        ok = fg.iso_reference(t) is not None
        for as_bytes in (False, True):
            specs.append(dict(form="isotext", text=t, bytes=as_bytes, ok=ok, tz=dict(kind="text")))
    for i, s in enumerate(specs):
        s["i"] = i
    return specs


def spec_key(s):
    return (s["form"], tuple(s.get("wall") or ()), json.dumps(s.get("tz"), sort_keys=True), s.get("text"), json.dumps(s.get("num")),
            bool(s.get("bytes")))


def nontrivial(s):
    if s["form"] != "object":
        return True
    tz = s["tz"]
    return not (tz["kind"] == "utc" and 1971 <= s["wall"][0] <= 2037)


# ------------------------------------------------------------------------------------------ implementation side

def descriptor():
    from flow.record import RecordDescriptor
    return RecordDescriptor("verif/c13", [("varint", "i"), ("datetime", "ts")])


def make_records(specs):
    """-> (records by spec index, failures).  A failure is a dict(kind, spec, ...)."""
    from flow.record import fieldtypes
    D = descriptor()
    G = _pydt.datetime(*G_WALL, tzinfo=UTC)
    recs, fails = {}, []
    for s in specs:
        want = expected_obs(s)
        try:
            inp = build_input(s)
            if s["form"] == "fieldobject":
                inp = fieldtypes.datetime(inp)
            r = D(i=s["i"], ts=inp, _generated=G)
        except Exception as e:  # noqa
            if want is not None:
                fails.append(dict(kind="coercion", spec=s, got="%s: %s" % (type(e).__name__, e), want=list(want)))
            continue
        got = obs_any(r.ts)
        if want is None:
            fails.append(dict(kind="coercion", spec=s, got=list(got), want="refusal: not ISO text (the standard datetime.fromisoformat refuses it)"))
            continue
        if got != want:
            # the wrong value is not written anywhere; it is still compared with the model's reading of the input
            fails.append(dict(kind="coercion", spec=s, got=list(got), want=list(want)))
            continue
        recs[s["i"]] = r
    # report a text that HAS a meaning and got another one before a text that should merely have been refused
    fails.sort(key=lambda f: isinstance(f.get("want"), str))
    return recs, fails


def uri_of(fmt, path):
    return "sqlite://" + path if fmt == "sqlite" else path


def write_read(fmt, records, path):
    from flow.record import RecordReader, RecordWriter
    if os.path.exists(path):
        os.unlink(path)
    w = RecordWriter(uri_of(fmt, path))
    try:
        for r in records:
            w.write(r)
        w.flush()
    finally:
        w.close()
    rd = RecordReader(uri_of(fmt, path))
    try:
        return {int(x.i): x.ts for x in rd}
    finally:
        rd.close()


def roundtrip(fmt, recs, workdir, tag="bulk"):
    """-> {i: obs tuple | ('EXC', text)} for every record (bulk first; one file per record when the bulk fails)"""
    ext = {"records": "records", "jsonl": "jsonl", "sqlite": "sqlite", "avro": "avro"}[fmt]
    out = {}
    items = sorted(recs.items())
    if fmt == "avro":
        inrange = [(i, r) for i, r in items if MIN_MICROS <= micros_of(obs(r.ts)) <= MAX_MICROS]
        single = [(i, r) for i, r in items if not (MIN_MICROS <= micros_of(obs(r.ts)) <= MAX_MICROS)]
    else:
        inrange, single = items, []
    try:
        back = write_read(fmt, [r for _, r in inrange], os.path.join(workdir, "%s.%s" % (tag, ext)))
        for i, _ in inrange:
            out[i] = obs(back[i]) if i in back else ("EXC", "record missing from the output")
    except Exception:  # noqa
        single = inrange + single
    for i, r in single:
        try:
            back = write_read(fmt, [r], os.path.join(workdir, "%s_one.%s" % (tag, ext)))
            out[i] = obs(back[i]) if i in back else ("EXC", "record missing from the output")
        except Exception as e:  # noqa
            out[i] = ("EXC", "%s: %s" % (type(e).__name__, e))
    return out


def judge(fmt, written, back):
    """None when the property holds for this value and format, else a description"""
    if fmt == "avro":
        inrange = MIN_MICROS <= micros_of(written) <= MAX_MICROS
        if back[0] == "EXC":
            if not inrange and back[1].startswith("OverflowError"):
                return None            # refused, not altered
            return "raised %s" % back[1]
        if back[7] != 0:
            return "read back with offset %r, expected UTC" % (back[7],)
        if micros_of(back) != micros_of(written):
            return "instant moved by %d microseconds" % (micros_of(back) - micros_of(written))
        return None
    if back[0] == "EXC":
        return "raised %s" % back[1]
    if tuple(back) != tuple(written):
        return "read back %s" % (list(back),)
    return None


def classify(f):
    """known-finding class of a failure, or None.  subsecond-offset-text: a value whose UTC offset is non-zero but
    shorter than one second went through ISO text and came back with the same wall clock and offset 0."""
    def sub(off):
        return off is not None and 0 < abs(off) < 10 ** 6
    if f["kind"] in ("coercion", "route", "smoke") and f["spec"]["form"] == "text" and isinstance(f.get("got"), list) \
            and f["got"] and f["got"][0] != "EXC" and len(f["got"]) == 8:
        if sub(f["want"][7]) and f["got"][:7] == f["want"][:7] and f["got"][7] == 0:
            return "subsecond-offset-text"
    if f["kind"] in ("roundtrip", "sqlite-evolution") and f["format"] in ("records", "jsonl", "sqlite") and f["back"][0] != "EXC":
        w, b = f["written"], f["back"]
        if sub(w[7]) and list(b[:7]) == list(w[:7]) and b[7] == 0:
            return "subsecond-offset-text"
    return None


def split_known(ctx, fails, kf):
    """report listed known findings, return the other failures"""
    rest = []
    for f in fails:
        cls = classify(f)
        hit = [k for k in kf if cls and k.get("match", {}).get("class") == cls]
        if hit:
            ctx.known_finding(hit[0]["id"], hit[0]["what"])
        else:
            rest.append(f)
    return rest


def impl_checks(ctx, specs, count=True):
    """Run the implementation on every spec: coercion + four formats.  -> (recs, backs, failures)"""
    recs, fails = make_records(specs)
    byi = {s["i"]: s for s in specs}
    backs = {}
    for fmt in FORMATS:
        backs[fmt] = roundtrip(fmt, recs, str(ctx.work))
        for i, b in backs[fmt].items():
            w = obs(recs[i].ts)
            why = judge(fmt, w, b)
            if count:
                ctx.count_case(spec_key(byi[i]) + (fmt,), nontrivial=nontrivial(byi[i]))
            if why:
                fails.append(dict(kind="roundtrip", format=fmt, spec=byi[i], written=list(w), back=list(b), why=why))
    return recs, backs, fails


def legacy_avro_cases(ctx, rnd):
    """An Avro file whose timestamp column is a plain long of microseconds (no logical type): the reader's guard
    branch.  -> [(n, obs or ('EXC', ..))]"""
    import fastavro
    from flow.record import RecordReader
    D = descriptor()
    vals = [4294967296, 4294967297, 10 ** 12, 1609459200123456, MAX_MICROS, MAX_MICROS - 1, 2 ** 53 + 1]
    vals += [rnd.randint(2 ** 32, MAX_MICROS) for _ in range(8)]
    schema = {"type": "record", "namespace": "verif", "name": "c13", "doc": json.dumps(D._pack()),
              "fields": [{"name": "i", "type": ["long", "null"]}, {"name": "ts", "type": ["long", "null"]}]}
    path = os.path.join(str(ctx.work), "legacy.avro")
    with open(path, "wb") as fp:
        fastavro.writer(fp, fastavro.parse_schema(schema), [{"i": k, "ts": v} for k, v in enumerate(vals)])
    out = []
    try:
        rd = RecordReader(path)
        got = {int(x.i): obs(x.ts) for x in rd}
        rd.close()
        for k, v in enumerate(vals):
            out.append((v, got.get(k, ("EXC", "missing"))))
    except Exception as e:  # noqa
        out = [(v, ("EXC", "%s: %s" % (type(e).__name__, e))) for v in vals]
    return out



# ------------------------------------------------------------------------------------------ entry routes

def pick_specs(specs, limit):
    """a compact subset with every (input form, tz kind, fold/gap class, fold, extreme year) combination
    (only inputs that have a value: refused texts are covered by the coercion leg)"""
    specs = [s for s in specs if s.get("ok", True)]
    picked, seen = [], set()
    for s in specs:
        k = (s["form"], s["tz"]["kind"], s.get("class"), s["tz"].get("fold"), s["wall"][0] in (1, 9999) if s.get("wall") else None,
             s.get("bytes"), len(s["text"]) if s["form"] == "isotext" else None)
        if k not in seen:
            seen.add(k)
            picked.append(s)
    rest = [s for s in specs if s not in picked]
    step = max(1, len(rest) // max(1, limit - len(picked))) if limit > len(picked) else 0
    if step:
        picked += rest[::step][: limit - len(picked)]
    return picked[:limit]


def route_checks(ctx, specs, count=True):
    """Every way a timestamp enters a record x every input form: the field must hold an aware datetime with the
    expected wall clock and offset (= what the constructor gives = what the model gives), and that value must
    survive the storage formats.  -> failures"""
    from flow.record import RecordReader, RecordWriter, fieldtypes
    from vf.factgen import c13 as fg
    ds = fg.route_descriptors()
    sub = pick_specs(specs, 45 if ctx.tier == "quick" else 400)
    fails = []
    plain, meta, grouped, lists = {}, {}, [], []
    k = 0
    for s in sub:
        want = expected_obs(s)
        for _, route in fg.ROUTES:
            idx = 10 ** 6 + k
            k += 1
            e = None
            try:
                inp = build_input(s)
                if s["form"] == "fieldobject":
                    inp = fieldtypes.datetime(inp)
                e = fg.enter_route(route, inp, idx, ds)
                got = obs_any(e["value"])
                if "member_value" in e and got[0] != "EXC" and obs_any(e["member_value"]) != got:
                    got = ("EXC", "grouped view shows %s but the member holds %s" % (list(got), list(obs_any(e["member_value"]))))
            except Exception as ex:  # noqa
                got = ("EXC", "%s: %s" % (type(ex).__name__, ex))
            if count:
                ctx.count_case(spec_key(s) + ("route", route), nontrivial=True)
            if got[0] == "EXC" or got[7] is None or tuple(got) != tuple(want):
                fails.append(dict(kind="route", route=route, spec=s, got=list(got), want=list(want)))
                continue
            if e["record"] is not None:
                plain[idx] = e["record"]
                meta[idx] = (s, route)
            if e["grouped"] is not None:
                grouped.append((idx, s, route, e["grouped"], want))
            if e["listrec"] is not None:
                lists.append((idx, s, route, e["listrec"], want))
    # plain records: all four formats
    for fmt in FORMATS:
        back = roundtrip(fmt, plain, str(ctx.work), tag="route")
        for idx, b in back.items():
            w = obs(plain[idx].ts)
            why = judge(fmt, w, b)
            if count:
                ctx.count_case(spec_key(meta[idx][0]) + ("route", meta[idx][1], fmt), nontrivial=True)
            if why:
                fails.append(dict(kind="roundtrip", format=fmt, route=meta[idx][1], spec=meta[idx][0], written=list(w), back=list(b), why=why))
    # grouped records: record stream
    if grouped:
        path = os.path.join(str(ctx.work), "route_grouped.records")
        try:
            w = RecordWriter(path)
            for _, _, _, g, _ in grouped:
                w.write(g)
            w.flush()
            w.close()
            rd = RecordReader(path)
            got = {int(x.i): obs_any(x.ts) for x in rd}
            rd.close()
        except Exception as ex:  # noqa
            got = {}
            fails.append(dict(kind="roundtrip", format="records", route=grouped[0][2], spec=grouped[0][1], written=list(grouped[0][4]),
                              back=["EXC", "%s: %s" % (type(ex).__name__, ex)], why="grouped records: raised %s: %s" % (type(ex).__name__, ex)))
        for idx, s, route, g, want in grouped:
            if idx in got:
                why = judge("records", want, got[idx])
                if count:
                    ctx.count_case(spec_key(s) + ("route", route, "records-grouped"), nontrivial=True)
                if why:
                    fails.append(dict(kind="roundtrip", format="records", route=route, spec=s, written=list(want), back=list(got[idx]),
                                      why="grouped record: " + why))
    # datetime[] elements: the formats that carry lists (record stream, JSON)
    for fmt in ("records", "jsonl"):
        if not lists:
            break
        path = os.path.join(str(ctx.work), "route_list." + fmt)
        try:
            w = RecordWriter(path)
            for _, _, _, lr, _ in lists:
                w.write(lr)
            w.flush()
            w.close()
            rd = RecordReader(path)
            got = {int(x.i): (obs_any(x.tss[0]) if x.tss else ("EXC", "empty list")) for x in rd}
            rd.close()
        except Exception as ex:  # noqa
            got = {idx: ("EXC", "%s: %s" % (type(ex).__name__, ex)) for idx, *_ in lists[:1]}
        for idx, s, route, lr, want in lists:
            if idx in got:
                why = judge(fmt, want, got[idx])
                if count:
                    ctx.count_case(spec_key(s) + ("route", route, fmt), nontrivial=True)
                if why:
                    fails.append(dict(kind="roundtrip", format=fmt, route=route, spec=s, written=list(want), back=list(got[idx]),
                                      why="datetime[] element: " + why))
    ctx.notes.append("entry routes: %d inputs x %d routes (%s); plain records through 4 formats, grouped records through the record "
                     "stream, datetime[] through records/jsonl" % (len(sub), len(fg.ROUTES), ", ".join(r for _, r in fg.ROUTES)))
    return fails


# ------------------------------------------------------------------------------------------ construction forms

def construction_impl(specs, workdir, tier, count=None):
    """Every way to BUILD a value with the field type's class (positional with 7 / 8 arguments, tzinfo keyword incl.
    an explicit None, combine, strptime, fromisoformat, replace, arithmetic, fromtimestamp with / without tz,
    utcfromtimestamp, fromordinal, now...), each put into a record by constructor and by assignment: the record
    field must be an aware timestamp equal to what a plain datetime subclass gives with `naive means UTC` applied;
    then the four formats.  -> (failures, number of cases, [(expected obs before coercion, field obs)])"""
    from flow.record import fieldtypes
    from vf.factgen import c13 as fg
    D = descriptor()
    G = fieldtypes.datetime(_pydt.datetime(*G_WALL, tzinfo=UTC))
    fails, pairs = [], []
    plain, meta = {}, {}
    n = 0
    idx = 2 * 10 ** 6

    def enter(name, got, want, s):
        nonlocal n, idx
        n += 1
        if count:
            count(spec_key(s) + ("construction", name))
        if not isinstance(got, _pydt.datetime):
            fails.append(dict(kind="construction", form=name, spec=s, got=list(got) if isinstance(got, tuple) else ["EXC", repr(got)], want=list(want)))
            return
        for route in ("ctor_kw", "setattr"):
            idx += 1
            try:
                if route == "ctor_kw":
                    r = D(i=idx, ts=got, _generated=G)
                else:
                    r = D(i=idx, _generated=G)
                    r.ts = got
                o = obs_any(r.ts)
            except Exception as e:  # noqa
                o = ("EXC", "%s: %s" % (type(e).__name__, e))
            if o[0] == "EXC" or o[7] is None or tuple(o) != tuple(want):
                fails.append(dict(kind="construction", form=name, route=route, spec=s, got=list(o), want=list(want)))
                return
            plain[idx] = r
            meta[idx] = (s, name)

    objs = [s for s in specs if s["form"] == "object"]
    for s in pick_specs(objs, 40 if tier == "quick" else 300):
        tz = make_tz(s["tz"])
        fold = s["tz"].get("fold", 0)
        for name, got, want in fg.run_forms(tuple(s["wall"]), tz, fold):
            enter(name, got, want, s)
            if isinstance(got, _pydt.datetime) and got.tzinfo is not None:
                pairs.append((tuple(want), obs(got)))
    eps = [s for s in specs if s["form"] in ("epoch_int", "epoch_float")]
    for s in eps[: (20 if tier == "quick" else 200)]:
        for name, got, want in fg.run_epoch_forms(build_input(s)):
            enter(name, got, want, s)
    for name, thunk in fg.now_forms(fieldtypes.datetime):
        s = dict(form="now", tz=dict(kind="utc"), i=-1, num=name)
        try:
            got = thunk()
        except Exception as e:  # noqa
            got = ("EXC", "%s: %s" % (type(e).__name__, e))
        # never compare "now": only that the value is an aware timestamp that a record keeps as it is
        want = obs(got)[:7] + (obs(got)[7] if obs(got)[7] is not None else 0,) if isinstance(got, _pydt.datetime) else ()
        if isinstance(got, _pydt.datetime) and got.tzinfo is None:
            fails.append(dict(kind="construction", form=name, spec=s, got=list(obs(got)), want=list(want)))
        else:
            enter(name, got, want, s)
    for fmt in FORMATS:
        back = roundtrip(fmt, plain, workdir, tag="forms")
        for i, b in back.items():
            w = obs(plain[i].ts)
            why = judge(fmt, w, b)
            if count:
                count(spec_key(meta[i][0]) + ("construction", meta[i][1], fmt))
            if why:
                fails.append(dict(kind="roundtrip", format=fmt, route="construction form " + meta[i][1], spec=meta[i][0], written=list(w), back=list(b), why=why))
    return fails, n, pairs


def forms_main(specfile, outdir, tier):
    specs = json.load(open(specfile))
    fails, n, _ = construction_impl(specs, outdir, tier)
    for f in fails:
        f["class"] = classify(f)
    json.dump(dict(fails=fails[:50], nfails=len(fails), n=n, tz=os.environ.get("TZ")), sys.stdout, default=repr)


def construction_checks(ctx, specs):
    """in this process (TZ as inherited) and in a child process under TZ=America/New_York"""
    fails, n, pairs = construction_impl(specs, str(ctx.work), ctx.tier, count=lambda k: ctx.count_case(k, nontrivial=True))
    ctx._c13_pairs = pairs
    specfile = ctx.work / "forms_specs.json"
    specfile.write_text(json.dumps(specs))
    total = n
    for k, envx in enumerate(FORMS_ENVS):
        outdir = ctx.work / ("forms%d" % k)
        outdir.mkdir(exist_ok=True)
        env = core.env_for_repo()
        env.pop("TZ", None)
        env.update(envx)
        rc, out = 1, ""
        try:
            p = subprocess.run([core.PY, "-m", "vf.props.c13", "forms", str(specfile), str(outdir), ctx.tier], env=env,
                               stdout=subprocess.PIPE, stderr=subprocess.PIPE, text=True, cwd=str(ctx.work), timeout=600)
            rc, out, err = p.returncode, p.stdout, p.stderr
        except subprocess.TimeoutExpired:
            err = "timeout"
        if rc != 0 or not out.strip():
            fails.append(dict(kind="construction", form="(child process)", spec=None, got=["EXC", (err or "")[-500:]], want=[],
                              why="construction forms under %r: child failed: %s" % (envx, (err or "")[-500:])))
            continue
        r = json.loads(out)
        total += r["n"]
        for f in r["fails"]:
            f["env"] = envx
            fails.append(f)
    ctx.coverage["evaluations"] += 0
    ctx.notes.append("construction forms: %d (form, input) cases in-process and under %r, each entered by constructor and by "
                     "assignment, then 4 formats; reference = plain datetime subclass with naive => UTC" % (total, FORMS_ENVS))
    return fails


# ------------------------------------------------------------------------------------------ hand-written JSON lines

def foreign_jsonl_checks(ctx, specs, count=True):
    """A JSON lines file whose timestamp column holds ISO text in any spelling (as another producer would write it):
    the reader must give the value the standard reader gives for that text; a text that is not ISO must be refused."""
    from flow.record import RecordReader
    from flow.record.jsonpacker import JsonRecordPacker
    D = descriptor()
    G = _pydt.datetime(*G_WALL, tzinfo=UTC)
    jp = JsonRecordPacker()
    head = jp.pack(D)
    sub = [s for s in specs if s["form"] == "isotext" and not s.get("bytes")]
    good = [s for s in sub if s["ok"]][: (300 if ctx.tier == "quick" else 3000)]
    bad = [s for s in sub if not s["ok"]][: (20 if ctx.tier == "quick" else 100)]

    def line(s):
        d = json.loads(jp.pack(D(i=s["i"], ts=G, _generated=G)))
        d["ts"] = s["text"]
        return json.dumps(d)
    fails = []
    path = os.path.join(str(ctx.work), "foreign.jsonl")
    with open(path, "w") as fp:
        fp.write(head + "\n" + "".join(line(s) + "\n" for s in good))
    try:
        rd = RecordReader(path)
        got = {int(x.i): obs_any(x.ts) for x in rd}
        rd.close()
    except Exception as e:  # noqa
        got = {}
        fails.append(dict(kind="foreign-jsonl", spec=good[0], got=["EXC", "%s: %s" % (type(e).__name__, e)], want=[],
                          why="reading a JSON lines file with %d ISO timestamps raised %s: %s" % (len(good), type(e).__name__, e)))
    for s in good:
        want = expected_obs(s)
        g = got.get(s["i"])
        if count:
            ctx.count_case(spec_key(s) + ("foreign-jsonl",), nontrivial=True)
        if g is not None and tuple(g) != tuple(want):
            fails.append(dict(kind="foreign-jsonl", spec=s, got=list(g), want=list(want),
                              why="JSON lines file holding %r: read back %s, the text means %s" % (s["text"], list(g), list(want))))
    for s in bad:
        with open(path, "w") as fp:
            fp.write(head + "\n" + line(s) + "\n")
        try:
            rd = RecordReader(path)
            vals = [obs_any(x.ts) for x in rd]
            rd.close()
        except Exception:  # noqa
            vals = None
        if count:
            ctx.count_case(spec_key(s) + ("foreign-jsonl",), nontrivial=True)
        if vals:
            fails.append(dict(kind="foreign-jsonl", spec=s, got=list(vals[0]), want="refusal",
                              why="JSON lines file holding %r (not ISO text): read as %s instead of being refused" % (s["text"], list(vals[0]))))
    ctx.notes.append("hand-written JSON lines: %d ISO spellings read, %d non-ISO digit texts refused" % (len(good), len(bad)))
    return fails


# ------------------------------------------------------------------------------------------ SQLite descriptor evolution

def evolution_checks(ctx, specs, recs, count=True):
    """A record type that gains a timestamp field after its table exists (same writer, a later writer session, and
    a later session after more old-type rows): the added column must return aware timestamps like a created one."""
    from flow.record import RecordDescriptor, RecordReader, RecordWriter
    Small = RecordDescriptor("verif/c13evo", [("varint", "i")])
    Large = RecordDescriptor("verif/c13evo", [("varint", "i"), ("datetime", "ts")])
    G = _pydt.datetime(*G_WALL, tzinfo=UTC)
    sub = [s for s in pick_specs([s for s in specs if s["i"] in recs], 30 if ctx.tier == "quick" else 200)]
    fails = []
    for scenario in ("same-writer", "later-session", "later-session-after-more-rows", "created-with-column"):
        path = os.path.join(str(ctx.work), "evo_%s.sqlite" % scenario)
        if os.path.exists(path):
            os.unlink(path)
        try:
            w = RecordWriter("sqlite://" + path)
            if scenario != "created-with-column":
                w.write(Small(i=-1, _generated=G))
            if scenario == "later-session-after-more-rows":
                w.write(Small(i=-2, _generated=G))
            if scenario.startswith("later-session"):
                w.close()
                w = RecordWriter("sqlite://" + path)
            for s in sub:
                w.write(Large(i=s["i"], ts=recs[s["i"]].ts, _generated=G))
            w.write(Small(i=-3, _generated=G))
            w.close()
            rd = RecordReader("sqlite://" + path)
            got = {}
            nrows = 0
            for x in rd:
                nrows += 1
                if int(x.i) >= 0:
                    got[int(x.i)] = obs_any(getattr(x, "ts", None))
            rd.close()
        except Exception as ex:  # noqa
            fails.append(dict(kind="sqlite-evolution", format="sqlite", scenario=scenario, spec=sub[0] if sub else None,
                              written=[], back=["EXC", "%s: %s" % (type(ex).__name__, ex)], why="raised %s: %s" % (type(ex).__name__, ex)))
            continue
        for s in sub:
            w_ = obs(recs[s["i"]].ts)
            b = got.get(s["i"], ("EXC", "row missing"))
            why = judge("sqlite", w_, b)
            if count:
                ctx.count_case(spec_key(s) + ("sqlite-evolution", scenario), nontrivial=True)
            if why:
                fails.append(dict(kind="sqlite-evolution", format="sqlite", scenario=scenario, spec=s, written=list(w_), back=list(b), why=why))
    ctx.notes.append("sqlite descriptor evolution: 4 scenarios x %d timestamps" % len(sub))
    return fails


# ------------------------------------------------------------------------------------------ fresh-process smoke

def smoke_main(specfile, outdir, fmt):
    """Fresh interpreter, nothing imported but flow.record's top-level names: build, write, read."""
    from flow.record import RecordDescriptor, RecordReader, RecordWriter
    specs = json.load(open(specfile))
    D = RecordDescriptor("verif/c13", [("varint", "i"), ("datetime", "ts")])
    G = _pydt.datetime(*G_WALL, tzinfo=UTC)
    res = dict(field={}, back={}, error=None, modules=sorted(m for m in sys.modules if m.startswith("flow")))
    recs = []
    for s in specs:
        try:
            r = D(i=s["i"], ts=build_input(s), _generated=G)
            res["field"][s["i"]] = list(obs_any(r.ts))
            if isinstance(r.ts, _pydt.datetime) and (fmt != "avro" or MIN_MICROS <= micros_of(obs(r.ts)) <= MAX_MICROS):
                recs.append(r)
        except Exception as e:  # noqa
            res["field"][s["i"]] = ["EXC", "%s: %s" % (type(e).__name__, e)]
    path = os.path.join(outdir, "smoke." + fmt)
    try:
        w = RecordWriter(uri_of(fmt, path))
        for r in recs:
            w.write(r)
        w.close()
        rd = RecordReader(uri_of(fmt, path))
        for x in rd:
            res["back"][int(x.i)] = list(obs_any(x.ts))
        rd.close()
    except Exception as e:  # noqa
        res["error"] = "%s: %s" % (type(e).__name__, e)
    json.dump(res, sys.stdout)


def smoke_checks(ctx, specs, count=True):
    sub = [dict(s, form="object") if s["form"] == "fieldobject" else s for s in pick_specs(specs, 24)]
    sub += [s for s in specs if s["form"].startswith("epoch")][:12]
    seen = set()
    sub = [s for s in sub if not (s["i"] in seen or seen.add(s["i"]))]
    specfile = ctx.work / "smoke_specs.json"
    specfile.write_text(json.dumps(sub))
    procs = []
    for k, envx in enumerate(SMOKE_ENVS):
        for fmt in FORMATS:
            outdir = ctx.work / ("smoke%d_%s" % (k, fmt))
            outdir.mkdir(exist_ok=True)
            env = core.env_for_repo()
            env.pop("TZ", None)
            env.update(envx)
            procs.append((envx, fmt, subprocess.Popen([core.PY, "-m", "vf.props.c13", "smoke", str(specfile), str(outdir), fmt],
                                                      env=env, stdout=subprocess.PIPE, stderr=subprocess.PIPE, text=True, cwd=str(ctx.work))))
    fails = []
    for envx, fmt, p in procs:
        try:
            out, err = p.communicate(timeout=120)
        except subprocess.TimeoutExpired:
            p.kill()
            out, err = "", "timeout"
        if p.returncode != 0 or not out.strip():
            fails.append(dict(kind="smoke", format=fmt, env=envx, spec=sub[0], got=["EXC", (err or "")[-500:]], want=[],
                              why="fresh process (%s, env %r) failed: %s" % (fmt, envx, (err or "")[-500:])))
            continue
        r = json.loads(out)
        for s in sub:
            want = expected_obs(s)
            got = r["field"].get(str(s["i"]))
            if count:
                ctx.count_case(spec_key(s) + ("smoke", fmt, json.dumps(envx, sort_keys=True)), nontrivial=True)
            if got is None or got[0] == "EXC" or tuple(got) != tuple(want):
                fails.append(dict(kind="smoke", format=fmt, env=envx, spec=s, got=got, want=list(want),
                                  why="fresh process (env %r): field holds %s, expected %s" % (envx, got, list(want))))
                continue
            if fmt == "avro" and not (MIN_MICROS <= micros_of(want) <= MAX_MICROS):
                continue
            b = r["back"].get(str(s["i"]))
            if b is None:
                b = ["EXC", r["error"] or "record missing from the output"]
            why = judge(fmt, tuple(want), tuple(b))
            if why:
                fails.append(dict(kind="roundtrip", format=fmt, env=envx, spec=s, written=list(want), back=list(b),
                                  why="fresh process (env %r): %s" % (envx, why)))
    ctx.notes.append("fresh-process smoke: %d processes (4 formats x %r) x %d inputs" % (len(procs), SMOKE_ENVS, len(sub)))
    return fails


# ------------------------------------------------------------------------------------------ Coq side

HEADER = """From Coq Require Import List ZArith Bool String.
Import ListNotations.
From FR Require Import IsoTime Gen_time.
Open Scope Z_scope.
Definition oz_eqb (a b : option Z) : bool :=
  match a, b with Some x, Some y => x =? y | None, None => true | _, _ => false end.
Definition dtv_eqb (a b : dtv) : bool :=
  (yr a =? yr b) && (mo a =? mo b) && (dy a =? dy b) && (hh a =? hh b) && (mi a =? mi b) && (ss a =? ss b)
  && (us a =? us b) && oz_eqb (off a) (off b).
Definition odtv_eqb (a b : option dtv) : bool :=
  match a, b with Some x, Some y => dtv_eqb x y | None, None => true | _, _ => false end.
Definition wire_eqb (a b : wire) : bool :=
  match a, b with
  | WTuple t1, WTuple t2 => dtv_eqb (of_tuple t1 None) (of_tuple t2 None)
  | WText s, WText t => String.eqb s t
  | WMicros n, WMicros m => n =? m
  | _, _ => false
  end.
Definition D := mkdt.
Definition Q := gen_fromiso_drops_subsecond_offset.
Definition c_text (d : dtv) (text : string) : bool := String.eqb (iso_print d) text.
Definition c_parse (text : string) (parsed : option dtv) : bool := odtv_eqb (option_map coerce (iso_parse Q text)) parsed.
Definition c_inst (d : dtv) (inst : Z) : bool := to_micros d =? inst.
Definition c_wire (d : dtv) (k : tz_kind) (w : wire) : bool := wire_eqb (stream_encode gen_pack_rule k d) w.
Definition c_unwire (w : wire) (back : option dtv) : bool := odtv_eqb (stream_decode Q w) back.
Definition c_json (d : dtv) (back : option dtv) : bool :=
  odtv_eqb (obind (text_encode gen_json_datetime_form d) (text_wire_decode Q)) back.
Definition c_sqlite (d : dtv) (back : option dtv) : bool :=
  odtv_eqb (obind (text_encode gen_sqlite_datetime_form d) (text_wire_decode Q)) back.
Definition c_avro (d : dtv) (back : option dtv) : bool :=
  odtv_eqb (avro_decode (String.eqb gen_avro_logical_type "timestamp-micros") gen_avro_guard (avro_encode d)) back.
(* a written value: model text = implementation text; the model's reader on that text, the model's wire form and the
   model's four format round trips give exactly what the implementation gave *)
Definition written (d : dtv) (text : string) (parsed : option dtv) (inst : Z) (k : tz_kind) (w : wire)
    (b_records b_json b_sqlite b_avro : option dtv) : bool :=
  c_text d text && c_parse text parsed && c_inst d inst && c_wire d k w && c_unwire w b_records
  && c_json d b_json && c_sqlite d b_sqlite && c_avro d b_avro.
Definition newobj (x : dtv) (o0 : option Z) (f : option dtv) : bool := odtv_eqb (dt_new Q gen_new_keeps_fold (InObj x o0)) f.
Definition newtext (s : string) (f : option dtv) : bool := odtv_eqb (dt_new Q gen_new_keeps_fold (InText s)) f.
Definition newepoch (n : Z) (f : option dtv) : bool := odtv_eqb (dt_new Q gen_new_keeps_fold (InEpochMicros n)) f.
Definition fieldwise (x : dtv) (f : dtv) : bool := odtv_eqb (dt_of_fields x) (Some f).
Definition legacy (n : Z) (back : option dtv) : bool := odtv_eqb (avro_decode false gen_avro_guard (WMicros n)) back.
"""


def cz(n):
    return "(%d)" % n if n < 0 else "%d" % n


def coq_dtv(o):
    off = "None" if o[7] is None else "(Some %s)" % cz(o[7])
    return "(D %s %s)" % (" ".join(cz(x) for x in o[:7]), off)


def coq_odtv(o):
    return "None" if o is None or o[0] == "EXC" else "(Some %s)" % coq_dtv(o)


def wire_of(field_value):
    """what RecordPacker.pack_obj really emits for this value"""
    from flow.record import packer
    pk = packer.RecordPacker()
    ext = pk.pack_obj(field_value)
    sub, payload = pk.unpack(ext.data)
    if sub != packer.RECORD_PACK_TYPE_DATETIME:
        return "(WMicros 0)", "subtype %r" % (sub,)
    payload = tuple(payload)
    if len(payload) == 7 and all(type(x) is int for x in payload):
        return "(WTuple (%s))" % ", ".join(cz(x) for x in payload), "tuple"
    if len(payload) == 1 and isinstance(payload[0], str):
        return "(WText %s)" % cstr(payload[0]), "text"
    return "(WMicros 0)", "payload %r" % (payload,)


def tz_kind_of(v):
    if v.tzinfo is None:
        return "KNaive"
    return "KEqUTC" if v.tzinfo == UTC else "KOther"


def coq_cases(specs, recs, backs, legacy, coerced):
    """-> (terms, metas).  coerced: {spec index: obs of the field value} also for inputs whose value is a known finding"""
    from flow.record import fieldtypes
    terms, metas = [], []
    seen = set()
    for s in specs:
        i = s["i"]
        if i in recs:
            v = recs[i].ts
            o = obs(v)
            wterm, wkind = wire_of(v)
            kind = tz_kind_of(v)
            key = (o, kind, wterm)
            if key not in seen:
                seen.add(key)
                inst = (v - EPOCH) // US
                text = v.isoformat()
                try:
                    parsed = obs(fieldtypes.datetime(text))
                except Exception:  # noqa
                    parsed = None
                b = {f: backs[f].get(i) for f in FORMATS}
                d = coq_dtv(o)
                parts = dict(
                    c_text="c_text %s %s" % (d, cstr(text)), c_parse="c_parse %s %s" % (cstr(text), coq_odtv(parsed)),
                    c_inst="c_inst %s %s" % (d, cz(inst)), c_wire="c_wire %s %s %s" % (d, kind, wterm),
                    c_unwire="c_unwire %s %s" % (wterm, coq_odtv(b["records"])), c_json="c_json %s %s" % (d, coq_odtv(b["jsonl"])),
                    c_sqlite="c_sqlite %s %s" % (d, coq_odtv(b["sqlite"])), c_avro="c_avro %s %s" % (d, coq_odtv(b["avro"])))
                terms.append("written %s %s %s %s %s %s %s %s %s %s" % (
                    d, cstr(text), coq_odtv(parsed), cz(inst), kind, wterm, coq_odtv(b["records"]), coq_odtv(b["jsonl"]),
                    coq_odtv(b["sqlite"]), coq_odtv(b["avro"])))
                metas.append(dict(what="written", spec=s, value=list(o), text=text, instant=inst, wire=wkind,
                                  back={f: list(x) if x else None for f, x in b.items()}, parts=parts))
        if i not in coerced:
            continue
        o = coerced[i]
        f = s["form"]
        if f in ("object", "fieldobject"):
            x = build_object(s)
            xo = obs(x)
            o0 = obs(x.replace(fold=0))[7]
            t = "newobj %s %s (Some %s)" % (coq_dtv(xo), "None" if o0 is None else "(Some %s)" % cz(o0), coq_dtv(o))
        elif f == "text":
            t = "newtext %s (Some %s)" % (cstr(s["text"]), coq_dtv(o))
        elif f == "isotext":
            if s.get("bytes") or not MODEL_TEXT.match(s["text"]):
                continue          # outside the language of model/IsoTime.v: execution-only (reference = standard reader)
            t = "newtext %s (Some %s)" % (cstr(s["text"]), coq_dtv(o))
        else:
            t = "newepoch %s (Some %s)" % (cz(epoch_micros(s)), coq_dtv(o))
        if t not in seen:
            seen.add(t)
            terms.append(t)
            metas.append(dict(what="input", spec=s, value=list(o), term=t))
    for n, b in legacy:
        terms.append("legacy %s %s" % (cz(n), coq_odtv(b)))
        metas.append(dict(what="legacy-avro", micros=n, back=list(b)))
    return terms, metas


# ------------------------------------------------------------------------------------------ display setting (child process)

def child_main(specfile, outdir):
    """Run in a subprocess under one FLOW_RECORD_TZ / TZ setting: everything observable about storage, comparison
    and hashing of the given inputs, as JSON on stdout."""
    import sqlite3

    from flow.record import RecordReader, fieldtypes
    from flow.record.jsonpacker import JsonRecordPacker
    from flow.record.packer import RecordPacker
    specs = json.load(open(specfile))
    recs, fails = make_records(specs)
    idx = sorted(recs)
    res = dict(env={k: os.environ.get(k) for k in ("FLOW_RECORD_TZ", "TZ")},
               display=repr(fieldtypes.DISPLAY_TZINFO), coercion_failures=[[f["spec"]["i"], classify(f)] for f in fails])
    res["field"] = {i: list(obs(recs[i].ts)) for i in idx}
    res["pack"] = {i: [list(obs(x)) if isinstance(x, _pydt.datetime) else x for x in recs[i]._pack()[1]] for i in idx}
    res["stream_bytes"] = {i: hashlib.sha256(RecordPacker().pack(recs[i])).hexdigest()[:16] for i in idx}
    jp = JsonRecordPacker()
    res["json_text"] = {i: jp.pack(recs[i]) for i in idx}
    def safe(fn):
        try:
            return fn()
        except Exception as e:  # noqa
            return "EXC %s: %s" % (type(e).__name__, e)
    res["hash"] = {i: [safe(lambda: hash(recs[i].ts)), safe(lambda: hash(recs[i]))] for i in idx}
    eq = {}
    for a, b in zip(idx, idx[1:] + idx[:1]):
        ra, rb = recs[a], recs[b]
        eq[a] = [safe(lambda: ra.ts == rb.ts), safe(lambda: ra.ts != rb.ts), safe(lambda: ra.ts < rb.ts),
                 safe(lambda: ra.ts <= rb.ts), safe(lambda: ra == rb)]
        if MIN_MICROS <= micros_of(obs(ra.ts)) <= MAX_MICROS:
            # the same instant expressed in UTC is equal and hashes equally
            u = fieldtypes.datetime(EPOCH + _pydt.timedelta(microseconds=micros_of(obs(ra.ts))))
            eq[a] += [safe(lambda: ra.ts == u), safe(lambda: hash(ra.ts) == hash(u))]
    res["eq"] = eq
    files = {}
    rows = {}
    for fmt in FORMATS:
        sub = {i: r for i, r in recs.items() if fmt != "avro" or MIN_MICROS <= micros_of(obs(r.ts)) <= MAX_MICROS}
        path = os.path.join(outdir, "disp.%s" % fmt)
        try:
            back = write_read(fmt, [sub[i] for i in sorted(sub)], path)
            rows[fmt] = {i: list(obs(back[i])) for i in sorted(back)}
            if fmt in ("records", "jsonl"):
                files[fmt] = hashlib.sha256(open(path, "rb").read()).hexdigest()
            elif fmt == "sqlite":
                con = sqlite3.connect(path)
                dump = [repr(row) for row in con.execute('SELECT * FROM "verif/c13"')]
                con.close()
                files[fmt] = hashlib.sha256("\n".join(dump).encode()).hexdigest()
                rows["sqlite_raw"] = dict(zip([str(i) for i in sorted(sub)], dump))
            else:
                files[fmt] = hashlib.sha256(json.dumps(rows[fmt], sort_keys=True).encode()).hexdigest()
        except Exception as e:  # noqa
            files[fmt] = "EXC %s: %s" % (type(e).__name__, e)
    res["files"] = files
    res["rows"] = rows
    # printing: may differ between settings, but must show the same instant
    shown = {}
    bad_print = []
    unprintable = []
    for i in idx:
        try:
            t = str(recs[i].ts)
        except OverflowError as e:
            # the value expressed in the display zone leaves years 1..9999: printing is outside this property
            shown[i] = "OverflowError: %s" % e
            unprintable.append(i)
            continue
        shown[i] = t
        try:
            if micros_of(obs(fieldtypes.datetime(t))) != micros_of(obs(recs[i].ts)):
                if classify(dict(kind="coercion", spec=dict(form="text"), got=list(obs(fieldtypes.datetime(t))),
                                 want=list(obs(recs[i].ts)))) is None:
                    bad_print.append(i)
        except Exception:  # noqa
            bad_print.append(i)
    res["unprintable"] = unprintable
    res["str"] = shown
    res["print_moves_instant"] = bad_print
    json.dump(res, sys.stdout, default=repr)


def display_specs(specs):
    """a compact subset with every kind of input, and a dozen epoch numbers (local-time TZ settings matter there)"""
    sub = pick_specs(specs, 110) + [s for s in specs if s["form"].startswith("epoch")][:12]
    seen = set()
    return [s for s in sub if not (s["i"] in seen or seen.add(s["i"]))]


def display_checks(ctx, specs, known_classes=()):
    """-> list of failures (dict) ; [] when all settings agree"""
    sub = display_specs(specs)
    specfile = ctx.work / "display_specs.json"
    specfile.write_text(json.dumps(sub))
    results = []
    procs = []
    for k, setting in enumerate(SETTINGS):
        outdir = ctx.work / ("disp%d" % k)
        outdir.mkdir(exist_ok=True)
        env = core.env_for_repo()
        env.pop("TZ", None)
        env.update(setting)
        procs.append((setting, subprocess.Popen([core.PY, "-m", "vf.props.c13", "child", str(specfile), str(outdir)],
                                                env=env, stdout=subprocess.PIPE, stderr=subprocess.PIPE, text=True, cwd=str(ctx.work))))
    fails = []
    for setting, p in procs:
        try:
            out, err = p.communicate(timeout=300)
        except subprocess.TimeoutExpired:
            p.kill()
            out, err = "", "timeout"
        if p.returncode != 0 or not out.strip():
            fails.append(dict(kind="display", why="child under %r failed: %s" % (setting, (err or "")[-600:]), settings=[setting]))
            continue
        results.append((setting, json.loads(out)))
    if fails or not results:
        return fails, len(sub)
    byi = {str(s["i"]): s for s in sub}
    base_setting, base = results[0]
    for setting, r in results:
        if r["print_moves_instant"]:
            i = r["print_moves_instant"][0]
            fails.append(dict(kind="display", why="str() under %r shows another instant: %r" % (setting, r["str"][str(i)]),
                              spec=byi[str(i)], settings=[setting]))
        unknown = [i for i, cls in r["coercion_failures"] if cls not in known_classes]
        if unknown:
            i = unknown[0]
            fails.append(dict(kind="display", why="under %r the field value is not (wall clock, offset) of the input" % (setting,),
                              spec=byi[str(i)], settings=[setting]))
    for setting, r in results[1:]:
        for key in ("field", "pack", "stream_bytes", "json_text", "hash", "eq", "rows", "files"):
            if r[key] == base[key]:
                continue
            # locate the first differing input
            where = None
            a, b = base[key], r[key]
            if key in ("rows",):
                for fmt in a:
                    if a[fmt] != b.get(fmt):
                        for i in a[fmt]:
                            if a[fmt].get(i) != (b.get(fmt) or {}).get(i):
                                where = (fmt, i, a[fmt].get(i), (b.get(fmt) or {}).get(i))
                                break
                        break
            elif key == "files":
                for fmt in a:
                    if a[fmt] != b[fmt]:
                        where = (fmt, None, a[fmt], b[fmt])
                        break
            else:
                for i in a:
                    if a[i] != b.get(i):
                        where = (key, i, a[i], b.get(i))
                        break
            fails.append(dict(kind="display", why="%s differs between settings %r and %r: %r" % (key, base_setting, setting, where),
                              spec=byi.get(str(where[1])) if where and where[1] is not None else None,
                              settings=[base_setting, setting], observed=key))
            break
    unp = sorted({i for _, r in results for i in r.get("unprintable", [])})
    if unp:
        ctx.notes.append("observation outside the property: str() of %d valid inputs raises OverflowError under some display setting "
                         "(the value expressed in the display zone leaves years 1..9999), e.g. %s" % (
                             len(unp), describe(dict(kind="x", why="str() raises", spec=byi[str(unp[0])]))))
    strs = {json.dumps(r["str"], sort_keys=True) for _, r in results}
    ctx.notes.append("display settings: %d subprocesses x %d inputs; stored bytes/rows, field values, _pack, ==, <, hash identical; "
                     "%d distinct str() renderings" % (len(results), len(sub), len(strs)))
    return fails, len(sub)


# ------------------------------------------------------------------------------------------ reporting

def describe(f):
    s = f.get("spec") or {}
    if s.get("form") in ("object", "fieldobject"):
        inp = "datetime(%s, tz=%s)" % (", ".join(str(x) for x in s["wall"]), json.dumps(s["tz"], sort_keys=True))
    elif s.get("form") == "text":
        inp = repr(s["text"])
    elif s.get("form") == "isotext":
        inp = repr(s["text"].encode() if s.get("bytes") else s["text"])
    elif s.get("form") == "now":
        inp = "%s()" % s["num"]
    elif s.get("form"):
        inp = "epoch %r" % (build_input(s),)
    else:
        inp = "?"
    if f["kind"] == "coercion":
        return "timestamp field built from %s is %s, expected (wall clock, offset) %s" % (inp, f["got"], f["want"])
    if f["kind"] == "foreign-jsonl":
        return f["why"]
    if f["kind"] == "construction":
        if f.get("why"):
            return f["why"]
        envt = " under %r" % (f["env"],) if f.get("env") else ""
        return "fieldtypes.datetime built by %s from %s%s and put into a record%s: field %s, expected an aware datetime (wall clock, offset) %s" % (
            f["form"], inp, envt, " by " + f["route"] if f.get("route") else "", f["got"], f["want"])
    if f["kind"] == "route":
        return "timestamp %s entering a record by %s: field %s, expected an aware datetime (wall clock, offset) %s" % (
            inp, f["route"], f["got"], f["want"])
    if f["kind"] == "roundtrip":
        via = " (entered by %s)" % f["route"] if f.get("route") else ""
        return "%s%s written as %s to %s: %s" % (inp, via, f["written"], f["format"], f["why"])
    if f["kind"] == "sqlite-evolution":
        return "%s written as %s to a SQLite table that gained its timestamp column later (%s): %s" % (
            inp, f["written"], f["scenario"], f["why"])
    return "%s (input %s)" % (f["why"], inp)


def report(ctx, fails, prefix=""):
    for f in fails[:1]:
        ctx.violation(prefix + describe(f), dict(f))
    return bool(fails)


def search(ctx, reason):
    """The proof/translator broke: look for a concrete failing timestamp on the implementation."""
    try:
        specs = gen_specs(ctx.seed, ctx.tier)
        kf = core.known_for("C13")
        recs, backs, fails = impl_checks(ctx, specs)
        fails = [f for f in fails if not any(k.get("match", {}).get("class") == classify(f) for k in kf if classify(f))]
        def unknown(fs):
            return [f for f in fs if not any(k.get("match", {}).get("class") == classify(f) for k in kf if classify(f))]
        if not fails:
            fails = unknown(route_checks(ctx, specs))
        if not fails:
            fails = unknown(construction_checks(ctx, specs))
        if not fails:
            fails = unknown(foreign_jsonl_checks(ctx, specs))
        if not fails:
            fails = unknown(evolution_checks(ctx, specs, recs))
        if not fails:
            fails = unknown(smoke_checks(ctx, specs))
        if not fails:
            fails, _ = display_checks(ctx, specs, [k.get("match", {}).get("class") for k in kf])
        if not fails:
            leg = legacy_avro_cases(ctx, random.Random(ctx.seed))
            for n, b in leg:
                want = obs(EPOCH + _pydt.timedelta(microseconds=n))
                if tuple(b) != want:
                    fails.append(dict(kind="legacy-avro", why="Avro long %d (no logical type) read back as %s, expected %s" % (n, list(b), list(want)),
                                      micros=n))
                    break
    except Exception:  # noqa
        return False
    if fails:
        f = fails[0]
        ctx.violation("%s; failing input: %s" % (reason, describe(f) if f["kind"] != "legacy-avro" else f["why"]),
                      dict(f, reason=reason))
        return True
    return False


def run(ctx):
    ctx.coverage["rule"] = (
        "datetimes (boundary table: years 1/9999, 1969/1970 edges, leap days, 2^32 us/s edges, 23:59:59.999999; random) x tzinfo kinds "
        "(UTC, ZoneInfo('UTC'), fixed offsets with minute/second/microsecond precision up to +-23:59:59.999999, IANA zones incl. "
        "computed fold and gap wall times with fold 0 and 1, naive) x input forms (object, field-type object, ISO text from "
        "isoformat / with 'Z' / with ' ', epoch int, exactly representable epoch float) x formats (records, jsonl, sqlite, avro). "
        "Plus: entry routes (constructor kw/positional, setattr, _replace, grouped/nested-grouped setattr, grouped _replace, "
        "init_from_dict/record, extend_record, datetime[] by constructor/assignment) x input forms x formats; SQLite descriptor "
        "evolution (column added later: same writer / later session); fresh-process smoke per format incl. TZ=Asia/Kolkata; "
        "display settings. distinct = distinct (input form, wall clock, tz, text/number, leg, format); a case is trivial only when it is a plain "
        "object input in UTC between 1971 and 2037")
    ok = core.standard_proof_stage(ctx, ["props/C13.vo"], "C13", THEOREMS, search_fn=search, gens=["gen_time"])
    ctx.assumptions += [
        "zoneinfo is an oracle: a value is (wall clock fields, utcoffset()); the model never computes zone rules",
        "CPython datetime.isoformat/fromisoformat, timetuple, fromtimestamp(x, UTC), aware subtraction: modelled by "
        "coq/model/IsoTime.v (iso_print/iso_parse/to_micros/from_micros_utc) and validated case by case inside Coq",
        "fastavro's timestamp-micros logical type (write: instant as long; read: EPOCH + timedelta(microseconds=n)), sqlite3 "
        "storing text unchanged in a TIMESTAMPTZ column, msgpack/json carrying ints and text unchanged: modelled, validated by execution",
        "Avro: an instant whose UTC form leaves years 1..9999 is written but cannot be read back (OverflowError): counted as "
        "refused, not altered (theorem C13_avro_out_of_range_refused)",
        "ISO text outside the extended format isoformat() prints (basic and week dates, basic times, comma, 1-5 or more than 6 "
        "fraction digits, +HHMM / +HH offsets, other separators, lower-case t) and digit-only texts are EXECUTION-ONLY: the "
        "reference is the standard datetime.fromisoformat on the same text (naive => UTC; refused texts must be refused); the "
        "Coq parser iso_parse covers only the extended format and is compared on the texts inside it",
        "display setting: the set of flow.record functions that run per operation is observed with a profiler hook on "
        "sample records (generated fact), the mention set by ast over every file under flow/record",
    ]
    if not ok:
        return
    kf = core.known_for("C13")
    known_classes = [k.get("match", {}).get("class") for k in kf]
    specs = gen_specs(ctx.seed, ctx.tier)
    recs, backs, fails = impl_checks(ctx, specs)
    coerced = {i: obs(r.ts) for i, r in recs.items()}
    for f in fails:
        if f["kind"] == "coercion" and isinstance(f["got"], list):
            coerced[f["spec"]["i"]] = tuple(f["got"])
    if report(ctx, split_known(ctx, fails, kf)):
        return
    for leg in (lambda: route_checks(ctx, specs), lambda: construction_checks(ctx, specs), lambda: foreign_jsonl_checks(ctx, specs),
                lambda: evolution_checks(ctx, specs, recs), lambda: smoke_checks(ctx, specs)):
        if report(ctx, split_known(ctx, leg(), kf)):
            return
    legacy = legacy_avro_cases(ctx, random.Random(ctx.seed))
    terms, metas = coq_cases(specs, recs, backs, legacy, coerced)
    seen_pairs = set()
    for want, got in getattr(ctx, "_c13_pairs", []):
        # field-wise construction: the model's constructor on the reference's (wall clock, offset) gives the value built
        if (want, got) in seen_pairs or not (1 <= want[0] <= 9999):
            continue
        seen_pairs.add((want, got))
        terms.append("fieldwise %s %s" % (coq_dtv(want), coq_dtv(got)))
        metas.append(dict(what="fieldwise-construction", reference=list(want), value=list(got)))
    failing, err = core.eval_bool_cases(ctx, HEADER, terms, shard_size=150, name="c13")
    if err:
        ctx.violation("correspondence shards did not evaluate: " + err[:300], dict(kind="coq-eval", log=err), no_input=True)
        return
    ctx.coverage["traces_validated_against_impl"] = len(terms) - len(failing)
    ctx.coverage["evaluations"] += len(terms)
    if failing:
        m = metas[failing[0]]
        detail = ""
        if m.get("parts"):
            names = list(m["parts"])
            f2, err2 = core.eval_bool_cases(ctx, HEADER, [m["parts"][n] for n in names], name="c13diag")
            if not err2:
                detail = " (disagreeing components: %s)" % ", ".join(names[i] for i in f2)
        m = {k: v for k, v in m.items() if k != "parts"}
        ctx.violation("model/IsoTime.v and the implementation disagree on %d of %d cases, first: %s%s" % (
            len(failing), len(terms), json.dumps(m, default=repr)[:400], detail),
            dict(kind="correspondence", correspondence="C13 values vs model/IsoTime.v", first=m,
                 failing=[json.dumps({k: v for k, v in metas[i].items() if k != "parts"}, default=repr)[:300] for i in failing[:10]]),
            no_input=True)
        return
    dfails, nsub = display_checks(ctx, specs, known_classes)
    for s in display_specs(specs):
        for k in range(len(SETTINGS)):
            ctx.count_case(spec_key(s) + ("display", k), nontrivial=True)
    if report(ctx, dfails):
        return
    kinds = {}
    for s in specs:
        k = "%s/%s%s" % (s["form"], s["tz"]["kind"], "/" + s["class"] + str(s["tz"].get("fold")) if s.get("class") else "")
        kinds[k] = kinds.get(k, 0) + 1
    ctx.coverage["input_distribution"] = kinds
    refused = sum(1 for b in backs["avro"].values() if b[0] == "EXC")
    ctx.notes.append("%d inputs x 4 formats; %d Coq correspondence terms; %d legacy-Avro (plain long) values; "
                     "%d Avro instants outside years 1..9999 refused with OverflowError on reading" % (
                         len(specs), len(terms), len(legacy), refused))
    for s in specs[:: max(1, len(specs) // 6)]:
        if s["i"] in recs:
            ctx.sample(dict(input=describe(dict(kind="x", why="", spec=s)), field=list(obs(recs[s["i"]].ts)),
                            isoformat=recs[s["i"]].ts.isoformat(),
                            back={f: list(backs[f][s["i"]]) for f in FORMATS}))


def replay(obj):
    kind = obj.get("kind")
    spec = obj.get("spec")
    if kind in ("coercion", "roundtrip") and spec:
        class _C:
            work = core.WORK / ("C13.replay.%d" % os.getpid())
        _C.work.mkdir(parents=True, exist_ok=True)
        try:
            recs, fails = make_records([spec])
            if not fails:
                for fmt in ([obj["format"]] if kind == "roundtrip" else FORMATS):
                    b = roundtrip(fmt, recs, str(_C.work))[spec["i"]]
                    why = judge(fmt, obs(recs[spec["i"]].ts), b)
                    print("replay %s -> field %s, %s read back %s%s" % (describe(dict(kind="x", why="", spec=spec)),
                                                                          list(obs(recs[spec["i"]].ts)), fmt, list(b), " : " + why if why else ""))
                    if why:
                        fails.append(why)
            else:
                print("replay: " + describe(fails[0]))
            return 1 if fails else 0
        finally:
            import shutil
            shutil.rmtree(_C.work, ignore_errors=True)
    if kind == "construction" and spec and spec.get("form") in ("object", "epoch_int", "epoch_float"):
        import shutil
        work = core.WORK / ("C13.replay.%d" % os.getpid())
        work.mkdir(parents=True, exist_ok=True)
        try:
            fails, n, _ = construction_impl([spec], str(work), "quick")
            fails = [f for f in fails if f.get("form") == obj.get("form") and classify(f) is None]
            for f in fails[:3]:
                print("replay: " + describe(f))
            if not fails:
                print("replay: construction form %s holds for %s (%d forms run)" % (obj.get("form"), describe(dict(kind="x", why="", spec=spec)), n))
            return 1 if fails else 0
        finally:
            shutil.rmtree(work, ignore_errors=True)
    if kind in ("route", "sqlite-evolution") and spec:
        import shutil

        class _C2:
            work = core.WORK / ("C13.replay.%d" % os.getpid())
            tier = "quick"
            notes = []

            @staticmethod
            def count_case(*a, **k):
                pass
        _C2.work.mkdir(parents=True, exist_ok=True)
        try:
            if kind == "route":
                fails = [f for f in route_checks(_C2, [spec], count=False) if f.get("route") == obj.get("route")]
            else:
                recs, fails = make_records([spec])
                if not fails:
                    fails = [f for f in evolution_checks(_C2, [spec], recs, count=False) if f.get("scenario") == obj.get("scenario")]
            for f in fails[:3]:
                print("replay: " + describe(f))
            if not fails:
                print("replay: %s holds for %s" % (kind, describe(dict(kind="x", why="", spec=spec))))
            return 1 if fails else 0
        finally:
            shutil.rmtree(_C2.work, ignore_errors=True)
    print("replay of kind %s: re-run ./check C13" % kind)
    return 2


if __name__ == "__main__":
    if len(sys.argv) == 4 and sys.argv[1] == "child":
        child_main(sys.argv[2], sys.argv[3])
    elif len(sys.argv) == 5 and sys.argv[1] == "forms":
        forms_main(sys.argv[2], sys.argv[3], sys.argv[4])
    elif len(sys.argv) == 5 and sys.argv[1] == "smoke":
        smoke_main(sys.argv[2], sys.argv[3], sys.argv[4])
