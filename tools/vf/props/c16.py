"""C16 -- rdump output is the specified slice of the filtered input.

proof:   coq/props/C16.v  (theorems about model/Rdump.v instantiated with the GENERATED shapes of rdump.main and
         record_stream, gen/Gen_rdump.v)
tie:     (T) gen/Gen_rdump.v is regenerated from rdump.py / stream.py on every run and the theorems depend on it;
         (C) rdump.main(argv) is run in-process (and as a subprocess for some stdout cases) over generated
         multi-type inputs in several files and compressions, with a faulty source at every position, for sampled
         option combinations; its output is compared record by record with a Python reference pipeline, and the
         model's `written` / `final_uri` / `uses_compiled` / `processed` are evaluated inside Coq on the same
         option tuples and compared with what the implementation did (record identities written, the URI handed
         to RecordWriter, the selector class handed to record_stream).
"""
from __future__ import annotations

import csv
import datetime as pydt
import gzip
import io
import json
import logging
import os
import random
import re
import shutil
import subprocess
import sys
import time

from vf import core
from vf.coqlit import cbool, clist, cstr

THEOREMS = [
    "C16_generated_record_side", "C16_generated_uri_side", "C16_generated_query_parameters", "C16_generated_split",
    "C16_generated_dataflow", "C16_islice", "C16_spec", "C16_written", "C16_identity", "C16_count_zero_unlimited",
    "C16_mode_independent", "C16_engine_flag", "C16_engine_independent", "C16_abort_flushed", "C16_failure_isolated",
    "C16_record_stream", "C16_uri_carries_query", "C16_writer_uri_verbatim", "C16_unparenthesised_join_refuted",
    "C16_split_uri", "C16_split_uri_parameters", "C16_split_uri_plain", "C16_generated_expand_metadata",
    "C16_multi_timestamp", "C16_multi_timestamp_uncopied_metadata_refuted", "C16_hyp_satisfiable",
]

RESERVED = ["_source", "_classification", "_generated", "_version"]
EXTRA_TYPES = ["string", "varint", "uint16", "uint32", "boolean", "float", "bytes", "datetime", "path", "uri",
               "net.ipaddress", "net.ipnetwork", "filesize", "unix_file_mode", "digest", "wstring", "string[]", "varint[]",
               "command", "command[]", "path[]", "net.ipaddress[]", "net.ipnetwork[]", "digest[]", "datetime[]", "filesize[]",
               "float[]", "boolean[]", "bytes[]", "uri[]", "unix_file_mode[]", "record", "record[]", "command", "float", "path"]
S_POOL = ["x", "ab", "xa", "a b", "", "x,y", 'q"uote', "hé", "'single'", " lead"]
GEN_TIMES = [pydt.datetime(2023, 5, 6, 7, 8, 9, 123456, tzinfo=pydt.timezone.utc),
             pydt.datetime(2023, 5, 6, 7, 8, 9, tzinfo=pydt.timezone.utc),
             pydt.datetime(1999, 12, 31, 23, 59, 59, tzinfo=pydt.timezone(pydt.timedelta(hours=2)))]


# ------------------------------------------------------------------------------------------------
# selectors of the fragment both engines agree on (C07) with their Python meaning; a comparison on a field the
# record lacks is False (C08)

def _has(v, n):
    return n in v["names"]


def _get(v, n):
    return v["vals"][v["names"].index(n)]


def _cmp(n, f):
    return lambda v: _has(v, n) and f(_get(v, n))


SELECTORS = [
    ("r.n > 3", _cmp("n", lambda x: x > 3)),
    ("r.s == 'x'", _cmp("s", lambda x: x == "x")),
    ("'a' in r.s", _cmp("s", lambda x: "a" in x)),
    ("r.n in [1, 2]", _cmp("n", lambda x: x in (1, 2))),
    ("r.n > 3 and r.s == 'x'", lambda v: _cmp("n", lambda x: x > 3)(v) and _cmp("s", lambda x: x == "x")(v)),
    ("r.n <= 2 or not (r.s == 'ab')", lambda v: _cmp("n", lambda x: x <= 2)(v) or not _cmp("s", lambda x: x == "ab")(v)),
    ("r.uid >= 0", _cmp("uid", lambda x: x >= 0)),
    ("r.n == 99", _cmp("n", lambda x: x == 99)),
    # helpers that look at the record's DECLARED fields (reserved fields are not among them)
    ("has_field(r, '_source')", lambda v: False),
    ("has_field(r, 'user') and r.uid >= 0", lambda v: _has(v, "user")),
    ("Type.string == 'src'", lambda v: any(t == "string" and x == "src" for (t, _), x in zip(v["fields"], v["vals"]))),
]


# ------------------------------------------------------------------------------------------------
# views: what a record is for the reference pipeline (no library object is built by the reference)

def view_of(rec):
    """The declared shape of a record: its type name, its declared (type, name) tuples, the values, the four
    reserved fields.  A grouped record is the flat view over its members (the first member that declares a name
    owns it, reserved fields included); `allkeys` is the order in which the flat view lists all names."""
    from flow.record import GroupedRecord
    if isinstance(rec, GroupedRecord):
        members = [view_of(m) for m in rec.records]
        ft, vals, allkeys = [], [], []
        for m in members:
            for (t, n), x in zip(m["fields"], m["vals"]):
                if n not in allkeys:
                    allkeys.append(n)
                    ft.append((t, n))
                    vals.append(x)
            for k in RESERVED:
                if k not in allkeys:
                    allkeys.append(k)
        return dict(name=rec.name, fields=ft, names=[n for _, n in ft], vals=vals, meta=dict(members[0]["meta"]),
                    members=members, allkeys=allkeys)
    ft = [(t, n) for t, n in rec._desc.get_field_tuples()]
    return dict(name=rec._desc.name, fields=ft, names=[n for _, n in ft], vals=[getattr(rec, n) for _, n in ft],
                meta=dict(_source=rec._source, _classification=rec._classification, _generated=rec._generated,
                          _version=rec._version))


def all_keys(v):
    return v.get("allkeys") or (v["names"] + RESERVED)


def uid_of(v):
    return int(_get(v, "uid")) if "uid" in v["names"] else None


_INNER = {}


def inner_record(rnd, gen, depth=0):
    """a nested record value (field types record / record[])"""
    from flow.record import RecordDescriptor
    if "d" not in _INNER:
        _INNER["d"] = RecordDescriptor("c16/inner", [("string", "a"), ("varint", "b"), ("path", "p"), ("command", "c"),
                                                     ("float", "f"), ("datetime", "t")])
    kw = dict(a=safe_value(rnd, gen, "string"), b=safe_value(rnd, gen, "varint"), p=safe_value(rnd, gen, "path"),
              c=safe_value(rnd, gen, "command"), f=safe_value(rnd, gen, "float"), t=GEN_TIMES[rnd.randrange(len(GEN_TIMES))])
    return _INNER["d"].recordType(_source=rnd.choice([None, "in"]), _classification=None, _generated=GEN_TIMES[0], **kw)


def safe_value(rnd, gen, t):
    """a value of the field type that every output mode can show as text: no line breaks / NUL / DEL / surrogates in
    text, no filesize beyond what its text form supports (C20's findings); everything else the type accepts,
    float specials included"""
    if t == "record":
        return None if rnd.random() < 0.2 else inner_record(rnd, gen)
    if t == "record[]":
        return [inner_record(rnd, gen) for _ in range(rnd.randrange(3))]
    for _ in range(50):
        v = gen.value(t, 0)
        ok = True
        for x in (v if isinstance(v, list) else [v]):
            if isinstance(x, str) and (any(c in x for c in "\n\r\x00\x7f") or len(x) > 300 or any(0xD800 <= ord(c) <= 0xDFFF for c in x)):
                ok = False
            if t.startswith("filesize") and x is not None and abs(x) >= 10**15:
                ok = False
            if t.startswith("path") and x is not None and any(0xD800 <= ord(c) <= 0xDFFF for c in str(x)):
                ok = False
        if ok:
            return v
    return None


class SourceProblem(Exception):
    pass


class Dataset:
    """2-4 good sources (.records / .records.gz / .jsonl / .records.bz2) of 5-30 multi-type records, and the
    faulty sources derived from them.  Everything derives from random.Random(seed * 1000 + idx)."""

    def __init__(self, seed, idx, workdir):
        from flow.record import RecordDescriptor, RecordWriter
        from vf import recgen
        self.seed, self.idx = seed, idx
        rnd = self.rnd = random.Random(seed * 1000 + idx)
        self.dir = os.path.join(str(workdir), "ds%d" % idx)
        shutil.rmtree(self.dir, ignore_errors=True)
        os.makedirs(self.dir)
        gen = recgen.Gen(rnd, types=EXTRA_TYPES, nested=False)
        self.descs = []
        for k in range(rnd.randint(3, 4)):
            fields = [("varint", "uid")]
            if k != 1:
                fields.append(("varint", "n"))
            if k != 2:
                fields.append(("string", "s"))
            for j in range(rnd.randint(1, 3)):
                fields.append((rnd.choice(EXTRA_TYPES), "e%d" % j))
            if k in (0, 3):
                fields.append(("datetime", "d1"))
            if k == 0:
                fields.append(("datetime", "d2"))
            rnd.shuffle(fields)
            self.descs.append(RecordDescriptor("c16/t%d" % k, fields))
        # "schema evolution": record types that share a NAME with an earlier one but not their fields
        base0 = list(self.descs[0].get_field_tuples())
        self.descs.append(RecordDescriptor("c16/t0", base0 + [("string", "user")]))
        base1 = [f for f in self.descs[1].get_field_tuples() if f[1] != "s"]
        self.descs.append(RecordDescriptor("c16/t1", [("string", "user"), ("varint", "n")] + base1))
        e_only = [f for f in self.descs[2].get_field_tuples() if not f[1].startswith("e")]
        self.descs.append(RecordDescriptor("c16/t2", e_only))
        # record types that themselves have fields called ts / ts_description: in the first two positions (what an
        # expanded record looks like), in later positions, only one of them, `ts` that is not a datetime
        self.descs.append(RecordDescriptor("c16/ts0", [("datetime", "ts"), ("string", "ts_description"), ("varint", "uid"),
                                                       ("datetime", "d1"), ("varint", "n"), ("datetime", "d2")]))
        self.descs.append(RecordDescriptor("c16/ts1", [("varint", "uid"), ("string", "s"), ("datetime", "d1"),
                                                       ("string", "ts_description"), ("datetime", "ts")]))
        self.descs.append(RecordDescriptor("c16/ts2", [("varint", "uid"), ("string", "ts_description"), ("datetime", "d1")]))
        self.descs.append(RecordDescriptor("c16/ts3", [("string", "ts"), ("varint", "uid"), ("datetime", "d2"), ("varint", "n")]))
        self.descs.append(RecordDescriptor("c16/ts4", [("datetime", "ts"), ("string", "ts_description"), ("varint", "uid")]))
        # one record type with a field of EVERY field type (and one that a JSON source can hold)
        every = sorted(set(EXTRA_TYPES))
        self.descs.append(RecordDescriptor("c16/all", [("varint", "uid"), ("varint", "n"), ("string", "s")]
                                           + [(t, "f%d" % i) for i, t in enumerate(every)]))
        self.descs.append(RecordDescriptor("c16/alljson", [("varint", "uid"), ("string", "s")]
                                           + [(t, "f%d" % i) for i, t in enumerate(every) if not t.startswith(("command", "record"))]))
        self.sources = {}       # name -> dict(path, kind, views, exc)
        self.good = []
        uid = idx * 1000
        exts = ["records", "records.gz", "jsonl"] + [rnd.choice(["records.lz4", "records.bz2", "records.zst", "jsonl", "records"])]
        ngood = rnd.randint(2, 4)
        state = dict(uid=uid)

        def make(d):
            kw = {}
            for t, n in d.get_field_tuples():
                if n == "uid":
                    kw[n] = state["uid"]
                elif n == "n":
                    kw[n] = rnd.choice([0, 1, 2, 3, 4, 5, 7, 99])
                elif n == "s":
                    kw[n] = rnd.choice(S_POOL)
                elif n == "user":
                    kw[n] = rnd.choice(["alice", "bob", "x"])
                elif n == "ts_description":
                    kw[n] = rnd.choice(["own text", "d1", ""])
                elif n == "ts":
                    kw[n] = pydt.datetime(1990 + rnd.randrange(10), 6, 7, 8, 9, 10, tzinfo=pydt.timezone.utc) if t == "datetime" else "own ts"
                elif n in ("d1", "d2"):
                    kw[n] = rnd.choice([None, GEN_TIMES[0], pydt.datetime(2001, 2, 3, 4, 5, 6, tzinfo=pydt.timezone.utc)]) \
                        if n == "d2" else pydt.datetime(2010 + rnd.randrange(10), 1, 2, 3, 4, 5, tzinfo=pydt.timezone.utc)
                else:
                    kw[n] = safe_value(rnd, gen, t)
            state["uid"] += 1
            return d.recordType(_source=rnd.choice([None, "src", "hé"]), _classification=rnd.choice([None, "secret"]),
                                _generated=rnd.choice(GEN_TIMES), **kw)

        for g in range(ngood):
            ext = exts[g]
            path = os.path.join(self.dir, "good%d.%s" % (g, ext))
            nrec = rnd.randint(5, 30)
            pool = self.descs
            if ext == "jsonl":
                # the JSON reader cannot read a command value back (C14's subject): a JSON source holds the other types
                pool = [d for d in self.descs if not any(t.startswith(("command", "record")) for t, _ in d.get_field_tuples())]
            with RecordWriter(path) as w:
                for _ in range(nrec):
                    w.write(make(rnd.choice(pool)))
            name = "good%d" % g
            self.good.append(name)
            self._register(name, path, "good", expect=nrec)
        # a source in which grouped records are followed by plain records of their member types
        from flow.record import GroupedRecord
        path = os.path.join(self.dir, "goodg.%s" % ("records" if idx % 2 == 0 else "records.gz"))
        nrec = 0
        with RecordWriter(path) as w:
            for _ in range(rnd.randint(1, 3)):
                w.write(make(rnd.choice(self.descs)))
                nrec += 1
            for gi in range(rnd.randint(2, 4)):
                ms = rnd.sample(self.descs, rnd.randint(2, 3))
                if gi == 0:
                    ms = [self.descs[1], self.descs[2]]       # a group whose flat view has no datetime field
                w.write(GroupedRecord("c16/g%d" % (gi % 2), [make(d) for d in ms]))
                nrec += 1
                for d in ms + [rnd.choice(self.descs)]:
                    if rnd.random() < 0.8:
                        w.write(make(d))
                        nrec += 1
        self.good.append("goodg")
        self._register("goodg", path, "good_grouped", expect=nrec)
        # compressed sources under neutral file names: the codec has to be found from the magic bytes
        codecs = ["gz", "bz2", "lz4", "zst"]
        for j, codec in enumerate([codecs[idx % 4], codecs[(idx + 2) % 4]]):
            canon = os.path.join(self.dir, "neutral%d.records.%s" % (j, codec))
            nrec = rnd.randint(5, 12)
            try:
                with RecordWriter(canon) as w:
                    for _ in range(nrec):
                        w.write(make(rnd.choice(self.descs)))
            except RuntimeError:
                continue        # codec module not available
            path = os.path.join(self.dir, ("rotated%d.records.%s.1" % (j, codec)) if j == 0 else ("events%d.bin" % j))
            shutil.copyfile(canon, path)
            name = "neutral_%s" % codec
            self.good.append(name)
            self._register(name, path, "good_neutral_%s" % codec, expect=nrec, read_from=canon)
        self.neutral = [n for n in self.good if n.startswith("neutral_")]
        uid = state["uid"]
        # faulty sources
        p = os.path.join(self.dir, "missing.records")
        self._register("missing", p, "missing")
        rec_src = [n for n in self.good if self.sources[n]["path"].endswith(".records")][0]
        raw = open(self.sources[rec_src]["path"], "rb").read()
        cut = self._frame_cut(raw, rnd)
        p = os.path.join(self.dir, "trunc.records")
        open(p, "wb").write(raw[:cut])
        self._register("trunc_records", p, "trunc_records")
        gz_src = [n for n in self.good if self.sources[n]["path"].endswith(".records.gz")][0]
        rawgz = open(self.sources[gz_src]["path"], "rb").read()
        p = os.path.join(self.dir, "trunc.records.gz")
        open(p, "wb").write(rawgz[:rnd.randint(len(rawgz) // 3, len(rawgz) * 3 // 4)])
        self._register("trunc_gz", p, "trunc_gz")
        jl = [n for n in self.good if self.sources[n]["path"].endswith(".jsonl")]
        if jl:
            rawj = open(self.sources[jl[0]]["path"], "rb").read()
            lines = rawj.split(b"\n")
            k = rnd.randint(len(lines) // 2, len(lines) - 2)
            cutj = len(b"\n".join(lines[:k])) + 1 + max(1, len(lines[k]) // 2)
            p = os.path.join(self.dir, "trunc.jsonl")
            open(p, "wb").write(rawj[:cutj])
            self._register("trunc_jsonl", p, "trunc_jsonl")
        p = os.path.join(self.dir, "garbage.records")
        open(p, "wb").write(bytes(rnd.randrange(256) for _ in range(rnd.randint(20, 400))))
        self._register("garbage", p, "garbage")
        p = os.path.join(self.dir, "empty.records")
        open(p, "wb").write(b"")
        self._register("empty", p, "empty")
        # compressed record files cut 3-12 bytes after the magic (the stream header cannot be decompressed), with the
        # extension and without it (compression detected from the magic)
        plain = raw
        packed = {"gz": (gzip.compress(plain), 2)}
        try:
            import bz2
            packed["bz2"] = (bz2.compress(plain), 3)
        except ImportError:
            pass
        try:
            import lz4.frame
            packed["lz4"] = (lz4.frame.compress(plain), 4)
        except ImportError:
            pass
        try:
            import zstandard
            packed["zst"] = (zstandard.ZstdCompressor().compress(plain), 4)
        except ImportError:
            pass
        for cname, (data, mlen) in packed.items():
            cutc = mlen + rnd.randint(3, 12)
            p = os.path.join(self.dir, "cutearly.records.%s" % cname)
            open(p, "wb").write(data[:cutc])
            self._register("cutearly_%s" % cname, p, "cutearly_%s" % cname)
        cname = rnd.choice(sorted(packed))
        p = os.path.join(self.dir, "cutearly_noext.records")
        open(p, "wb").write(packed[cname][0][:packed[cname][1] + rnd.randint(3, 12)])
        self._register("cutearly_noext", p, "cutearly_noext_%s" % cname)
        # garbage in the other input formats
        p = os.path.join(self.dir, "garbage.csv")
        open(p, "wb").write(b"\xff\xfe" + bytes(rnd.randrange(128, 256) for _ in range(rnd.randint(10, 200))))
        self._register("garbage_csv", p, "garbage_csv")
        try:
            import fastavro  # noqa: F401
            p = os.path.join(self.dir, "garbage.avro")
            open(p, "wb").write(bytes(rnd.randrange(256) for _ in range(rnd.randint(20, 300))))
            self._register("garbage_avro", p, "garbage_avro")
        except ImportError:
            pass
        p = os.path.join(self.dir, "garbage.jsonl")
        open(p, "wb").write(rnd.choice([b"\xff\xfe{{{\n", b"not json at all\n{]\n", b"[1, 2\n"]))
        self._register("garbage_jsonl", p, "garbage_jsonl")
        # sources on STANDARD INPUT (subprocess cases): the bytes of a file are piped in, the source is named by a
        # `-` URI of each reader that supports it; the intact prefix is what RecordReader yields from the file by path
        self.stdin = []

        def feed(name, uri, path, kind):
            src = dict(self.sources[path]) if path in self.sources else None
            if src is None:
                self._register(name, path, "good", expect=None)
                src = self.sources.pop(name)
            self.sources[name] = dict(src, path=uri, kind=kind, stdin_file=src["path"])
            self.stdin.append(name)
        first_rec = [n for n in self.good if self.sources[n]["path"].endswith(".records")][0]
        first_gz = [n for n in self.good if self.sources[n]["path"].endswith(".records.gz")][0]
        feed("stdin_stream", "-", first_rec, "stdin_stream")
        feed("stdin_stream_gz", "-", first_gz, "stdin_stream_gz")
        feed("stdin_stream_uri", "stream://-", first_rec, "stdin_stream_uri")
        jpath = os.path.join(self.dir, "feed.jsonl")
        jd = [d for d in self.descs if not any(t.startswith(("command", "record")) for t, _ in d.get_field_tuples())]
        with RecordWriter(jpath) as w:
            for _ in range(rnd.randint(4, 9)):
                w.write(make(rnd.choice(jd)))
        feed("stdin_json", "jsonfile://-", jpath, "stdin_json")
        cpath = os.path.join(self.dir, "feed.csv")
        with open(cpath, "w", newline="") as fh:
            cw = csv.writer(fh)
            cw.writerow(["uid", "n", "s", "free text", "_generated", "_source"])      # without _generated the reader stamps "now"
            for _ in range(rnd.randint(3, 8)):
                cw.writerow([state["uid"], rnd.randrange(10), rnd.choice(S_POOL), rnd.choice(["a,b", 'q"x', "plain", ""]),
                             "2022-03-04T05:06:07+00:00", rnd.choice(["csvsrc", ""])])
                state["uid"] += 1
        feed("stdin_csv", "csvfile://-", cpath, "stdin_csv")
        try:
            import fastavro  # noqa: F401
            apath = os.path.join(self.dir, "feed.avro")
            AD = RecordDescriptor("c16/avro", [("varint", "uid"), ("varint", "n"), ("string", "s"), ("datetime", "d1")])
            with RecordWriter(apath) as w:
                for _ in range(rnd.randint(3, 8)):
                    w.write(make(AD))
            feed("stdin_avro", "avro://-", apath, "stdin_avro")
            self.sources["stdin_avro_magic"] = dict(self.sources["stdin_avro"], path="-", kind="stdin_avro_magic")
            self.stdin.append("stdin_avro_magic")
        except ImportError:
            pass
        self.faults = [n for n in self.sources if n not in self.good and n not in self.stdin]
        self.all_views = {}
        for s in self.sources.values():
            for v in s["views"]:
                self.all_views[uid_of(v)] = v

    @staticmethod
    def _frame_cut(raw, rnd):
        """an offset strictly inside a frame (4-byte big-endian length + body) after a few whole frames"""
        offs = []
        pos = 0
        while pos + 4 <= len(raw):
            n = int.from_bytes(raw[pos:pos + 4], "big")
            offs.append((pos, n))
            pos += 4 + n
        k = rnd.randint(len(offs) // 2, len(offs) - 1)
        start, n = offs[k]
        return start + rnd.randint(1, 3 + max(1, n - 1))

    def _register(self, name, path, kind, expect=None, read_from=None):
        """The intact prefix of a source = what RecordReader yields before it raises.  A good source is read from
        the file the harness wrote (canonical extension) and has to yield exactly the records written."""
        from flow.record import RecordReader
        recs, exc, at_open = [], None, False
        try:
            at_open = True
            rd = RecordReader(read_from or path)
            at_open = False
            for r in rd:
                recs.append(r)
            rd.close()
        except Exception as e:  # noqa
            exc = e
        if expect is not None and (exc is not None or len(recs) != expect):
            raise SourceProblem(dict(kind="rdump-source", dataset=self.idx, dataset_seed=self.seed, source=name, source_kind=kind,
                                     file=os.path.basename(read_from or path),
                                     problem="RecordReader(%s) over a file holding the %d records the harness wrote with RecordWriter "
                                             "yields %d records%s" % (os.path.basename(read_from or path), expect, len(recs),
                                                                      "" if exc is None else " and raises %s: %s" % (type(exc).__name__, exc))))
        if exc is None:
            mk = "None" if kind.startswith("good") else "(Some CutCompressed)"
        elif isinstance(exc, OSError):
            mk = "(Some Missing)" if kind == "missing" else "(Some NotAStream)"
        elif at_open:
            mk = "(Some OpenError)"
        else:
            mk = {"trunc_records": "(Some CutRecord)", "trunc_jsonl": "(Some BadLine)", "garbage_jsonl": "(Some BadLine)"}.get(kind, "(Some OtherError)")
        views = [view_of(r) for r in recs]
        if any("uid" not in v["names"] for v in views):
            raise RuntimeError("harness: source %s (%s) yields records the datasets did not write" % (name, kind))
        self.sources[name] = dict(path=path, kind=kind, views=views, model_kind=mk,
                                  exc=None if exc is None else type(exc).__name__, at_open=bool(exc is not None and at_open))


# ------------------------------------------------------------------------------------------------
# reference pipeline

def comma(s):
    return s.split(",") if s else []


def ref_pipeline(ds, src_names, opt, views=None):
    """-> (selected views E (after override+projection), written views (after list/multi), info)
    views: the input records when they are not the sources' own (second pass over an earlier output)"""
    if views is None:
        views = []
        for n in src_names:
            views.extend(ds.sources[n]["views"])
    views = list(views)
    if opt.get("sel") is not None:
        pred = SELECTORS[opt["sel"]][1]
        views = [v for v in views if pred(v)]
    skip, count = opt.get("skip", 0), opt.get("count")
    views = views[skip:]
    if count:
        views = views[:count]
    fields, exclude = comma(opt.get("fields") or ""), comma(opt.get("exclude") or "")
    out = []
    for v in views:
        meta = dict(v["meta"])
        if opt.get("rsrc") is not None:
            meta["_source"] = opt["rsrc"]
        if opt.get("rcls") is not None:
            meta["_classification"] = opt["rcls"]
        if fields:
            ft = [(t, n) for f in fields for (t, n) in v["fields"] if n == f and f not in exclude]
        else:
            ft = [(t, n) for (t, n) in v["fields"] if n not in exclude]
        vals = [_get(v, n) for _, n in ft]
        if opt.get("expr"):
            # the harness's -E expressions only read reserved fields and produce one text field `tag`
            ft = ft + [("string", "tag")]
            vals = vals + ["%s|%s" % (meta["_source"], meta["_classification"])]
        e = dict(name=v["name"], fields=ft, names=[n for _, n in ft], vals=vals, meta=meta, uid=v.get("uid", uid_of(v)), expanded=False)
        if v.get("members") and not (fields or exclude or opt.get("expr")):
            # a grouped record passes unchanged; an override lands in the member that owns the reserved field
            ms = [dict(m) for m in v["members"]]
            ms[0] = dict(ms[0], meta=dict(meta, _generated=ms[0]["meta"]["_generated"], _version=ms[0]["meta"]["_version"]))
            e.update(members=ms, allkeys=v["allkeys"])
        out.append(e)
    written = []
    if not opt.get("list"):
        for e in out:
            if opt.get("multi"):
                dts = [(t, n) for t, n in e["fields"] if t == "datetime"]
                if not dts:
                    written.append(e)
                for _, dn in dts:
                    ft = [("datetime", "ts"), ("string", "ts_description")] + [(t, n) for t, n in e["fields"] if n not in ("ts", "ts_description")]
                    vals = [_get(e, dn), dn] + [_get(e, n) for _, n in ft[2:]]
                    written.append(dict(name=e["name"], fields=ft, names=[n for _, n in ft], vals=vals, meta=dict(e["meta"]),
                                        uid=e["uid"], expanded=True))
            else:
                written.append(e)
    return out, written


def desc_key(v):
    return (v["name"], tuple(v["fields"]))


def obs_view(v, with_meta=True):
    from vf import recgen
    vals = [recgen.obs_value(t, x) for (t, _), x in zip(v["fields"], v["vals"])]
    o = [v["name"], list(v["fields"]), vals]
    if with_meta:
        m = v["meta"]
        o.append([recgen.obs_value("string", m["_source"]), recgen.obs_value("string", m["_classification"]),
                  recgen.obs_value("datetime", m["_generated"]), recgen.obs_value("varint", m["_version"])])
        o.append([obs_view(x) for x in v["members"]] if v.get("members") else None)
    return recgen.canon(o)


def asdict_keys(v, wfields, wexclude):
    slots = all_keys(v)
    wexclude = wexclude or []
    if wfields:
        return [k for k in wfields if k in slots and k not in wexclude]
    return [k for k in slots if k not in wexclude]


def slot_value(v, k):
    return v["meta"][k] if k in RESERVED else _get(v, k)


def slot_type(v, k):
    return {"_source": "string", "_classification": "string", "_generated": "datetime", "_version": "varint"}[k] if k in RESERVED \
        else v["fields"][v["names"].index(k)][0]


_packers = {}


def canon_json(x):
    """parsed JSON with NaN made comparable"""
    if isinstance(x, float) and x != x:
        return "<NaN>"
    if isinstance(x, list):
        return [canon_json(y) for y in x]
    if isinstance(x, tuple):
        return tuple(canon_json(y) for y in x)
    return x


def json_form(t, x, file_mode=False):
    """the JSON form of a field value, as the field types define it (C14): JsonRecordPacker.pack_obj on the value;
    with descriptors (a .jsonl / jsonfile:// writer) a nested record carries its _type / _recorddescriptor"""
    from flow.record import JsonRecordPacker
    if file_mode not in _packers:
        _packers[file_mode] = JsonRecordPacker(pack_descriptors=file_mode)
    if t == "boolean" and isinstance(x, int):
        x = bool(x)
    return canon_json(json.loads(json.dumps(x, default=_packers[file_mode].pack_obj), object_pairs_hook=lambda p: p))


def json_doc(v, file_mode=False):
    return [(k, json_form(slot_type(v, k), slot_value(v, k), file_mode)) for k in all_keys(v)]


class _Missing(dict):
    def __missing__(self, key):
        return "{" + key + "}"


# ------------------------------------------------------------------------------------------------
# running the implementation

def build_argv(ds, src_names, opt, outdir):
    argv = [ds.sources[n]["path"] for n in src_names]
    if opt.get("sel") is not None:
        argv += ["-s", SELECTORS[opt["sel"]][0]]
    if opt.get("no_compile"):
        argv += ["-n"]
    if opt.get("skip"):
        argv += ["--skip", str(opt["skip"])]
    if opt.get("count") is not None:
        argv += ["--count", str(opt["count"])]
    if opt.get("fields"):
        argv += ["-F", opt["fields"]]
    if opt.get("exclude"):
        argv += ["-X", opt["exclude"]]
    if opt.get("expr"):
        argv += ["-E", opt["expr"]]
    if opt.get("rsrc") is not None:
        argv += ["--record-source", opt["rsrc"]]
    if opt.get("rcls") is not None:
        argv += ["--record-classification", opt["rcls"]]
    if opt.get("multi"):
        argv += ["--multi-timestamp"]
    if opt.get("list"):
        argv += ["-l"]
    if opt.get("verbose"):
        argv += ["-" + "v" * opt["verbose"]] if opt["verbose"] % 2 else ["-v"] * opt["verbose"]
    if opt.get("fmt"):
        argv += ["-f", opt["fmt"]]
    out = opt.get("out", "m:text")
    writer = None
    if out.startswith("w:"):
        writer = writer_uri(out, outdir)
        argv += ["-w", writer]
    elif out != "m:text":
        alias = {"m:json": "-j", "m:jsonlines": "-J", "m:csv": "-C", "m:line": "-L", "m:line-verbose": "-Lv"}
        argv += [alias[out]] if opt.get("alias") else ["-m", out[2:]]
    if opt.get("split") is not None:
        argv += ["--split", str(opt["split"])]
        if opt.get("suffix_length") is not None:
            argv += ["--suffix-length", str(opt["suffix_length"])]
    return argv, writer


def writer_uri(out, outdir):
    base = os.path.join(outdir, "out")
    return {"w:records": base + ".records", "w:records.gz": base + ".records.gz", "w:jsonl": base + ".jsonl",
            "w:csvfile": "csvfile://" + base + ".csv", "w:line": "line://" + base + ".txt",
            "w:jsonfile": "jsonfile://" + base + ".json?descriptors=true",
            "w:stream-uri": "stream://" + base + ".bin", "w:stdout": "-"}[out]


def out_path(out, outdir):
    base = os.path.join(outdir, "out")
    return {"w:records": base + ".records", "w:records.gz": base + ".records.gz", "w:jsonl": base + ".jsonl",
            "w:csvfile": base + ".csv", "w:line": base + ".txt", "w:jsonfile": base + ".json",
            "w:stream-uri": base + ".bin", "w:stdout": None}[out]


def run_main(argv):
    """rdump.main(argv) in-process; stdout captured; the URI handed to RecordWriter and the class of the selector
    handed to record_stream are recorded by wrapping the two names in rdump's namespace."""
    from flow.record.tools import rdump
    cap = dict(uri=None, selector=None, n_writers=0)
    orig_w, orig_rs = rdump.RecordWriter, rdump.record_stream

    def rw(uri, *a, **k):
        cap["uri"] = uri
        cap["n_writers"] += 1
        return orig_w(uri, *a, **k)

    def rs(sources, selector=None):
        cap["selector"] = type(selector).__name__
        return orig_rs(sources, selector)

    buf = io.BytesIO()
    old_out = sys.stdout
    tw = io.TextIOWrapper(buf, encoding="utf-8", newline="", write_through=True)
    rdump.RecordWriter, rdump.record_stream = rw, rs
    sys.stdout = tw
    logging.disable(logging.CRITICAL)
    exc = None
    rc = None
    old_err = sys.stderr
    sys.stderr = io.StringIO()
    try:
        try:
            rc = rdump.main(argv)
        except SystemExit as e:
            rc = "exit:%s" % (e.code,)
        except Exception as e:  # noqa
            exc = e
        try:
            tw.flush()
        except Exception:  # noqa
            pass
    finally:
        sys.stdout = old_out
        sys.stderr = old_err
        rdump.RecordWriter, rdump.record_stream = orig_w, orig_rs
        logging.disable(logging.NOTSET)
    data = buf.getvalue()
    return dict(rc=rc, exc=exc, stdout=data, uri=cap["uri"], selector=cap["selector"], tw=tw)


def read_back(path):
    from flow.record import RecordReader
    out = []
    rd = RecordReader(path)
    for r in rd:
        out.append(view_of(r))
    rd.close()
    return out


# ------------------------------------------------------------------------------------------------
# comparing one output with the reference

class Mismatch(Exception):
    pass


def compare_views(exp, got, st):
    """record-for-record, deep observation (fields, values and the four reserved fields)"""
    if len(exp) != len(got):
        raise Mismatch("%d records in the output, expected %d" % (len(got), len(exp)))
    for i, (e, g) in enumerate(zip(exp, got)):
        if obs_view(e, False) != obs_view(g, False):
            raise Mismatch("record %d differs: got %r, expected %r" % (i, obs_view(g, False), obs_view(e, False)))
        if obs_view(e) != obs_view(g):
            raise Mismatch("record %d metadata differs: got %r, expected %r" % (i, obs_view(g)[3], obs_view(e)[3]))


def compare_json_docs(exp, docs, st, file_mode=False):
    recs = []
    for d in docs:
        keys = [k for k, _ in d]
        if file_mode and dict(d).get("_type") == "recorddescriptor":
            continue
        if file_mode:
            d = [(k, x) for k, x in d if k not in ("_type", "_recorddescriptor")]
        recs.append(d)
    if len(recs) != len(exp):
        raise Mismatch("%d JSON records in the output, expected %d" % (len(recs), len(exp)))
    for i, (e, d) in enumerate(zip(exp, recs)):
        want = json_doc(e, file_mode)
        d = canon_json(d)
        if want != d:
            raise Mismatch("JSON record %d differs: got %r, expected %r" % (i, d, want))


def parse_json_stream(text):
    dec = json.JSONDecoder(object_pairs_hook=lambda p: p)
    docs = []
    pos = 0
    n = len(text)
    while True:
        while pos < n and text[pos] in " \r\n\t":
            pos += 1
        if pos >= n:
            break
        obj, pos = dec.raw_decode(text, pos)
        docs.append(obj)
    return docs


def compare_csv(exp, text, wfields, wexclude, st):
    rows = list(csv.reader(io.StringIO(text, newline="")))
    want = []
    prev = None
    hdr = None
    for e in exp:
        cols = asdict_keys(e, wfields, wexclude)
        if prev is None or prev != desc_key(e):
            prev = desc_key(e)
            hdr = cols
            want.append(("h", cols, e))
        # a row is written under the last header: two grouped records with the same flat descriptor may list the same
        # names in a different order (which member owns a name), the cells still go under their own column
        if sorted(cols) != sorted(hdr):
            raise Mismatch("harness: records with equal descriptors list different columns %r / %r" % (cols, hdr))
        want.append(("r", hdr, e))
    if len(rows) != len(want):
        raise Mismatch("%d CSV rows in the output, expected %d (records %d)" % (len(rows), len(want), len(exp)))
    for i, (row, (kind, cols, e)) in enumerate(zip(rows, want)):
        if kind == "h":
            if row != cols:
                raise Mismatch("CSV header row %d is %r, expected %r" % (i, row, cols))
            continue
        cells = ["" if slot_value(e, k) is None else str(slot_value(e, k)) for k in cols]
        if row != cells:
            raise Mismatch("CSV row %d is %r, expected %r" % (i, row, cells))


LINE_RE = re.compile(r"^ *([^ ]+)(?: \(([^)]*)\))? = (.*)$", re.S)


def compare_line(exp, text, wfields, wexclude, verbose, st):
    lines = text.split("\n")
    if lines and lines[-1] == "":
        lines.pop()
    blocks = []
    for ln in lines:
        m = re.match(r"^--\[ RECORD (\d+) \]--$", ln)
        if m:
            blocks.append((int(m.group(1)), []))
        elif not blocks:
            raise Mismatch("line output does not start with a record header: %r" % ln)
        else:
            mm = LINE_RE.match(ln)
            if not mm:
                raise Mismatch("unparsable line %r" % ln)
            blocks[-1][1].append((mm.group(1), mm.group(2), mm.group(3)))
    if len(blocks) != len(exp):
        raise Mismatch("%d line-mode records in the output, expected %d" % (len(blocks), len(exp)))
    for i, ((num, items), e) in enumerate(zip(blocks, exp)):
        if num != i + 1:
            raise Mismatch("record header %d has number %d" % (i + 1, num))
        cols = asdict_keys(e, wfields, wexclude)
        want = [(k, slot_type(e, k) if verbose else None, "{}".format(slot_value(e, k))) for k in cols]
        if want != items:
            raise Mismatch("line-mode record %d is %r, expected %r" % (i + 1, items, want))


def compare_text(exp, text, fmt, st):
    lines = text.split("\n")
    if lines and lines[-1] == "":
        lines.pop()
    want = []
    for e in exp:
        if fmt:
            d = _Missing((k, slot_value(e, k)) for k in all_keys(e))
            want.append(fmt.format_map(d))
        elif e.get("members"):
            want.append("<%s [%s]>" % (e["name"], ", ".join(
                "<%s %s>" % (m["name"], " ".join("%s=%r" % (k, _get(m, k)) for k in m["names"])) for m in e["members"])))
        else:
            want.append("<%s %s>" % (e["name"], " ".join("%s=%r" % (k, _get(e, k)) for k in e["names"])))
    if len(lines) != len(want):
        raise Mismatch("%d text lines in the output, expected %d" % (len(lines), len(want)))
    for i, (a, b) in enumerate(zip(lines, want)):
        if a != b:
            raise Mismatch("text line %d is %r, expected %r" % (i, a, b))


DEF_RE = re.compile(r'# <RecordDescriptor ([^,]+), hash=[0-9a-f]+>\nRecordDescriptor\("([^"]+)", \[\n((?:    \("[^"]+", "[^"]+"\),\n)*)\]\)\n\n')


def compare_list(sel_views, text):
    pos = 0
    got = []
    while True:
        m = DEF_RE.match(text, pos)
        if not m:
            break
        fields = re.findall(r'\("([^"]+)", "([^"]+)"\)', m.group(3))
        got.append((m.group(2), tuple(fields)))
        pos = m.end()
    tail = text[pos:]
    want = []
    for e in sel_views:
        k = (e["name"], tuple(e["fields"]) + (("string", "_source"), ("string", "_classification"), ("datetime", "_generated"), ("varint", "_version")))
        if k not in want:
            want.append(k)
    if got != want:
        raise Mismatch("-l listed descriptors %r, expected %r" % (got, want))
    if tail != "Processed %d records\n" % len(sel_views):
        raise Mismatch("-l ended with %r, expected 'Processed %d records'" % (tail[-80:], len(sel_views)))


def split_parts(outdir, out, suffix_length):
    base = out_path(out, outdir)
    stem, ext = os.path.splitext(base)
    if base.endswith(".records.gz"):
        # Path.with_suffix only replaces the last suffix: out.records.00.gz
        stem, ext = base[:-3], ".gz"
    parts = []
    k = 0
    while True:
        p = "%s.%s%s" % (stem, str(k).rjust(suffix_length, "0"), ext)
        if not os.path.exists(p):
            break
        parts.append(p)
        k += 1
    return parts


def check_output(ds, opt, res, outdir, sel_views, written, st):
    """Compare what the run produced with the reference.  Raises Mismatch."""
    out = opt.get("out", "m:text")
    if opt.get("abort"):
        return
    if res["exc"] is not None:
        raise Mismatch("rdump raised %s: %s" % (type(res["exc"]).__name__, res["exc"]))
    if res["rc"] not in (None, 0):
        raise Mismatch("rdump returned %r" % (res["rc"],))
    if out == "w:stdout":
        # `-w -`: a terminal gets the records' text form (one repr per line), anything else the binary record stream
        if opt.get("pty"):
            compare_text(written, res["stdout"].decode("utf-8"), None, st)
        else:
            from flow.record import RecordReader
            try:
                got = [view_of(r) for r in RecordReader(fileobj=io.BytesIO(res["stdout"]))] if (res["stdout"] or written) else []
            except Exception as e:  # noqa
                raise Mismatch("the record stream written to stdout is unreadable: %s: %s" % (type(e).__name__, e))
            compare_views(written, got, st)
        return
    text = res["stdout"].decode("utf-8")
    fields, exclude = comma(opt.get("fields") or "") or None, comma(opt.get("exclude") or "") or None
    if opt.get("list"):
        compare_list(sel_views, text)
        return
    if out.startswith("w:"):
        if text != "":
            raise Mismatch("-w given but stdout is not empty: %r" % text[:100])
        if opt.get("split"):
            parts = split_parts(outdir, out, opt.get("suffix_length") or 2)
            got = []
            if out == "w:jsonl":
                # JSON text level (reading JSON back into records is C14's subject)
                alldocs = []
                for i, p in enumerate(parts):
                    docs = [json.loads(ln, object_pairs_hook=lambda pr: pr) for ln in open(p, encoding="utf-8").read().split("\n") if ln]
                    nrec = len([d for d in docs if dict(d).get("_type") == "record"])
                    if (i < len(parts) - 1 and nrec != opt["split"]) or nrec > opt["split"]:
                        raise Mismatch("split part %d holds %d records, expected %d" % (i, nrec, opt["split"]))
                    alldocs.extend(docs)
                compare_json_docs(written, alldocs, st, file_mode=True)
                return
            for i, p in enumerate(parts):
                try:
                    vs = read_back(p)
                except Exception as e:  # noqa
                    # a part file that never received a record is C17's subject (0-byte stream file)
                    if os.path.getsize(p) == 0 and i == len(parts) - 1:
                        vs = []
                    else:
                        raise Mismatch("split part %s unreadable: %r" % (os.path.basename(p), e))
                if i < len(parts) - 1 and len(vs) != opt["split"]:
                    raise Mismatch("split part %d holds %d records, expected %d" % (i, len(vs), opt["split"]))
                if len(vs) > opt["split"]:
                    raise Mismatch("split part %d holds %d records, more than %d" % (i, len(vs), opt["split"]))
                got.extend(vs)
            compare_views(written, got, st)
            return
        p = out_path(out, outdir)
        if out in ("w:records", "w:records.gz", "w:stream-uri"):
            compare_views(written, read_back(p), st)
        elif out in ("w:jsonl", "w:jsonfile"):
            docs = [json.loads(ln, object_pairs_hook=lambda pr: pr) for ln in open(p, encoding="utf-8").read().split("\n") if ln]
            compare_json_docs(written, docs, st, file_mode=True)
        elif out == "w:csvfile":
            compare_csv(written, open(p, encoding="utf-8", newline="").read(), None, None, st)
        elif out == "w:line":
            compare_line(written, open(p, "rb").read().decode("utf-8"), None, None, False, st)
        return
    if out == "m:csv":
        compare_csv(written, text, fields, exclude, st)
    elif out in ("m:line", "m:line-verbose"):
        compare_line(written, text, fields, exclude, out == "m:line-verbose", st)
    elif out in ("m:json", "m:jsonlines"):
        compare_json_docs(written, parse_json_stream(text), st)
    else:
        compare_text(written, text, opt.get("fmt"), st)


def impl_uids(opt, res, outdir, written):
    """identities of the records the implementation wrote, when the output shows them"""
    out = opt.get("out", "m:text")
    try:
        if opt.get("list") or opt.get("abort"):
            return None
        if out in ("w:records", "w:records.gz", "w:stream-uri") and not opt.get("split"):
            vs = read_back(out_path(out, outdir))
            if all("uid" in v["names"] for v in vs):
                return [uid_of(v) for v in vs]
        if out in ("m:jsonlines", "m:json"):
            docs = parse_json_stream(res["stdout"].decode("utf-8"))
            if all("uid" in dict(d) for d in docs):
                return [int(dict(d)["uid"]) for d in docs]
    except Exception:  # noqa
        return None
    return None


# ------------------------------------------------------------------------------------------------
# Coq terms

COQ_HEADER = """From Coq Require Import List Bool String Ascii Arith NArith.
Import ListNotations.
From FR Require Import Rdump Gen_rdump.
Open Scope N_scope.
Definition memN (l : list N) (x : N) : bool := existsb (N.eqb x) l.
Fixpoint leqb (a b : list N) : bool :=
  match a, b with [], [] => true | x :: a', y :: b' => N.eqb x y && leqb a' b' | _, _ => false end.
Definition oseqb (a b : option string) : bool :=
  match a, b with Some x, Some y => String.eqb x y | None, None => true | _, _ => false end.
Fixpoint repeatN (x : N) (n : nat) : list N := match n with O => [] | S k => x :: repeatN x k end.
Fixpoint expand_of (tbl : list (N * nat)) (x : N) : list N :=
  match tbl with [] => [x] | (y, k) :: t => if N.eqb x y then repeatN x k else expand_of t x end.
Definition S_ (p : list N) (k : option kind) : source N := {| intact_prefix := p; failure := k |}.
Definition mk (skip : nat) (count : option nat) (nc : bool) (f x : string) (e src cls : option string) (multi lst : bool)
              (w m : option string) (fmt : string) (sp : option N) (sl : N) : opts :=
  {| o_skip := skip; o_count := count; o_no_compile := nc; o_fields := f; o_exclude := x; o_expr := e; o_source := src;
     o_class := cls; o_multi := multi; o_list := lst; o_writer := w; o_mode := m; o_format := fmt; o_split := sp;
     o_suffix_length := sl |}.
(* one case: the model's writes = the reference's = (when visible) the implementation's; processed count; URI;
   selector engine *)
Definition chk (srcs : list (source N)) (sel : list N) (tbl : list (N * nat)) (o : opts)
               (ref_written : list N) (impl_written : option (list N)) (nproc : nat)
               (uri_known : bool) (impl_uri : option string) (impl_compiled : option bool) : bool :=
  let w := written N (memN sel) (memN sel) (fun _ _ r => r) (fun _ _ _ r => r) (expand_of tbl) rdump_facts o srcs in
  leqb w ref_written
  && match impl_written with Some l => leqb w l | None => true end
  && Nat.eqb (processed N (memN sel) (memN sel) (fun _ _ r => r) (fun _ _ _ r => r) rdump_facts o srcs) nproc
  && (if uri_known then oseqb (final_uri rdump_facts o) impl_uri else true)
  && match impl_compiled with Some b => Bool.eqb (uses_compiled rdump_facts o) b | None => true end.
(* --multi-timestamp on one concrete record: names of the fields, ts_description, _source, _classification of
   every record the implementation wrote for it *)
Fixpoint number (i : N) (fs : list (string * bool)) : list cfield :=
  match fs with [] => [] | (n, d) :: t => {| cf_name := n; cf_dt := d; cf_val := VId i |} :: number (N.succ i) t end.
Definition mkc (name : string) (fs : list (string * bool)) (src cls : option string) : crec :=
  {| c_name := name; c_fields := number 0 fs; c_meta := {| m_source := src; m_class := cls; m_generated := 1 |} |}.
Definition summ (r : crec) : list string * string * option string * option string :=
  (map cf_name (c_fields r),
   match c_fields r with _ :: {| cf_val := VText s |} :: _ => s | _ => EmptyString end,
   m_source (c_meta r), m_class (c_meta r)).
Fixpoint lseqb (a b : list string) : bool :=
  match a, b with [], [] => true | x :: a', y :: b' => String.eqb x y && lseqb a' b' | _, _ => false end.
Definition summ_eqb (a b : list string * string * option string * option string) : bool :=
  match a, b with (n1, d1, s1, c1), (n2, d2, s2, c2) => lseqb n1 n2 && String.eqb d1 d2 && oseqb s1 s2 && oseqb c1 c2 end.
Fixpoint all2 {A : Type} (f : A -> A -> bool) (a b : list A) : bool :=
  match a, b with [], [] => true | x :: a', y :: b' => f x y && all2 f a' b' | _, _ => false end.
Definition xchk (r : crec) (impl : list (list string * string * option string * option string)) : bool :=
  all2 summ_eqb (map summ (expand_impl (f_expand_meta rdump_facts) 0 r)) impl.
"""


def cN(n):
    return "%d" % n


def cNlist(l):
    return "[" + "; ".join("%d" % x for x in l) + "]"


def costr(s):
    return "None" if s is None else "(Some %s)" % cstr(s)


def coq_case(ds, src_names, opt, sel_views, written, res, writer, impl_ids):
    srcs = clist(["S_ %s %s" % (cNlist([uid_of(v) for v in ds.sources[n]["views"]]), ds.sources[n]["model_kind"]) for n in src_names])
    if opt.get("sel") is not None:
        pred = SELECTORS[opt["sel"]][1]
        sel = [u for n in src_names for u in (uid_of(v) for v in ds.sources[n]["views"] if pred(v))]
    else:
        sel = [uid_of(v) for n in src_names for v in ds.sources[n]["views"]]
    tbl = []
    if opt.get("multi"):
        cnt = {}
        for e in sel_views:
            cnt[e["uid"]] = max(1, len([1 for t, _ in e["fields"] if t == "datetime"]))
        tbl = ["(%d, %d%%nat)" % (u, k) for u, k in cnt.items() if k != 1]
    out = opt.get("out", "m:text")
    mode = None if out.startswith("w:") or out == "m:text" else out[2:]
    o = "(mk %d%%nat %s %s %s %s %s %s %s %s %s %s %s %s %s %s)" % (
        opt.get("skip", 0), "None" if opt.get("count") is None else "(Some %d%%nat)" % opt["count"],
        cbool(opt.get("no_compile")), cstr(opt.get("fields") or ""), cstr(opt.get("exclude") or ""), costr(opt.get("expr")),
        costr(opt.get("rsrc")), costr(opt.get("rcls")), cbool(opt.get("multi")), cbool(opt.get("list")),
        costr(writer), costr(mode), cstr(opt.get("fmt") or ""),
        "None" if opt.get("split") is None else "(Some %d)" % opt["split"],
        "%d" % (opt.get("suffix_length") if opt.get("suffix_length") is not None else 2))
    usage_error = res["rc"] == "exit:2"
    uri_known = usage_error or res["uri"] is not None
    compiled = None
    if res["selector"] is not None and opt.get("sel") is not None:
        compiled = res["selector"] == "CompiledSelector"
    ascii_ok = all(ord(c) < 128 for c in (res["uri"] or "") + (opt.get("fields") or "") + (opt.get("exclude") or "") + (opt.get("fmt") or ""))
    return "chk %s %s %s %s %s %s %d%%nat %s %s %s" % (
        srcs, cNlist(sel), clist(tbl), o, cNlist([w["uid"] for w in written]),
        "None" if impl_ids is None else "(Some %s)" % cNlist(impl_ids), len(sel_views),
        cbool(uri_known and ascii_ok), costr(None if usage_error else res["uri"]),
        "None" if compiled is None else "(Some %s)" % cbool(compiled))


# ------------------------------------------------------------------------------------------------
# option combinations

OUTS = ["w:records", "w:jsonl", "w:csvfile", "m:csv", "m:json", "m:jsonlines", "m:line", "m:text", "w:records.gz",
        "m:line-verbose", "w:line", "w:jsonfile", "w:stream-uri", "w:stdout"]
FIELDS = [None, "uid,n", "s,uid,zz", "uid,_source,n", "zz", "e0,uid,d1", "uid,user", "user,s,e1", "d1,uid,ts"]
EXCLUDES = [None, "s", "n,e0", "_generated", "zz", "uid", "user", "n", "ts", "ts_description,d2"]
EXPR = "tag = str(_source) + '|' + str(_classification)"
ABORT_EXPR = "q = str(10 // (n - 3))"


def random_opt(rnd, out=None):
    o = dict(skip=rnd.choice([0, 0, 1, 3, 100]), count=rnd.choice([None, None, 0, 1, 5]))
    if rnd.random() < 0.6:
        o["sel"] = rnd.randrange(len(SELECTORS))
        o["no_compile"] = rnd.random() < 0.5
    if rnd.random() < 0.4:
        o["fields"] = rnd.choice(FIELDS)
    if rnd.random() < 0.4:
        o["exclude"] = rnd.choice(EXCLUDES)
    if rnd.random() < 0.3:
        o["rsrc"] = rnd.choice(["SRC2", "", "a b&c"])
    if rnd.random() < 0.3:
        o["rcls"] = rnd.choice(["top", "x=y"])
    if rnd.random() < 0.15:
        o["expr"] = EXPR
    o["out"] = out or rnd.choice(OUTS)
    if rnd.random() < 0.3:
        o["verbose"] = rnd.randint(1, 5)
    if rnd.random() < 0.3 and o["out"].startswith("m:") and o["out"] != "m:text":
        o["alias"] = True
    if rnd.random() < 0.15:
        o["multi"] = True
    if rnd.random() < 0.08:
        o["list"] = True
    if o["out"] == "m:text" and rnd.random() < 0.5:
        o["fmt"] = rnd.choice(["{uid}:{n}", "{uid} {s!r} {_source}", "u={uid:>6}|{zz}"])
    if o["out"] in ("w:records", "w:jsonl", "w:records.gz") and rnd.random() < 0.25 and not o.get("list"):
        o["split"] = rnd.choice([1, 2, 3, 7])
        if rnd.random() < 0.4:
            o["suffix_length"] = rnd.choice([1, 3, 4])
    return o


def canonical(src_kinds, opt):
    return (tuple(src_kinds), tuple(sorted((k, v) for k, v in opt.items() if v not in (None, False))))


def run_sub(argv, use_pty=False, stdin_bytes=None):
    """the command line as a fresh process: python -m flow.record.tools.rdump; use_pty: its stdout is a terminal
    (a pseudo terminal in raw mode, the master side is read)"""
    cmd = [core.PY, "-m", "flow.record.tools.rdump"] + argv
    if not use_pty:
        p = subprocess.run(cmd, env=core.env_for_repo(), stdout=subprocess.PIPE, stderr=subprocess.PIPE, timeout=180,
                           **(dict(input=stdin_bytes) if stdin_bytes is not None else dict(stdin=subprocess.DEVNULL)))
        rc, out, err = p.returncode, p.stdout, p.stderr
    else:
        import pty
        import select
        import tty
        master, slave = pty.openpty()
        tty.setraw(slave)
        p = subprocess.Popen(cmd, env=core.env_for_repo(), stdin=subprocess.DEVNULL, stdout=slave, stderr=subprocess.PIPE)
        os.close(slave)
        chunks = []
        deadline = time.time() + 180
        while time.time() < deadline:
            r, _, _ = select.select([master], [], [], 0.2)
            if r:
                try:
                    data = os.read(master, 65536)
                except OSError:      # EIO: the child closed its side
                    break
                if not data:
                    break
                chunks.append(data)
            elif p.poll() is not None:
                # drain what is left
                try:
                    while select.select([master], [], [], 0.05)[0]:
                        data = os.read(master, 65536)
                        if not data:
                            break
                        chunks.append(data)
                except OSError:
                    pass
                break
        err = p.stderr.read()
        try:
            p.wait(timeout=30)
        except subprocess.TimeoutExpired:
            p.kill()
        os.close(master)
        rc, out = p.returncode, b"".join(chunks)
    return dict(rc="exit:2" if rc == 2 else rc, exc=None, stdout=out, uri=None, selector=None,
                stderr=err[-800:].decode("utf-8", "replace"))


def run_one(ctx, ds, src_names, opt, outdir, st, coq_cases, metas, rnd=None, sub=False):
    """Run one case against implementation and reference.  Returns a replay object on mismatch, else None.
    sub: run the command line as a subprocess (no URI / selector capture)."""
    shutil.rmtree(outdir, ignore_errors=True)
    os.makedirs(outdir)
    feeds = [ds.sources[n]["stdin_file"] for n in src_names if ds.sources[n].get("stdin_file")]
    stdin_bytes = None
    if feeds:
        sub = True
        stdin_bytes = open(feeds[0], "rb").read()
    stage1_problem, stage1_argv = None, None
    if opt.get("twice"):
        # the output of `rdump <sources> --multi-timestamp` is the input of the run under test
        stage1 = os.path.join(outdir, "stage1.records")
        stage1_argv = [ds.sources[n]["path"] for n in src_names] + ["--multi-timestamp", "-w", stage1]
        r1 = run_sub(stage1_argv) if sub else run_main(stage1_argv)
        r1.pop("tw", None)
        _, views1 = ref_pipeline(ds, src_names, dict(multi=True))
        try:
            got1 = read_back(stage1)
            compare_views(views1, got1, st)
            # The input of the second pass is what RecordReader yields from stage1.records (as for every source), not
            # the reference's in-memory values: a stream round trip keeps the deep observation but may change a text
            # form (a digest given in upper-case hex is printed in lower case after it went through the stream).
            for g, v in zip(got1, views1):
                g["uid"] = v.get("uid")
            views1 = got1
        except Exception as e:  # noqa
            stage1_problem = "first pass (rdump <sources> --multi-timestamp -w stage1.records): %s" % e
        argv, writer = build_argv(ds, [], opt, outdir)
        argv = [stage1] + argv
        sel_views, written = ref_pipeline(ds, src_names, opt, views=views1)
    else:
        argv, writer = build_argv(ds, src_names, opt, outdir)
        sel_views, written = ref_pipeline(ds, src_names, opt)
    res = run_sub(argv, use_pty=bool(opt.get("pty")), stdin_bytes=stdin_bytes) if sub else run_main(argv)
    if sub and res["rc"] not in (0, "exit:2"):
        res["exc"] = RuntimeError("exit status %s: %s" % (res["rc"], res["stderr"].strip().splitlines()[-1:] or ""))
    meta = dict(subprocess=bool(sub), kind="rdump-case", dataset=ds.idx, dataset_seed=ds.seed, sources=list(src_names), opt=opt,
                argv=[a.replace(str(ctx.work) if ctx is not None else "\0", "{W}") for a in argv],
                source_kinds=[ds.sources[n]["kind"] for n in src_names])
    if stage1_argv:
        meta["stage1_argv"] = [a.replace(str(ctx.work) if ctx is not None else "\0", "{W}") for a in stage1_argv]
    problem = None
    try:
        if stage1_problem:
            raise Mismatch(stage1_problem)
        if opt.get("abort"):
            check_abort(ds, src_names, opt, res, outdir, st)
        elif opt.get("split") and not writer:
            if res["rc"] != "exit:2":
                raise Mismatch("--split without -w: expected a usage error, got rc=%r exc=%r" % (res["rc"], res["exc"]))
        else:
            check_output(ds, opt, res, outdir, sel_views, written, st)
            if opt.get("sel") is not None and res["selector"] is not None:
                want = "Selector" if opt.get("no_compile") else "CompiledSelector"
                if res["selector"] != want:
                    raise Mismatch("the selector handed to record_stream is a %s, expected %s (-n %s)" % (
                        res["selector"], want, "given" if opt.get("no_compile") else "not given"))
            if not sub:
                check_uri(opt, res, writer)
    except Mismatch as e:
        problem = str(e)
    except Exception as e:  # noqa  (parsing the output failed: the output is not what the reference predicts)
        problem = "output could not be compared: %s: %s" % (type(e).__name__, e)
    res.pop("tw", None)
    if problem:
        meta["problem"] = problem
        meta["expected_uids"] = [w["uid"] for w in written]
        meta["stdout_head"] = res["stdout"][:400].decode("utf-8", "replace")
        meta["uri"] = res["uri"]
        return meta
    if coq_cases is not None and not opt.get("abort") and not opt.get("twice"):
        ids = impl_uids(opt, res, outdir, written)
        coq_cases.append(coq_case(ds, src_names, opt, sel_views, written, res, writer, ids))
        metas.append(meta)
    return None


def check_uri(opt, res, writer):
    """what the property needs of the URI, checked directly on the captured text (the exact text is compared with
    the model inside Coq)"""
    from urllib.parse import parse_qsl, urlparse
    uri = res["uri"]
    if uri is None:
        raise Mismatch("RecordWriter was not called")
    if writer and not opt.get("split"):
        if uri != writer:
            raise Mismatch("-w %r but the writer was opened with %r" % (writer, uri))
        return
    q = dict(parse_qsl(urlparse(uri).query, keep_blank_values=True))
    if not writer:
        for name, key in (("fields", "fields"), ("exclude", "exclude"), ("fmt", "format_spec")):
            if opt.get(name) and q.get(key) != opt[name]:
                raise Mismatch("the writer URI %r does not carry %s=%r" % (uri, key, opt[name]))
    if opt.get("split"):
        if q.get("count") != str(opt["split"]) or q.get("suffix-length") != str(opt.get("suffix_length") or 2):
            raise Mismatch("the split URI %r does not carry count=%s and suffix-length=%s" % (uri, opt["split"], opt.get("suffix_length") or 2))
        want_prefix = "split+" if "://" in writer else "split://"
        if not uri.startswith(want_prefix + writer.split("?")[0]):
            raise Mismatch("the split URI %r does not start with %r" % (uri, want_prefix + writer))


def check_abort(ds, src_names, opt, res, outdir, st):
    """-E expression that raises on some record: main must raise, and the output file must already hold every
    record written before (flushed and closed), while the exception is still referenced."""
    views = []
    for n in src_names:
        views.extend(ds.sources[n]["views"])
    views = views[opt.get("skip", 0):]
    k = None
    for i, v in enumerate(views):
        if "n" not in v["names"] or _get(v, "n") == 3:
            k = i
            break
    p = out_path(opt["out"], outdir)
    if k is None:
        if res["exc"] is not None:
            raise Mismatch("rdump raised %r although no record makes the expression fail" % (res["exc"],))
        want = views
    else:
        if res["exc"] is None:
            raise Mismatch("the -E expression fails on record %d but rdump did not raise" % k)
        want = views[:k]
    exp = []
    for v in want:
        ft = v["fields"] + [("string", "q")]
        exp.append(dict(name=v["name"], fields=ft, names=[n for _, n in ft], vals=v["vals"] + [str(10 // (_get(v, "n") - 3))],
                        meta=v["meta"], uid=uid_of(v)))
    try:
        got = read_back(p)
    except Exception as e:  # noqa
        raise Mismatch("after the run aborted on record %s the output file is unreadable (%s: %s); %d records had been written" % (
            k, type(e).__name__, e, len(exp)))
    compare_views(exp, got, st)


# ------------------------------------------------------------------------------------------------

def plan(ctx, ds, rnd):
    """(source list, options) pairs for one dataset"""
    quick = ctx.tier == "quick"
    good = ds.good
    core_good = [n for n in good if n != "goodg" and n not in ds.neutral]
    cases = []
    # identity and each output on the good sources
    cases.append((good, dict()))
    for out in OUTS:
        cases.append((good, dict(out=out)))
        cases.append((good, random_opt(rnd, out)))
    # options that are not about records must not change them: -v repeated 0..5 times, the mode aliases
    for k in range(1, 6):
        cases.append((good, dict(verbose=k)))
        cases.append((good, dict(verbose=k, out=rnd.choice(["w:records", "m:jsonlines", "m:csv", "w:stdout"]), skip=1, count=9)))
    for out in ("m:json", "m:jsonlines", "m:csv", "m:line", "m:line-verbose"):
        cases.append((core_good, dict(out=out, alias=True, fields="uid,s,n")))
    # compressed sources under neutral file names, at each position among the others, and alone
    for nn in ds.neutral:
        cases.append(([nn], dict(out="m:jsonlines")))
        for pos in range(len(core_good) + 1):
            srcs = core_good[:pos] + [nn] + core_good[pos:]
            cases.append((srcs, dict()))
            cases.append((srcs, dict(out="w:records", skip=rnd.choice([1, 3]), count=rnd.choice([5, None]),
                                     sel=rnd.randrange(len(SELECTORS)), no_compile=rnd.random() < 0.5)))
    if ds.neutral:
        cases.append((ds.neutral, dict(out="w:records", skip=1)))
    # grouped records followed by plain records of their member types: every option family over that source
    for srcs in (["goodg"], core_good[:1] + ["goodg"] + core_good[1:2]):
        for out in OUTS:
            cases.append((srcs, dict(out=out)))
        for out in ("w:records", "m:jsonlines", "m:csv", "m:text", "m:line", "w:jsonl"):
            cases.append((srcs, dict(multi=True, out=out)))
            cases.append((srcs, dict(multi=True, rsrc="SRC2", sel=rnd.randrange(len(SELECTORS)), no_compile=rnd.random() < 0.5, out=out)))
            cases.append((srcs, dict(fields="uid,_source,n", out=out)))
            cases.append((srcs, dict(fields="user,uid", exclude="uid", out=out)))
            cases.append((srcs, dict(exclude="s,_generated", rcls="top", out=out)))
            cases.append((srcs, dict(expr=EXPR, rsrc="SRC2", out=out)))
        for i in range(len(SELECTORS) - 3, len(SELECTORS)):
            for nc in (False, True):
                cases.append((srcs, dict(sel=i, no_compile=nc, out=rnd.choice(["w:records", "m:jsonlines", "m:text"]))))
        cases.append((srcs, dict(list=True)))
        cases.append((srcs, dict(list=True, exclude="s")))
        cases.append((srcs, dict(fmt="{uid}|{_source}|{n}", out="m:text")))
        cases.append((srcs, dict(out="w:records", split=2)))
    # every placement of every fault among the good ones
    good_all, good = good, core_good
    for f in ds.faults:
        for pos in range(len(good) + 1):
            srcs = good[:pos] + [f] + good[pos:]
            cases.append((srcs, dict(out="w:records")))
            for _ in range(1 if quick else 5):
                cases.append((srcs, random_opt(rnd)))
    good = good_all
    # two faults, fault only, same source twice
    for _ in range(4 if quick else 20):
        srcs = list(good)
        for f in rnd.sample(ds.faults, 2):
            srcs.insert(rnd.randrange(len(srcs) + 1), f)
        cases.append((srcs, random_opt(rnd)))
    cases.append(([ds.faults[0]], dict(out="m:jsonlines")))
    cases.append(([good[0], good[0]], dict(out="w:records", skip=1)))
    # skip x count grid, with and without a selector
    for skip in (0, 1, 3, 100):
        for count in (None, 0, 1, 5):
            cases.append((good, dict(skip=skip, count=count, out="m:jsonlines")))
            cases.append((good[:1] + [ds.faults[rnd.randrange(len(ds.faults))]] + good[1:],
                          dict(skip=skip, count=count, sel=rnd.randrange(len(SELECTORS)), no_compile=rnd.random() < 0.5, out="w:records")))
    # every selector, both engines
    for i in range(len(SELECTORS)):
        for nc in (False, True):
            cases.append((good, dict(sel=i, no_compile=nc, out=rnd.choice(["w:records", "m:jsonlines", "m:csv"]))))
    # projections x modes
    for f in FIELDS:
        for x in EXCLUDES:
            if quick and rnd.random() < 0.5:
                continue
            cases.append((good, dict(fields=f, exclude=x, out=rnd.choice(OUTS), rsrc=rnd.choice([None, "S"]), rcls=rnd.choice([None, "C"]))))
    for out in ("m:csv", "m:json", "m:jsonlines", "m:line", "m:line-verbose", "m:text"):
        cases.append((good, dict(fields="uid,s", out=out)))
        cases.append((good, dict(exclude="s,_source", out=out)))
        cases.append((good, dict(fmt="{uid}/{n}", fields="uid", exclude="n", out=out)))
    # record types that share a name but not their fields: projections on fields only one variant has, in both orders
    for srcs in (good, good[::-1]):
        for out in ("w:records", "m:jsonlines", "m:csv"):
            cases.append((srcs, dict(exclude="user", out=out)))
            cases.append((srcs, dict(exclude="n", out=out)))
            cases.append((srcs, dict(fields="uid,user,s", out=out)))
            cases.append((srcs, dict(fields="uid,e0,e1,n", exclude="e1", out=out)))
            cases.append((srcs, dict(expr=EXPR, out=out)))
            cases.append((srcs, dict(expr=EXPR, exclude="s", skip=1, out=out)))
    # --multi-timestamp over the output of --multi-timestamp (records whose first fields are ts / ts_description)
    for out in ("w:records", "m:jsonlines", "m:csv"):
        cases.append((good, dict(twice=True, multi=True, out=out)))
        cases.append((["goodg"] + core_good[:1], dict(twice=True, multi=True, rsrc="SRC2", skip=1, count=7, out=out)))
    cases.append((good, dict(twice=True, out="w:records")))
    cases.append((core_good, dict(twice=True, multi=True, fields="uid,ts,d1,ts_description", out="m:jsonlines")))
    # overrides, expression, multi-timestamp, list
    for out in ("w:records", "m:jsonlines", "m:csv", "w:jsonl"):
        cases.append((good, dict(rsrc="SRC2", rcls="top", out=out)))
        cases.append((good, dict(rsrc="SRC2", expr=EXPR, out=out)))
        cases.append((good, dict(rsrc="", expr=EXPR, fields="uid", out=out)))
        cases.append((good, dict(multi=True, out=out)))
        cases.append((good, dict(multi=True, rsrc="SRC2", fields="uid,d1,d2", count=5, skip=1, out=out)))
    cases.append((good, dict(list=True)))
    cases.append((good, dict(list=True, exclude="s", count=5)))
    cases.append((good, dict(list=True, count=0, skip=3, sel=0)))
    # split
    for n in (1, 3, 7):
        for out in ("w:records", "w:jsonl", "w:stream-uri"):
            cases.append((good, dict(out=out, split=n, count=rnd.choice([None, 5, 7]), suffix_length=rnd.choice([None, 3]))))
    cases.append((good, dict(out="m:csv", split=2)))       # usage error
    cases.append((good, dict(out="w:records", split=0)))   # --split 0 is ignored
    # aborts
    for skip in (0, 2):
        cases.append((good, dict(out="w:records", expr=ABORT_EXPR, abort=True, skip=skip)))
        cases.append((good[::-1], dict(out="w:records", expr=ABORT_EXPR, abort=True, skip=skip)))
    for _ in range(25 if quick else 200):
        srcs = list(good)
        if rnd.random() < 0.6:
            srcs.insert(rnd.randrange(len(srcs) + 1), rnd.choice(ds.faults))
        rnd.shuffle(srcs)
        cases.append((srcs, random_opt(rnd)))
    return cases


def multi_cases(ctx, ds, outdir, coq_cases, metas):
    """model/Rdump.v expand_impl against iter_timestamped_records as rdump uses it, record by record"""
    for rsrc in (None, "SRC2"):
        opt = dict(multi=True, out="w:records")
        if rsrc:
            opt.update(rsrc=rsrc, rcls="top")
        shutil.rmtree(outdir, ignore_errors=True)
        os.makedirs(outdir)
        argv, writer = build_argv(ds, ds.good, opt, outdir)
        sel_views, written = ref_pipeline(ds, ds.good, opt)
        res = run_main(argv)
        res.pop("tw", None)
        try:
            got = read_back(out_path("w:records", outdir))
        except Exception:  # noqa
            return dict(kind="rdump-case", dataset=ds.idx, dataset_seed=ds.seed, sources=list(ds.good), opt=opt, argv=argv,
                        source_kinds=["good"] * len(ds.good), problem="--multi-timestamp output unreadable")
        pos = 0
        for e in sel_views[:25]:
            k = max(1, len([1 for t, _ in e["fields"] if t == "datetime"]))
            outs = got[pos:pos + k]
            pos += k
            impl = []
            for g in outs:
                expanded = any(t == "datetime" for t, _ in e["fields"])
                impl.append("(%s, %s, %s, %s)" % (clist([cstr(n) for n in g["names"]]),
                                                  cstr(str(_get(g, "ts_description")) if expanded else ""),
                                                  costr(g["meta"]["_source"]), costr(g["meta"]["_classification"])))
            r = "(mkc %s %s %s %s)" % (cstr(e["name"]), clist(["(%s, %s)" % (cstr(n), cbool(t == "datetime")) for t, n in e["fields"]]),
                                       costr(e["meta"]["_source"]), costr(e["meta"]["_classification"]))
            coq_cases.append("xchk %s %s" % (r, clist(impl)))
            metas.append(dict(kind="rdump-case", dataset=ds.idx, dataset_seed=ds.seed, sources=list(ds.good), opt=opt,
                              argv=[a.replace(str(ctx.work), "{W}") for a in argv], source_kinds=["good"] * len(ds.good),
                              multi_timestamp_record=e["uid"]))
            ctx.count_case(("multi-timestamp-record", ds.idx, e["uid"], rsrc))
    return None


def nontrivial(ds, srcs, opt):
    return len(opt) > 1 or any(n in ds.faults for n in srcs)


def sweep(ctx, coq=True, first_only=True):
    """Run the whole correspondence on the implementation.  Returns (coq_cases, metas, problems, st)."""
    rnd = random.Random(ctx.seed)
    nds = 3 if ctx.tier == "quick" else 16
    coq_cases, metas, problems = ([] if coq else None), [], []
    st = {}
    outdir = os.path.join(str(ctx.work), "out")
    for i in range(nds):
        try:
            ds = Dataset(ctx.seed, i, ctx.work)
        except SourceProblem as e:
            problems.append(e.args[0])
            return coq_cases, metas, problems, st
        for srcs, opt in plan(ctx, ds, rnd):
            opt = {k: v for k, v in opt.items() if v is not None}
            if opt.get("out") == "w:stdout":
                opt.pop("list", None)
                opt.pop("split", None)
                opt.pop("suffix_length", None)
            ctx.count_case(canonical([ds.sources[n]["kind"] for n in srcs], opt) + (i,), nontrivial=nontrivial(ds, srcs, opt))
            bad = run_one(ctx, ds, srcs, opt, outdir, st, coq_cases, metas)
            if bad:
                problems.append(bad)
                if first_only:
                    return coq_cases, metas, problems, st
        if coq:
            bad = multi_cases(ctx, ds, outdir, coq_cases, metas)
            if bad:
                problems.append(bad)
                if first_only:
                    return coq_cases, metas, problems, st
        ctx.sample(dict(dataset=i, sources={n: dict(kind=s["kind"], records=len(s["views"]), error=s["exc"]) for n, s in ds.sources.items()}), limit=3)
    return coq_cases, metas, problems, st


SUB_CASES = [
    dict(out="m:text"), dict(out="m:csv", skip=1, count=5, fields="uid,s,n", rsrc="SRC2"), dict(out="m:jsonlines", skip=1),
    dict(out="m:json", count=5, exclude="s"), dict(out="m:line", fields="uid,_source,n"), dict(out="m:line-verbose", count=7),
    dict(out="w:records", multi=True), dict(out="m:jsonlines", multi=True, rsrc="SRC2"),
    dict(out="m:text", sel=len(SELECTORS) - 1), dict(out="w:records", sel=len(SELECTORS) - 3, no_compile=True),
    dict(out="m:text", fmt="{uid}|{_source}"), dict(list=True), dict(out="w:stdout"), dict(out="w:stdout", skip=2, count=9, exclude="s"),
    # stdout is a terminal: the default output and `-w -` print the records' text form
    dict(out="m:text", pty=True), dict(out="w:stdout", pty=True), dict(out="w:stdout", pty=True, skip=1, count=6, fields="uid,s,n", rsrc="SRC2"),
    dict(out="w:stdout", pty=True, multi=True), dict(out="m:jsonlines", pty=True, count=4),
]


def subprocess_cases(ctx, st, report=True):
    """command lines through `python -m flow.record.tools.rdump` (fresh process, real stdout): all good sources
    (grouped records, neutral file names included) with a fault in between, one case per option family.
    Returns the first failing case (a replay object) or None."""
    rnd = random.Random(ctx.seed + 1)
    try:
        ds = Dataset(ctx.seed, 0, ctx.work)
    except SourceProblem as e:
        return e.args[0]
    outdir = os.path.join(str(ctx.work), "out")
    n = 0
    for opt in SUB_CASES:
        for srcs in (ds.good[:1] + [rnd.choice(ds.faults)] + ds.good[1:], ["goodg"]):
            ctx.count_case(("subprocess", tuple(srcs), tuple(sorted(opt.items()))))
            n += 1
            bad = run_one(ctx, ds, srcs, dict(opt), outdir, st, None, None, sub=True)
            if bad:
                return bad
    # sources on standard input, for every reader that reads it: alone, and at each position among file sources
    others = [x for x in ds.good if x != "goodg" and x not in ds.neutral][:2]
    for sname in ds.stdin:
        lists = [[sname]] + [others[:pos] + [sname] + others[pos:] for pos in range(len(others) + 1)]
        for srcs in lists:
            for opt in (dict(out="m:jsonlines"), dict(out="w:records", skip=1, count=6, rsrc="SRC2", verbose=2)):
                ctx.count_case(("subprocess-stdin", tuple(srcs), tuple(sorted(opt.items()))))
                n += 1
                bad = run_one(ctx, ds, srcs, dict(opt), outdir, st, None, None, sub=True)
                if bad:
                    return bad
    for k in (3, 5):
        bad = run_one(ctx, ds, ds.good, dict(out="m:text", verbose=k), outdir, st, None, None, sub=True)
        n += 1
        if bad:
            return bad
    if report:
        ctx.notes.append("%d cases also run as a subprocess (python -m flow.record.tools.rdump), incl. stdout as a terminal "
                         "and sources piped in on standard input" % n)
    return None


def describe(m):
    if m.get("kind") == "rdump-source":
        return "source %s (%s): %s" % (m["file"], m["source_kind"], m["problem"])
    if m.get("stage1_argv"):
        return "%s stage1.records %s  [stage1.records written by: rdump <%s> --multi-timestamp -w stage1.records] -> %s" % (
            "python -m flow.record.tools.rdump" if m.get("subprocess") else "rdump", " ".join(m["argv"][1:]),
            ", ".join(m["source_kinds"]), m["problem"])
    if any(k.startswith("stdin_") for k in m.get("source_kinds", [])):
        k = [x for x in m["source_kinds"] if x.startswith("stdin_")][0]
        return "python -m flow.record.tools.rdump %s  with a %s file piped in on standard input  [sources: %s] -> %s" % (
            " ".join(m["argv"]), k[6:], ", ".join(m["source_kinds"]), m["problem"])
    if m.get("opt", {}).get("pty"):
        return "python -m flow.record.tools.rdump %s  with a terminal (pty) as stdout  [sources: %s] -> %s" % (
            " ".join(a for a in m["argv"][len(m["sources"]):]), ", ".join(m["source_kinds"]), m["problem"])
    return "%s %s  [sources: %s] -> %s" % ("python -m flow.record.tools.rdump" if m.get("subprocess") else "rdump",
                                          " ".join(a for a in m["argv"][len(m["sources"]):]), ", ".join(m["source_kinds"]), m["problem"])


def report_problem(ctx, m, st, reason=None):
    """A case failed in-process.  Runs in one process share the library's caches, so confirm the command line on its own
    as a subprocess; when it does not fail there, look for one that does and report that one."""
    pre = (reason + "; failing input: ") if reason else ""
    extra = dict(reason=reason) if reason else {}
    if m.get("kind") == "rdump-case" and not m["opt"].get("abort"):
        try:
            ds = Dataset(m["dataset_seed"], m["dataset"], ctx.work)
            again = run_one(ctx, ds, m["sources"], dict(m["opt"]), os.path.join(str(ctx.work), "out"), {}, None, None, sub=True)
        except Exception as e:  # noqa
            again = None
            m["subprocess_confirmation"] = "not run: %r" % (e,)
        if again:
            m["subprocess_confirmation"] = "the same command line fails as a subprocess too: " + again["problem"][:300]
        elif "subprocess_confirmation" not in m:
            m["subprocess_confirmation"] = "the command line does not fail in a fresh process (state left by earlier runs in the harness process)"
            other = subprocess_cases(ctx, st, report=False)
            if other:
                other["in_process_case"] = dict(argv=m["argv"], problem=m["problem"][:500])
                ctx.violation(pre + describe(other), dict(extra, **other))
                return
    ctx.violation(pre + describe(m), dict(extra, **m))


def search(ctx, reason):
    """the proof / translator broke: look for a concrete failing command line on the implementation"""
    try:
        _, _, problems, st = sweep(ctx, coq=False, first_only=True)
    except Exception:  # noqa
        return False
    for m in problems:
        report_problem(ctx, m, st, reason)
        return True
    return False


def run(ctx):
    ctx.coverage["rule"] = (
        "per dataset (2-4 good sources in .records/.records.gz/.bz2/.lz4/.zst/.jsonl of 5-30 records over 6-7 descriptors with "
        "random extra field types, three of which share their NAME with another one but not their fields): every fault kind "
        "(missing, truncated .records inside a frame, truncated .gz, truncated .jsonl, garbage, empty, compressed file cut 3-12 "
        "bytes after the magic for gz/bz2/lz4/zst with and without extension, garbage .csv/.avro/.jsonl) at every position among "
        "the good sources; skip {0,1,3,100} x count {None,0,1,5}; 8 selectors x "
        "{compiled,-n}; -F x -X lists incl. reserved and unknown names; --record-source/-classification; -E; --multi-timestamp; "
        "-l; --split with -w; 13 outputs (-w .records/.records.gz/.jsonl/csvfile://line://jsonfile://stream://, -m csv/json/"
        "jsonlines/line/line-verbose, default text with and without -f); aborts in the middle of a run.  distinct = distinct "
        "(dataset, source kinds in order, option tuple); non-trivial = at least one option beyond the output or a faulty source")
    ok = core.standard_proof_stage(ctx, ["props/C16.vo"], "C16", THEOREMS, search_fn=search, gens=["gen_rdump"])
    ctx.assumptions += [
        "the generated facts (gen/Gen_rdump.v) are read off the behaviour of rdump.main / record_stream / "
        "iter_timestamped_records on probes (tools/vf/factgen/_c16_observe.py: logging stubs in rdump's namespace, probe "
        "records, the live argparse parser); the probes are finite samples (skip x count grid, every mode x -F x -X x -f "
        "subset, four failing-source kinds) and the model's value is the one that explains all of them; the ast recognisers "
        "only cross-check (contradiction = fail closed)",
        "a record is an abstract value in model/Rdump.v; attribute assignment, RecordFieldRewriter.rewrite, "
        "iter_timestamped_records and the two selector engines are parameters of the theorems; assumed of them: "
        "RecordFieldRewriter.rewrite returns the record unchanged when fields, exclude and expression are all empty "
        "(its first statement), validated by the no-option cases",
        "the intact prefix of a source is what RecordReader yields before it raises (C04 is about what that prefix is); "
        "the kind of failure enters the model as the exception class record_stream sees (IOError / other Exception / none)",
        "urllib.parse: urlparse().query, parse_qsl, urlencode/quote_plus are modelled for URIs of the form "
        "[scheme://]target[?query] (model/Rdump.v), validated by comparing the model's URI text with the text handed to "
        "RecordWriter on every case (ASCII URIs)",
        "argparse (type=int, defaults) is not modelled beyond the defaults read from the add_argument calls; --skip/--count "
        "are natural numbers",
        "iter_timestamped_records is modelled on concrete records (names, datetime flags, metadata) as expand_impl with the "
        "GENERATED list of reserved fields the loop copies from the original record; validated record by record against "
        "what rdump --multi-timestamp wrote",
        "selectors are taken from the fragment on which both engines agree (C07) and never raise (C08); value text forms "
        "(str/repr/format/JSON of a field value) are computed by the field types themselves (C20, C14)",
    ]
    if not ok:
        return
    coq_cases, metas, problems, st = sweep(ctx, coq=True, first_only=True)
    kf = core.known_for("C16")
    if problems:
        report_problem(ctx, problems[0], st)
        return
    failing, err = core.eval_bool_cases(ctx, COQ_HEADER, coq_cases, shard_size=120, name="c16")
    if err:
        ctx.violation("correspondence shards did not evaluate: " + err[:300], dict(kind="coq-eval", log=err), no_input=True)
        return
    ctx.coverage["traces_validated_against_impl"] = len(coq_cases) - len(failing)
    if failing:
        m = metas[failing[0]]
        ctx.violation("model/Rdump.v and the implementation disagree on %d of %d cases (writes / processed count / writer URI / "
                      "selector engine), first: rdump %s [sources: %s]" % (len(failing), len(coq_cases), " ".join(m["argv"][len(m["sources"]):]),
                                                                         ", ".join(m["source_kinds"])),
                      dict(correspondence="written/final_uri/uses_compiled/processed of model/Rdump.v", coq_term=coq_cases[failing[0]][:3000], **m))
        return
    for m in metas[:: max(1, len(metas) // 3)][:3]:
        ctx.sample(dict(argv=m["argv"][len(m["sources"]):], sources=m["source_kinds"]))
    bad = subprocess_cases(ctx, st)
    if bad:
        ctx.violation(describe(bad), bad)


def replay(obj):
    if obj.get("kind") not in ("rdump-case", "rdump-source"):
        print("replay of kind %s: re-run ./check C16" % obj.get("kind"))
        return 2
    work = core.WORK / ("C16.replay.%d" % os.getpid())
    shutil.rmtree(work, ignore_errors=True)
    work.mkdir(parents=True)

    class _C:
        pass
    c = _C()
    c.work = work
    try:
        try:
            ds = Dataset(obj["dataset_seed"], obj["dataset"], work)
        except SourceProblem as e:
            print("replay: " + describe(e.args[0]))
            return 1
        if obj["kind"] == "rdump-source":
            print("replay: source %s -> read back as written" % obj.get("file"))
            return 0
        st = {}
        bad = run_one(c, ds, obj["sources"], obj["opt"], os.path.join(str(work), "out"), st, None, None, sub=bool(obj.get("subprocess")))
        if bad:
            print("replay: " + describe(bad))
            return 1
        args = obj.get("argv", [])
        print("replay: rdump %s -> as specified" % (" ".join(["stage1.records"] + args[1:]) if obj["opt"].get("twice")
                                                     else " ".join(args[len(obj["sources"]):])))
        return 0
    finally:
        shutil.rmtree(work, ignore_errors=True)
