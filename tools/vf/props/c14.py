"""C14 -- JSON lines output round-trips and is plain JSON.

proof:   coq/props/C14.v (theorems about model/Json.v instantiated with the GENERATED configuration
         gen/Gen_json.v: pack_obj's action per value class, marker keys, boolean cast, base64-decoded types,
         register / pack_obj guards, reader fallback, fieldtype_for_value per JSON class, type-name -> kind table)
tie:     (T) gen/Gen_json.v regenerated on every run by OBSERVING the real JsonRecordPacker / JsonfileWriter /
         JsonfileReader / fieldtype_for_value on probes (the source-shape recognisers are a cross-check);
         (C) generated record sequences over the JSON-supported types are written by the implementation
         (JsonfileWriter directly and through RecordWriter, descriptors on/off, indent None/2, .json/.jsonl),
         every document is parsed with a strict JSON parser, and inside Coq the model's document trees are
         compared with the implementation's and the model's reader with the implementation's read-back.
"""
from __future__ import annotations

import base64
import datetime as pydt
import json
import os
import pathlib
import random
import struct
import tempfile

from vf import core, recgen

THEOREMS = [
    "C14_generated_cfg_ok", "C14_generated_options_ok", "C14_base64_roundtrip", "C14_iso_roundtrip", "C14_value_roundtrip", "C14_roundtrip",
    "C14_roundtrip_nonfinite_partial", "C14_lines_are_documents", "C14_lines_plain_json",
    "C14_no_descriptors_readable", "C14_refused_write_step", "C14_refused_writes", "C14_tolerant_writer_agrees",
    "C14_scalars_preserved", "C14_comparisons_sound",
    "C14_nonfinite_not_plain_refuted", "C14_nan_payload_refuted", "C14_hyp_satisfiable",
]

SCALARS = ["string", "wstring", "uri", "varint", "filesize", "unix_file_mode", "uint16", "uint32", "boolean", "float",
           "bytes", "datetime", "path", "digest", "net.ipaddress", "net.ipnetwork", "net.IPAddress", "net.IPNetwork"]
INT_TYPES = ("varint", "filesize", "unix_file_mode", "uint16", "uint32")
STR_TYPES = ("string", "wstring", "uri")
POSIX_PATHS = ["/tmp/foo/bar", "user/.bash_history", "", "/", "/a b/c", "/x/y", ".", "rel/p", "/é/\udcff", "a\\b", "//net/x",
               "/a/../b"]
NF_NAMES = {"NaN": "NFNan", "Infinity": "NFPosInf", "-Infinity": "NFNegInf"}


# ------------------------------------------------------------------------------------------------
# generators (every choice from the Random handed in)

# field names that are Python keywords: legal, but the record class then gets the generic *args/**kwargs constructor
KEYWORD_NAMES = ["from", "class", "or", "is", "in", "if", "import", "and", "not", "pass", "global", "lambda", "with", "as", "for"]

# set-but-falsy values per type (what `x or default` style code loses)
FALSY = {"string": [""], "wstring": [""], "uri": [""], "varint": [0], "filesize": [0], "unix_file_mode": [0], "uint16": [0],
         "uint32": [0], "boolean": [False, 0], "float": [0.0, -0.0], "bytes": [b""], "path": [""]}


def build_record(desc, kw):
    """construct POSITIONALLY (every slot in slot order): the values asked for are the values the record holds, also
    for the generic constructor of descriptors with keyword-named fields; the JSON reader itself builds its records
    through keyword arguments"""
    return desc.recordType(*[kw.get(n) for n in desc.recordType.__slots__])


class Gen14(recgen.Gen):
    """descriptors / records over the JSON-supported types only: no command, record, stringlist, dictlist, dynamic;
    POSIX paths only (the property does not claim Windows paths).  About a quarter of the descriptors have
    keyword-named fields; falsy-but-set values (0, 0.0, False, "", b"", []) are drawn often."""

    def __init__(self, rnd, finite_only=False):
        super().__init__(rnd, types=SCALARS, legacy=False, nested=False, max_fields=6)
        self.finite_only = finite_only

    def descriptor(self, name=None, depth=0):
        from flow.record import RecordDescriptor
        d = super().descriptor(name, depth)
        rnd = self.rnd
        if rnd.random() < 0.25:
            fields = [list(f) for f in d.get_field_tuples()]
            names = rnd.sample(KEYWORD_NAMES, min(len(fields), rnd.choice([1, 1, 2, 3])))
            for pos, kwn in zip(rnd.sample(range(len(fields)), len(names)), names):
                fields[pos][1] = kwn
            if len({n for _, n in fields}) == len(fields):
                d = RecordDescriptor(d.name, [tuple(f) for f in fields])
        return d

    def record(self, desc, depth=0):
        rnd = self.rnd
        kw = {}
        for t, n in desc.get_field_tuples():
            kw[n] = self.value(t, depth)
        kw["_source"] = rnd.choice([None, "src", "h\u00e9", ""])
        kw["_classification"] = rnd.choice([None, "secret", ""])
        kw["_generated"] = rnd.choice([recgen.T0, recgen.T0.replace(microsecond=0),
                                       pydt.datetime(1999, 12, 31, 23, 59, 59, tzinfo=pydt.timezone(pydt.timedelta(hours=2)))])
        return build_record(desc, kw)

    def value(self, typename, depth):
        rnd = self.rnd
        if typename.endswith("[]"):
            if rnd.random() < 0.2:
                return []
            return super().value(typename, depth)
        if rnd.random() < 0.12:
            return None
        if typename in FALSY and rnd.random() < 0.2:
            return rnd.choice(FALSY[typename])
        if typename == "path":
            v = rnd.choice(POSIX_PATHS)
            return pathlib.PurePosixPath(v) if v and rnd.random() < 0.2 else v
        if typename in STR_TYPES and typename != "uri":
            s = recgen.text_sample(rnd)
            return s if len(s) <= 300 else s[:300]
        if typename == "float":
            while True:
                v = recgen.value_sample(rnd, "float")
                if v is None or not self.finite_only or v == v and abs(v) != float("inf"):
                    return v
        if typename == "bytes":
            return bytes(rnd.randrange(256) for _ in range(rnd.choice([0, 1, 2, 3, 4, 5, 6, 7, 15, 16, 31, 32, 33, 64])))
        return recgen.value_sample(rnd, typename, depth)


COLLIDING = (("test/coll", [("string", "x"), ("varint", "stringy")]), ("test/coll", [("string", "xstring"), ("varint", "y")]))


def gen_sequence(rnd, finite_only=False):
    """a write history: 1..3 descriptors (sometimes two that share name, sometimes two that share the whole
    identifier), 1..7 records in arbitrary interleaving"""
    from flow.record import RecordDescriptor
    g = Gen14(rnd, finite_only)
    k = rnd.random()
    descs = []
    if k < 0.15:
        descs = [RecordDescriptor(n, f) for n, f in COLLIDING]
        assert descs[0].identifier == descs[1].identifier
    elif k < 0.35:
        d1 = g.descriptor(name="test/same")
        d2 = g.descriptor(name="test/same")
        descs = [d1, d2]
    for _ in range(rnd.randrange(0 if descs else 1, 3)):
        descs.append(g.descriptor())
    n = rnd.randrange(1, 8)
    return [g.record(rnd.choice(descs)) for _ in range(n)]


# ------------------------------------------------------------------------------------------------
# trees: canonical python form of a JSON document
#   ("null",) ("bool", b) ("int", n) ("float", bits) ("nf", token) ("str", s) ("arr", [..]) ("obj", [(k, v)..])

class _F:
    def __init__(self, s):
        self.bits = struct.unpack(">Q", struct.pack(">d", float(s)))[0]


class _NF:
    def __init__(self, s):
        self.tok = s


class _O:
    def __init__(self, pairs):
        self.pairs = pairs


def _to_tree(x):
    if x is None:
        return ("null",)
    if isinstance(x, bool):
        return ("bool", x)
    if isinstance(x, int):
        return ("int", x)
    if isinstance(x, _F):
        return ("float", x.bits)
    if isinstance(x, _NF):
        return ("nf", x.tok)
    if isinstance(x, str):
        return ("str", x)
    if isinstance(x, list):
        return ("arr", [_to_tree(e) for e in x])
    if isinstance(x, _O):
        return ("obj", [(k, _to_tree(v)) for k, v in x.pairs])
    raise TypeError(type(x))


def parse_tree(text):
    """lenient parse (accepts the non-finite tokens, as json.loads does by default) -> tree"""
    return _to_tree(json.loads(text, object_pairs_hook=_O, parse_float=_F, parse_constant=_NF))


class NotPlainJson(ValueError):
    pass


def _raise_constant(tok):
    raise NotPlainJson(tok)


def strict_parse(text):
    """the STRICT parser of the property: the JSON grammar only"""
    return json.loads(text, parse_constant=_raise_constant)


def split_documents(text):
    """a sequence of standalone JSON documents separated by white space -> list of document texts"""
    dec = json.JSONDecoder()
    out = []
    i = 0
    n = len(text)
    while True:
        while i < n and text[i] in " \t\r\n":
            i += 1
        if i >= n:
            return out
        _, j = dec.raw_decode(text, i)
        out.append(text[i:j])
        i = j


def tree_has_nf(t):
    if t[0] == "nf":
        return True
    if t[0] == "arr":
        return any(tree_has_nf(e) for e in t[1])
    if t[0] == "obj":
        return any(tree_has_nf(v) for _, v in t[1])
    return False


def tree_py(t):
    """the python value json.loads builds (for str() of lists / dicts in the fallback)"""
    k = t[0]
    if k == "null":
        return None
    if k in ("bool", "int", "str"):
        return t[1]
    if k == "float":
        return struct.unpack(">d", struct.pack(">Q", t[1]))[0]
    if k == "nf":
        return float(t[1].replace("Infinity", "inf").replace("NaN", "nan"))
    if k == "arr":
        return [tree_py(e) for e in t[1]]
    return {kk: tree_py(v) for kk, v in t[1]}


# ------------------------------------------------------------------------------------------------
# the property's own per-type mapping, written against the deep observation of the value (no code of
# jsonpacker involved): the oracle of the search and of the python-side checks

def is_nonfinite(f):
    return f != f or f in (float("inf"), float("-inf"))


def spec_scalar(t, v, in_list):
    if v is None:
        return ("null",)
    if t in STR_TYPES:
        return ("str", str.__str__(v))
    if t in INT_TYPES:
        return ("int", int.__index__(v))
    if t == "boolean":
        b = bool(int.__index__(v))
        return ("int", int(b)) if in_list else ("bool", b)     # only a scalar boolean slot is cast to a JSON boolean
    if t == "float":
        f = float.__float__(v)
        if f != f:
            return ("nf", "NaN")
        if f in (float("inf"), float("-inf")):
            return ("nf", "Infinity" if f > 0 else "-Infinity")
        return ("float", recgen.float_bits(f))
    if t == "datetime":
        return ("str", pydt.datetime.isoformat(v))
    if t == "bytes":
        return ("str", base64.b64encode(bytes(v)).decode("ascii"))
    if t == "digest":
        return ("obj", [(k, ("null",) if getattr(v, k) is None else ("str", getattr(v, k))) for k in ("md5", "sha1", "sha256")])
    if t in ("net.ipaddress", "net.IPAddress", "net.ipnetwork", "net.IPNetwork"):
        return ("str", str(v.val))
    if t == "path":
        return ("str", "" if getattr(v, "_empty_path", False) else pathlib.PurePath.__str__(v))
    raise ValueError(t)


def spec_value(t, v):
    if t.endswith("[]"):
        if v is None:
            return ("null",)
        return ("arr", [spec_scalar(t[:-2], e, True) for e in v])
    return spec_scalar(t, v, False)


def all_fields(desc):
    from flow.record.base import RESERVED_FIELDS
    return list(desc.get_field_tuples()) + [(t, n) for n, t in RESERVED_FIELDS.items()]


def spec_record_tree(r, on):
    kv = [(n, spec_value(t, getattr(r, n))) for t, n in all_fields(r._desc)]
    if on:
        kv += [("_type", ("str", "record")), ("_recorddescriptor", ("arr", [("str", r._desc.name), ("int", r._desc.descriptor_hash)]))]
    return ("obj", kv)


def spec_descriptor_tree(d):
    return ("obj", [("_type", ("str", "recorddescriptor")),
                    ("_data", ("arr", [("str", d.name), ("arr", [("arr", [("str", t), ("str", n)]) for t, n in d.get_field_tuples()])]))])


def spec_documents(records, on):
    """descriptor documents before first use, and again when another descriptor took the identifier"""
    reg = {}
    out = []
    for r in records:
        d = r._desc
        if reg.get(d.identifier) != (d.name, tuple(d.get_field_tuples())):
            reg[d.identifier] = (d.name, tuple(d.get_field_tuples()))
            if on:
                out.append(("desc", spec_descriptor_tree(d)))
        out.append(("rec", spec_record_tree(r, on)))
    return out


def record_has_nonfinite(r):
    for t, n in r._desc.get_field_tuples():
        v = getattr(r, n)
        if v is None:
            continue
        if t == "float" and is_nonfinite(v):
            return True
        if t == "float[]" and any(is_nonfinite(x) for x in v):
            return True
    return False


def has_split_pair(s):
    return any(0xD800 <= ord(a) <= 0xDBFF and 0xDC00 <= ord(b) <= 0xDFFF for a, b in zip(s, s[1:]))


# ------------------------------------------------------------------------------------------------
# Gallina literals

def ctext(s):
    if all(32 <= ord(c) < 127 and c != '"' for c in s):
        return '(T "%s")' % s
    return "[" + "; ".join(str(ord(c)) for c in s) + "]"


def cZ(n):
    return "(%d)%%Z" % n


def coq_tree(t):
    k = t[0]
    if k == "null":
        return "JNull"
    if k == "bool":
        return "(JBool %s)" % ("true" if t[1] else "false")
    if k == "int":
        return "(JInt %s)" % cZ(t[1])
    if k == "float":
        return "(JFloat %d)" % t[1]
    if k == "nf":
        return "(JNonFinite %s)" % NF_NAMES[t[1]]
    if k == "str":
        return "(JStr %s)" % ctext(t[1])
    if k == "arr":
        return "(JArr [%s])" % "; ".join(coq_tree(e) for e in t[1])
    return "(JObj [%s])" % "; ".join("(%s, %s)" % (ctext(kk), coq_tree(v)) for kk, v in t[1])


def coq_scalar(t, v):
    if v is None:
        return "VNone"
    if t in STR_TYPES:
        return "(VStr %s)" % ctext(str.__str__(v))
    if t in INT_TYPES:
        return "(VInt %s)" % cZ(int.__index__(v))
    if t == "boolean":
        return "(VBool %s)" % ("true" if int.__index__(v) else "false")
    if t == "float":
        return "(VFloat %d)" % recgen.float_bits(v)
    if t == "datetime":
        off = v.utcoffset()
        off_us = (off.days * 86400 + off.seconds) * 10**6 + off.microseconds
        return "(VDt (Dt %d %d %d %d %d %d %d %s))" % (v.year, v.month, v.day, v.hour, v.minute, v.second, v.microsecond, cZ(off_us))
    if t == "bytes":
        return '(VBytes (unhex "%s"))' % bytes(v).hex()
    if t == "digest":
        return "(VDigest %s %s %s)" % tuple("None" if getattr(v, k) is None else "(Some %s)" % ctext(getattr(v, k)) for k in ("md5", "sha1", "sha256"))
    if t in ("net.ipaddress", "net.IPAddress"):
        return "(VIp %s)" % ctext(str(v.val))
    if t in ("net.ipnetwork", "net.IPNetwork"):
        return "(VNet %s)" % ctext(str(v.val))
    if t == "path":
        return "(VPath %s)" % ctext("" if getattr(v, "_empty_path", False) else pathlib.PurePath.__str__(v))
    raise ValueError(t)


def coq_value(t, v):
    if t.endswith("[]"):
        if v is None:
            return "VNone"
        return "(VList [%s])" % "; ".join(coq_scalar(t[:-2], e) for e in v)
    return coq_scalar(t, v)


def coq_desc(name, fields):
    return "(Desc %s [%s])" % (ctext(name), "; ".join("(%s, %s)" % (ctext(t), ctext(n)) for t, n in fields))


def coq_record(r, opaque=None, refused=()):
    """opaque: {field name: tree} for string slots of a fallback record that hold str() of a list / dict;
    refused: names of the slots holding a value json.dumps refuses (the model's pack_value is None on VOpaque)"""
    d = r._desc
    vals = []
    for t, n in all_fields(d):
        if n in refused:
            vals.append("(VOpaque JNull)")
        elif opaque and n in opaque:
            vals.append("(VOpaque %s)" % coq_tree(opaque[n]))
        else:
            vals.append(coq_value(t, getattr(r, n)))
    return "(Rec %s [%s])" % (coq_desc(d.name, d.get_field_tuples()), "; ".join(vals))


HEADER = """From Coq Require Import List Bool NArith ZArith String.
Import ListNotations.
From FR Require Import Bytes Json Gen_json.
Open Scope N_scope.
Definition H (tbl : list (descriptor * Z)) (d : descriptor) : Z :=
  match find (fun p => desc_eqb (fst p) d) tbl with Some p => snd p | None => 0%Z end.
Fixpoint docs_eqb (a b : list json) : bool :=
  match a, b with [], [] => true | x :: a', y :: b' => json_eqb x y && docs_eqb a' b' | _, _ => false end.
Fixpoint recs_eqb (a b : list record) : bool :=
  match a, b with [], [] => true | x :: a', y :: b' => record_eqb x y && recs_eqb a' b' | _, _ => false end.
(* model's documents = the implementation's documents *)
Definition w_ok (on : bool) tbl (rs : list record) (docs : list json) : bool :=
  match write_json json_cfg (H tbl) on rs with Some m => docs_eqb m docs | None => false end.
(* model's reader on the implementation's documents = what the implementation read back *)
Definition r_ok tbl (docs : list json) (back : list record) : bool :=
  match read_json json_cfg (H tbl) docs with Some m => recs_eqb m back | None => false end.
(* the same when some writes are refused and the application carries on *)
Definition wt_ok (on : bool) tbl (rs : list record) (docs : list json) : bool :=
  docs_eqb (write_tolerant json_cfg (H tbl) on [] rs) docs.
(* which writes the model refuses = which writes the implementation refused *)
Definition acc_ok tbl (rs : list record) (flags : list bool) : bool :=
  forallb (fun p => Bool.eqb (accepted json_cfg (H tbl) true (fst p)) (snd p)) (combine rs flags)
  && Nat.eqb (List.length rs) (List.length flags).
(* the generated records satisfy the theorems' hypothesis *)
Definition h_ok (rs : list record) : bool := forallb (record_ok json_cfg) rs.
"""


# ------------------------------------------------------------------------------------------------
# running the implementation

def write_impl(records, path, how, on, indent):
    from flow.record import RecordWriter
    from flow.record.adapter.jsonfile import JsonfileWriter
    if how == "direct":
        w = JsonfileWriter(path, indent=indent, descriptors=on)
    elif how == "ext":          # adapter chosen by the .json / .jsonl extension
        assert on and indent is None
        w = RecordWriter(path)
    else:                       # jsonfile:// URI with the documented query arguments
        q = []
        if indent is not None:
            q.append("indent=%d" % indent)
        if not on:
            q.append("descriptors=false")
        w = RecordWriter("jsonfile://" + path + ("?" + "&".join(q) if q else ""))
    try:
        for r in records:
            w.write(r)
        w.flush()
    finally:
        w.close()
    with open(path, "r", newline="") as fh:
        return fh.read()


def read_impl(path, how):
    from flow.record import RecordReader
    from flow.record.adapter.jsonfile import JsonfileReader
    rd = JsonfileReader(path) if how == "direct" else RecordReader(path if how == "ext" else "jsonfile://" + path)
    try:
        return list(rd)
    finally:
        rd.close()


def obs(r):
    return recgen.canon(recgen.obs_record(r))


def safe_repr(v):
    """repr() of a field value (filesize.__repr__ raises for huge values: C20 finding, not ours)"""
    try:
        return repr(v)
    except Exception:  # noqa
        if isinstance(v, list):
            return "[" + ", ".join(safe_repr(x) for x in v) + "]"
        for base in (int, float, str, bytes):
            if isinstance(v, base):
                try:
                    return base.__repr__(v)
                except Exception:  # noqa -- e.g. an int beyond the int/str conversion limit
                    return "<%s of %d bits>" % (base.__name__, v.bit_length()) if base is int else "<%s>" % base.__name__
        return "<%s>" % type(v).__name__


def rec_repr(r):
    return dict(type=r._desc.name, fields=[list(f) for f in r._desc.get_field_tuples()],
                values={n: safe_repr(getattr(r, n)) for _, n in all_fields(r._desc)})


class Failure(Exception):
    def __init__(self, cls, what, detail=None):
        super().__init__(what)
        self.cls, self.what, self.detail = cls, what, detail or {}


def check_text(text, on, indent, records):
    """(b) the output is a sequence of standalone strict-JSON documents, one per line without indentation, each an
    object with exactly the expected keys in slot order.  Returns the document trees."""
    if indent is None:
        if not text.endswith("\n") and text:
            raise Failure("layout", "output does not end with a newline")
        doc_texts = text.split("\n")[:-1] if text else []
        if any(d.strip() == "" for d in doc_texts):
            raise Failure("layout", "empty line in JSON lines output")
    else:
        try:
            doc_texts = split_documents(text)
        except ValueError as e:
            raise Failure("layout", "indented output is not a sequence of JSON documents: %s" % e)
    trees = []
    for i, dt in enumerate(doc_texts):
        try:
            tree = parse_tree(dt)
        except ValueError as e:
            raise Failure("not-json", "document %d does not parse at all: %s" % (i, e), dict(document=dt[:500]))
        try:
            strict_parse(dt)
        except NotPlainJson as e:
            if not tree_has_nf(tree):
                raise Failure("not-json", "document %d rejected by the strict parser: %s" % (i, e), dict(document=dt[:500]))
        except ValueError as e:
            raise Failure("not-json", "document %d rejected by the strict parser: %s" % (i, e), dict(document=dt[:500]))
        if tree[0] != "obj":
            raise Failure("not-object", "document %d is not a JSON object" % i, dict(document=dt[:500]))
        trees.append(tree)
    expected = spec_documents(records, on)
    if len(trees) != len(expected):
        raise Failure("documents", "%d documents written, expected %d (%d records%s)" % (
            len(trees), len(expected), len(records), ", descriptor documents before first use" if on else ""),
            dict(got_kinds=[dict(t[1]).get("_type", ("", "plain"))[1] for t in trees]))
    for i, (tree, (kind, exp)) in enumerate(zip(trees, expected)):
        gk, ek = [k for k, _ in tree[1]], [k for k, _ in exp[1]]
        if gk != ek:
            raise Failure("keys", "document %d (%s) has keys %r, expected %r" % (i, kind, gk, ek))
        if tree != exp:
            bad = [k for (k, a), (_, b) in zip(tree[1], exp[1]) if a != b]
            raise Failure("mapping", "document %d (%s): member(s) %r differ from the per-type JSON mapping" % (i, kind, bad),
                          dict(got={k: repr(v)[:300] for k, v in tree[1] if k in bad}, expected={k: repr(v)[:300] for k, v in exp[1] if k in bad}))
    return trees


def check_plain_readback(records, trees, back):
    """(d) descriptors off: the lines read as records with the same scalar JSON values"""
    if len(back) != len(records):
        raise Failure("plain-count", "descriptors=false: %d records read back from %d lines" % (len(back), len(records)))
    opaques = []
    for i, (r, tree, p) in enumerate(zip(records, trees, back)):
        if p._desc.name != "json/record":
            raise Failure("plain-name", "fallback record %d is of type %r" % (i, p._desc.name))
        members = dict(tree[1])
        want_names = [n for _, n in r._desc.get_field_tuples()]
        got = list(p._desc.get_field_tuples())
        if [n for _, n in got] != want_names:
            raise Failure("plain-fields", "fallback record %d has fields %r, expected %r" % (i, [n for _, n in got], want_names))
        opq = {}
        for t, n in got:
            j = members[n]
            v = getattr(p, n)
            if j[0] in ("arr", "obj"):
                if not (t == "string" and isinstance(v, str) and str.__str__(v) == str(tree_py(j))):
                    raise Failure("plain-nonscalar", "fallback record %d field %s: %s" % (i, n, safe_repr(v)))
                opq[n] = j
                continue
            want_t = {"str": "string", "int": "varint", "float": "float", "nf": "float", "bool": "boolean", "null": "string"}[j[0]]
            want_o = recgen.obs_value(want_t, tree_py(j))      # the deep observation of the plain python value
            try:
                got_o = recgen.obs_value(t, v)
            except recgen.Unobservable as e:
                got_o = ("unobservable", str(e))
            if t != want_t or got_o != want_o:
                raise Failure("plain-scalar", "descriptors=false: field %s of record %d is written as the JSON value %r but reads back as %s %s" % (
                    n, i, tree_py(j), t, safe_repr(v)), dict(json=repr(j), read_type=t, read_value=safe_repr(v)))
        for n, want in (("_source", r._source), ("_classification", r._classification)):
            if getattr(p, n) != want:
                raise Failure("plain-reserved", "fallback record %d: %s = %r, expected %r" % (i, n, getattr(p, n), want))
        if recgen.canon(recgen.obs_value("datetime", p._generated)) != recgen.canon(recgen.obs_value("datetime", r._generated)):
            raise Failure("plain-reserved", "fallback record %d: _generated = %r, expected %r" % (i, p._generated, r._generated))
        opaques.append(opq)
    return opaques


def run_sequence(ctx, records, tmpd, tag, kf, coq_cases, metas, variants=True):
    """all python-side checks for one write history; appends the Coq cases.  Raises Failure."""
    nf = any(record_has_nonfinite(r) for r in records)
    descs = []
    for r in records:
        if r._desc not in descs:
            descs.append(r._desc)
    tbl = "[%s]" % "; ".join("(%s, %s)" % (coq_desc(d.name, d.get_field_tuples()), cZ(d.descriptor_hash)) for d in descs)
    rs_lit = "[%s]" % "; ".join(coq_record(r) for r in records)
    base = {}
    for on in (True, False):
        path = os.path.join(tmpd, "%s_%d.json" % (tag, on))
        text = write_impl(records, path, "direct", on, None)
        trees = check_text(text, on, None, records)
        base[on] = (path, text, trees)
        if nf:
            f = core_known(kf, dict(cls="non-finite-float"))
            strict_fail = False
            for line in text.split("\n")[:-1]:
                try:
                    strict_parse(line)
                except NotPlainJson:
                    strict_fail = True
            if strict_fail:
                if f:
                    ctx.known_finding(f["id"], f["what"])
                else:
                    raise Failure("non-finite-float", "a non-finite float is written as a NaN/Infinity token: the line is not JSON",
                                  dict(line=[ln for ln in text.split("\n") if "NaN" in ln or "Infinity" in ln][:1]))
        # read back
        back = read_impl(path, "direct")
        if on:
            if len(back) != len(records):
                raise Failure("count", "%d records read back, %d written" % (len(back), len(records)))
            for i, (a, b) in enumerate(zip(records, back)):
                oa, ob = obs(a), obs(b)
                if oa != ob:
                    bad = [n for (t, n), x, y in zip(all_fields(a._desc), oa[3], ob[3]) if x != y]
                    raise Failure("roundtrip", "record %d does not read back identically: type %r -> %r, differing fields %r" % (
                        i, oa[1], ob[1], bad), dict(written=rec_repr(a), read=rec_repr(b)))
            back_lit = "[%s]" % "; ".join(coq_record(r) for r in back)
        else:
            opaques = check_plain_readback(records, trees, back)
            back_lit = "[%s]" % "; ".join(coq_record(r, o) for r, o in zip(back, opaques))
        docs_lit = "[%s]" % "; ".join(coq_tree(t) for t in trees)
        coq_cases.append("w_ok %s %s %s %s" % ("true" if on else "false", tbl, rs_lit, docs_lit))
        metas.append(dict(tag=tag, on=on, part="model documents = implementation documents"))
        coq_cases.append("r_ok %s %s %s" % (tbl, docs_lit, back_lit))
        metas.append(dict(tag=tag, on=on, part="model reader = implementation read-back"))
    coq_cases.append("h_ok %s" % rs_lit)
    metas.append(dict(tag=tag, on=None, part="generated records satisfy record_ok (the theorems' hypothesis)"))
    if not variants:
        return
    # the other ways to reach the adapter give the same text; indentation changes the layout only
    for how, on, indent, ext in (("ext", True, None, ".json"), ("ext", True, None, ".jsonl"), ("uri", True, None, ".json"),
                                 ("uri", False, None, ".out"), ("direct", True, 2, ".json"), ("uri", False, 2, ".json"),
                                 ("uri", True, 2, ".out")):
        path = os.path.join(tmpd, "%s_v%s" % (tag, ext))
        text = write_impl(records, path, how, on, indent)
        ctx.count_case(("variant", tag, how, on, indent, ext), nontrivial=False)
        if indent is None:
            if text != base[on][1]:
                raise Failure("variant", "writing through %s (%s) gives different text than JsonfileWriter" % (how, ext))
            back = read_impl(path, how)
            if [obs(x) for x in back] != [obs(x) for x in read_impl(base[on][0], "direct")]:
                raise Failure("variant", "reading through %s (%s) gives different records than JsonfileReader" % (how, ext))
        else:
            trees = check_text(text, on, indent, records)
            if trees != base[on][2]:
                raise Failure("indent", "indent=%d changes the documents, not only the layout" % indent)
            # the reader is line based; document-wise the packer reads the same records
            from flow.record import JsonRecordPacker
            pk = JsonRecordPacker()
            got = [x for x in (pk.unpack(d) for d in split_documents(text)) if not isinstance(x, (dict,)) and hasattr(x, "_desc")]
            if on and [obs(x) for x in got] != [obs(x) for x in records]:
                raise Failure("indent", "documents of indented output do not unpack to the records written")
            try:
                back = read_impl(path, how)
                ok = on and [obs(x) for x in back] == [obs(x) for x in records]
                err = None if ok else "different records"
            except Exception as e:  # noqa
                ok, err = False, "%s: %s" % (type(e).__name__, str(e)[:100])
            if not ok and on:
                f = core_known(kf, dict(cls="indent-readback"))
                if f:
                    ctx.known_finding(f["id"], f["what"])
                else:
                    raise Failure("indent-readback", "JsonfileReader cannot read the output written with indent=%d: %s" % (indent, err))


def core_known(kf, case):
    for f in kf:
        m = f.get("match", {})
        if all(case.get(k) == v for k, v in m.items()):
            return f
    return None


# ------------------------------------------------------------------------------------------------
# fixed probes (boundary values the random stream may miss)

def fixed_sequences():
    from flow.record import RecordDescriptor
    T0 = recgen.T0
    out = []
    D = RecordDescriptor("probe/all", [(t, "f%d" % i) for i, t in enumerate(SCALARS)] + [(t + "[]", "l%d" % i) for i, t in enumerate(SCALARS)])
    out.append(("unset", [D(_generated=T0)]))
    md5, sha1, sha256 = "d41d8cd98f00b204e9800998ecf8427e", "da39a3ee5e6b4b0d3255bfef95601890afd80709", \
        "e3b0c44298fc1c149afbf4c8996fb92427ae41e4649b934ca495991b7852b855"
    tz = pydt.timezone(pydt.timedelta(hours=-3, minutes=-30, seconds=-15, microseconds=-5))
    vals = {"string": "a\udcff€\"\\\n\x00\U0001f600", "wstring": "", "uri": "http://example.com/a?b=c#d", "varint": 2**64 + 1,
            "filesize": -(2**200) - 3, "unix_file_mode": 0o755, "uint16": 65535, "uint32": 2**32 - 1, "boolean": 1, "float": -0.0,
            "bytes": b"\x00\xff\xfe", "datetime": pydt.datetime(1, 1, 1, 0, 0, 0, 1, tzinfo=tz), "path": "/é/\udcff",
            "digest": (md5, sha1, sha256), "net.ipaddress": "::1", "net.ipnetwork": "2001:db8::/32", "net.IPAddress": "0.0.0.1",
            "net.IPNetwork": "10.0.0.0/8"}
    kw = {"f%d" % i: vals[t] for i, t in enumerate(SCALARS)}
    lists = {"string": ["", "a", "\udc80"], "boolean": [True, False, 1, 0], "float": [1.5, 5e-324, 1e300, 16777217.0], "bytes": [b"", b"a", b"ab", b"abc", b"abcd"],
             "datetime": [T0, pydt.datetime(9999, 12, 31, 23, 59, 59, 999999, tzinfo=pydt.timezone.utc)], "digest": [(md5, None, None), (None, None, None)],
             "varint": [0, -1, 2**63, -2**63 - 1], "path": ["", "/", "a/b"], "net.ipaddress": ["1.2.3.4", "::ffff:1.2.3.4"]}
    kw.update({"l%d" % i: lists.get(t, [vals[t]]) for i, t in enumerate(SCALARS)})
    out.append(("all-types", [D(_generated=T0, _source="src", _classification="hé", **kw), D(_generated=T0)]))
    F = RecordDescriptor("probe/float", [("float", "f"), ("float[]", "fl"), ("string", "s")])
    out.append(("nonfinite", [F(f=float("nan"), fl=[float("inf"), float("-inf"), 1.0], s="x", _generated=T0), F(f=float("-inf"), _generated=T0)]))
    A, B = (RecordDescriptor(n, f) for n, f in COLLIDING)
    out.append(("identifier-collision", [A(x="a", stringy=1, _generated=T0), B(xstring="b", y=2, _generated=T0), A(x="c", stringy=3, _generated=T0),
                                         A(x="d", stringy=4, _generated=T0), B(xstring="e", y=5, _generated=T0)]))
    S1 = RecordDescriptor("probe/same", [("string", "a")])
    S2 = RecordDescriptor("probe/same", [("varint", "a"), ("bytes", "b")])
    out.append(("same-name", [S1(a="x", _generated=T0), S2(a=1, b=None, _generated=T0), S1(a=None, _generated=T0), S2(a=None, b=b"", _generated=T0)]))
    # keyword-named fields (generic constructor) x falsy-but-set values in every type: the keyword field itself and its
    # neighbours; also unset, and ordinary values
    kwn = list(KEYWORD_NAMES)
    ftypes = list(FALSY)
    Kf = RecordDescriptor("probe/kwfalsy", [(t, kwn[i] if i % 2 == 0 else "n%d" % i) for i, t in enumerate(ftypes)]
                          + [("string[]", "as"), ("bytes[]", "nl"), ("digest", "lambda"), ("varint[]", "with")])
    names = [n for _, n in Kf.get_field_tuples()]
    for variant in range(2):
        kwv = {n: FALSY[t][variant % len(FALSY[t])] for (t, n) in Kf.get_field_tuples() if t in FALSY}
        kwv.update({"as": [], "nl": [], "with": [0]})
        out.append(("keyword-falsy-%d" % variant, [build_record(Kf, dict(kwv, _generated=T0, _source="", _classification="")),
                                                    build_record(Kf, dict(_generated=T0)),
                                                    build_record(Kf, dict({n: v for n, v in kwv.items() if names.index(n) % 3 == 0}, _generated=T0))]))
    Kt = RecordDescriptor("probe/kwall", [(t, kwn[i % len(kwn)] + ("" if i < len(kwn) else "_")) for i, t in enumerate(SCALARS)])
    out.append(("keyword-all-types", [build_record(Kt, dict({n: vals[t] for t, n in Kt.get_field_tuples()}, _generated=T0, _source="s")),
                                      build_record(Kt, dict(_generated=T0))]))
    Bt = RecordDescriptor("probe/bytes", [("bytes", "b"), ("bytes[]", "bl")])
    out.append(("bytes-none", [Bt(b=None, bl=None, _generated=T0), Bt(b=b"", bl=[b"", b"\xff"], _generated=T0)]))
    return out


def probe_split_pair(ctx, tmpd, kf):
    """text holding a high surrogate immediately followed by a low surrogate as TWO code points (json.loads joins them)"""
    from flow.record import RecordDescriptor
    D = RecordDescriptor("probe/pair", [("string", "s")])
    r = D(s=chr(0xD83D) + chr(0xDE00), _generated=recgen.T0)
    path = os.path.join(tmpd, "pair.json")
    write_impl([r], path, "direct", True, None)
    back = read_impl(path, "direct")
    ctx.count_case(("probe", "split-pair"))
    if [ord(c) for c in back[0].s] != [0xD83D, 0xDE00]:
        f = core_known(kf, dict(cls="split-surrogate-pair"))
        if f:
            ctx.known_finding(f["id"], f["what"])
        else:
            ctx.violation("text holding a split surrogate pair reads back as %r" % [hex(ord(c)) for c in back[0].s],
                          dict(kind="sequence", cls="split-surrogate-pair", probe="split-pair"))


def probe_nan_payload(ctx, tmpd, kf):
    """a NaN with a non-default payload: written as the token NaN, read back as the quiet NaN"""
    from flow.record import RecordDescriptor
    D = RecordDescriptor("probe/nanpayload", [("float", "f")])
    weird = struct.unpack(">d", bytes.fromhex("7ff8000000000001"))[0]
    r = D(f=weird, _generated=recgen.T0)
    if recgen.float_bits(r.f) != 0x7FF8000000000001:
        return      # the platform does not keep the payload in the first place
    path = os.path.join(tmpd, "nanp.json")
    write_impl([r], path, "direct", True, None)
    back = read_impl(path, "direct")
    ctx.count_case(("probe", "nan-payload"))
    if recgen.float_bits(back[0].f) != 0x7FF8000000000001:
        f = core_known(kf, dict(cls="non-finite-float"))
        if f:
            ctx.known_finding(f["id"], f["what"])
        else:
            ctx.violation("a NaN with payload 0x7ff8000000000001 reads back as %#x" % recgen.float_bits(back[0].f),
                          dict(kind="sequence", cls="non-finite-float", probe="nan-payload"))


# ------------------------------------------------------------------------------------------------
# fresh-interpreter smoke: the same write + read in a child process that has imported nothing but flow.record (an
# import-order dependence -- e.g. pack_obj naming fieldtypes.net.* before anything loaded that submodule -- is invisible
# in this process, where everything is imported already).  One source, executed in the child and in-process.

SMOKE_SRC = r'''
import sys
from flow.record import RecordDescriptor, RecordReader, RecordWriter      # nothing else of flow.record is imported


def smoke(typename, path):
    import datetime as dt
    md5, sha1 = "d41d8cd98f00b204e9800998ecf8427e", "da39a3ee5e6b4b0d3255bfef95601890afd80709"
    ts = dt.datetime(2023, 5, 6, 7, 8, 9, 123456, tzinfo=dt.timezone.utc)
    table = {
        "string": ("a\udcff\u20ac", ["", "x"]), "wstring": ("w", ["w"]), "uri": ("http://example.com/a?b=c", ["ftp://h/x"]),
        "varint": (2 ** 70, [0, -1]), "filesize": (1024, [0]), "unix_file_mode": (0o644, [0o755]), "uint16": (65535, [0, 1]),
        "uint32": (2 ** 32 - 1, [7]), "boolean": (True, [False, True]), "float": (1.5, [0.0, -2.25]), "bytes": (b"\x00\xff", [b"", b"ab"]),
        "datetime": (dt.datetime(1999, 12, 31, 23, 59, 59, tzinfo=dt.timezone(dt.timedelta(hours=2))), [ts]), "path": ("/tmp/x", ["", "a/b"]),
        "digest": ((md5, sha1, None), [(md5, None, None)]), "net.ipaddress": ("::1", ["1.2.3.4"]), "net.ipnetwork": ("10.0.0.0/8", ["::/0"]),
        "net.IPAddress": ("0.0.0.1", ["::ffff:1.2.3.4"]), "net.IPNetwork": ("2001:db8::/32", ["192.168.1.1/32"]),
    }
    types = list(table) if typename == "*" else [typename]
    fields, kw = [], {}
    for i, t in enumerate(types):
        fields += [(t, "v%d" % i), (t + "[]", "l%d" % i)]
        kw["v%d" % i], kw["l%d" % i] = table[t]
    D = RecordDescriptor("smoke/t", fields)
    recs = [D(_generated=ts, _source="s", **kw), D(_generated=ts)]
    out = {}
    for on in (True, False):
        uri = "jsonfile://" + path + ("" if on else "?descriptors=false")
        w = RecordWriter(uri)
        for r in recs:
            w.write(r)
        w.close()
        with open(path) as fh:
            text = fh.read()
        rd = RecordReader("jsonfile://" + path)
        back = list(rd)
        rd.close()
        from vf import recgen      # observation only, after the write and the read
        out["text_%s" % on] = text
        out["obs_%s" % on] = [repr(recgen.canon(recgen.obs_record(x))) for x in back]
    return out


if __name__ == "__main__":
    import json
    try:
        res = smoke(sys.argv[1], sys.argv[2])
    except BaseException as e:
        import traceback
        res = {"error": "%s: %s" % (type(e).__name__, e), "traceback": traceback.format_exc()[-1500:]}
    print("@@SMOKE" + json.dumps(res))
'''


def smoke_fresh_processes(ctx, tmpd):
    """every supported type on its own (and all together) in a fresh interpreter; result = the in-process result"""
    import subprocess
    script = os.path.join(tmpd, "smoke_child.py")
    with open(script, "w") as fh:
        fh.write(SMOKE_SRC)
    ns = {"__name__": "smoke_inproc"}
    exec(compile(SMOKE_SRC, "<smoke>", "exec"), ns)
    procs = []
    for i, t in enumerate(SCALARS + ["*"]):
        path = os.path.join(tmpd, "smoke_%d.json" % i)
        pr = subprocess.Popen([core.PY, script, t, path], env=core.env_for_repo(), cwd=tmpd, stdout=subprocess.PIPE,
                              stderr=subprocess.STDOUT, text=True, errors="replace")
        procs.append((t, path, pr))
    for t, path, pr in procs:
        try:
            outp, _ = pr.communicate(timeout=120)
        except subprocess.TimeoutExpired:
            pr.kill()
            outp = ""
        ctx.count_case(("fresh-process", t), nontrivial=False)
        lines = [ln for ln in outp.splitlines() if ln.startswith("@@SMOKE")]
        child = json.loads(lines[-1][7:]) if lines else {"error": "no result from the child interpreter", "traceback": outp[-1500:]}
        here = ns["smoke"](t, path + ".here")
        here = {k: (v.replace(path + ".here", path) if isinstance(v, str) else v) for k, v in here.items()}
        if "error" in child:
            raise Failure("fresh-process", "in a fresh interpreter that imported only flow.record, writing / reading a record with a %s field "
                          "through jsonfile:// raises %s (the same works in this process)" % (
                              "field of every type" if t == "*" else t, child["error"]),
                          dict(fieldtype=t, traceback=child.get("traceback")))
        for k in sorted(here):
            if child.get(k) != here[k]:
                raise Failure("fresh-process", "in a fresh interpreter that imported only flow.record, a record with a %s field gives a different "
                              "%s than in this process" % (t, "text" if k.startswith("text") else "read-back"),
                              dict(fieldtype=t, which=k, child=str(child.get(k))[:600], here=str(here[k])[:600]))


def probe_notes(ctx, tmpd):
    """behaviour outside the property's claim, recorded in the evidence only"""
    import sys

    from flow.record import RecordDescriptor
    from flow.record.fieldtypes import path as frpath
    D = RecordDescriptor("probe/notes", [("path", "p"), ("varint", "n")])
    pth = os.path.join(tmpd, "notes.json")
    write_impl([D(p=frpath.from_windows("c:\\x\\y"), _generated=recgen.T0)], pth, "direct", True, None)
    back = read_impl(pth, "direct")
    ctx.notes.append("outside the claim: a Windows-flavoured path %r is read back as %s (%r) -- the property only claims POSIX paths" % (
        "c:\\x\\y", type(back[0].p).__name__, str(back[0].p)))
    lim = sys.get_int_max_str_digits()
    if lim:
        try:
            write_impl([D(n=10 ** lim, _generated=recgen.T0)], pth, "direct", True, None)
            res = "written"
        except ValueError as e:
            res = "json.dumps raises ValueError (%s)" % str(e)[:60]
        ctx.notes.append("environment limit: an integer of %d digits: %s -- CPython's sys.get_int_max_str_digits()=%d bounds "
                         "'integers of any size' for every text format" % (lim + 1, res, lim))


# ------------------------------------------------------------------------------------------------

def report_failure(ctx, e, tag, records, seed_info):
    ctx.violation("%s [%s]" % (e.what, tag),
                  dict(kind="sequence", cls=e.cls, tag=tag, detail=e.detail, records=[rec_repr(r) for r in records], **seed_info))


# ------------------------------------------------------------------------------------------------
# the writer's options: indent (int, None, and TEXT in every spelling) and descriptors, through the constructor and
# through the URL query

INDENT_TEXTS = ["2", "0", "02", "007", "10", " 2", "2 ", "  4  ", "\t2\n", "+2", "-1", "+0", "-0", "1_0", "1_0_0", "", " ", "abc", "2.0",
                "1e1", "0x2", "+", "-", "- 1", "_1", "1_", "1__0", "2 2", "two", "\t", "None", "nan", "٣"]
INDENT_VALUES = [None, 0, 1, 2, 7, -1]
DESCRIPTOR_ARGS = [True, False, "true", "True", "TRUE", "1", 1, "false", "False", "0", 0, "", "yes", "no", " true", "2", None]


def py_int(text):
    try:
        return int(text)
    except ValueError:
        return None


def run_options(ctx, records, tmpd, tag):
    """every accepted setting gives a sequence of strict-JSON documents whose trees are the trees written without
    indentation; a text that denotes no number is refused at construction.  Raises Failure."""
    from urllib.parse import quote

    from flow.record import RecordWriter
    from flow.record.adapter.jsonfile import JsonfileWriter
    base = {}
    for on in (True, False):
        path = os.path.join(tmpd, "opt_base_%d.json" % on)
        base[on] = [parse_tree(d) for d in write_impl(records, path, "direct", on, None).split("\n")[:-1]]

    def attempt(make):
        """(stage at which it raised or None, exception, text)"""
        path = os.path.join(tmpd, "opt.json")
        try:
            w = make(path)
        except Exception as e:  # noqa
            return "construction", e, None
        try:
            try:
                for r in records:
                    w.write(r)
                w.flush()
            finally:
                w.close()
        except Exception as e:  # noqa
            return "write", e, None
        with open(path, "r", newline="") as fh:
            return None, None, fh.read()

    def documents(text, what):
        try:
            docs = split_documents(text)
        except ValueError as e:
            raise Failure("option-not-json", "%s: the output is not a sequence of JSON documents (%s); it starts %r" % (what, str(e)[:60], text[:40]),
                          dict(setting=what, head=text[:200]))
        out = []
        for d in docs:
            try:
                strict_parse(d)
            except ValueError as e:
                raise Failure("option-not-json", "%s: a document is rejected by the strict parser: %s" % (what, e), dict(setting=what, document=d[:200]))
            out.append(parse_tree(d))
        return out

    for on in (True, False):
        settings = [("constructor indent=%r" % v, v, lambda p, v=v: JsonfileWriter(p, indent=v, descriptors=on), True) for v in INDENT_VALUES]
        for t in INDENT_TEXTS:
            settings.append(("constructor indent=%r" % t, t, lambda p, t=t: JsonfileWriter(p, indent=t, descriptors=on), True))
            q = "" if on else "&descriptors=false"
            settings.append(("URL ?indent=%s" % quote(t), t, lambda p, t=t: RecordWriter("jsonfile://%s?indent=%s%s" % (p, quote(t), q)), False))
            if "+" in t and "%" not in t and "&" not in t:
                # an unquoted + in a query decodes to a blank
                settings.append(("URL ?indent=%s" % t, t.replace("+", " "), lambda p, t=t: RecordWriter("jsonfile://%s?indent=%s%s" % (p, t, q)), False))
        for what, v, make, ctor in settings:
            what = "%s, descriptors=%s" % (what, on)
            ctx.count_case(("option", tag, what), nontrivial=False)
            stage, exc, text = attempt(make)
            blank_query = (not ctor) and isinstance(v, str) and v == ""       # `?indent=` is dropped by the query parser: no indentation
            accepted = v is None or isinstance(v, int) or blank_query or py_int(v) is not None
            if accepted:
                if stage:
                    raise Failure("option-refused", "%s: %s raises %s: %s -- int() reads the number %r from this text" % (
                        what, stage, type(exc).__name__, str(exc)[:80], py_int(v) if isinstance(v, str) else v), dict(setting=what))
                if documents(text, what) != base[on]:
                    raise Failure("option-documents", "%s: the documents differ from the documents written without indentation" % what, dict(setting=what))
                if (v is None or blank_query) and text.count("\n") != len(base[on]):
                    raise Failure("option-layout", "%s: not one document per line" % what, dict(setting=what))
            else:
                if stage != "construction" or not isinstance(exc, ValueError):
                    how = "no error; the output starts %r" % text[:30] if stage is None else "%s raises %s" % (stage, type(exc).__name__)
                    if stage is None:
                        documents(text, what)        # the stronger complaint first: the output is not JSON
                    raise Failure("option-unrefused", "%s: the text denotes no number but is not refused with a ValueError at construction (%s)" % (what, how),
                                  dict(setting=what))
    # descriptors=
    for d in DESCRIPTOR_ARGS:
        for ctor in (True, False):
            if not ctor and not isinstance(d, str):
                continue
            if ctor:
                what = "constructor descriptors=%r" % (d,)
                make = (lambda p: JsonfileWriter(p)) if d is None else (lambda p, d=d: JsonfileWriter(p, descriptors=d))
            else:
                what = "URL ?descriptors=%s" % quote(d)
                make = lambda p, d=d: RecordWriter("jsonfile://%s?descriptors=%s" % (p, quote(d)))  # noqa: E731
            ctx.count_case(("option", tag, what), nontrivial=False)
            stage, exc, text = attempt(make)
            if stage:
                raise Failure("option-descriptors", "%s: %s raises %s" % (what, stage, type(exc).__name__), dict(setting=what))
            trees = documents(text, what)
            blank_query = (not ctor) and d == ""
            must = True if d in (True, "true", None) or blank_query else False if d in (False, "false") else None
            if not (trees == base[True] and must in (True, None) or trees == base[False] and must in (False, None)):
                raise Failure("option-descriptors", "%s: the output is neither the descriptors=true nor the descriptors=false output%s" % (
                    what, "" if must is None else " expected for it"), dict(setting=what))


# ------------------------------------------------------------------------------------------------
# refused writes: the application catches the exception of write() and carries on

def poison(rnd, r):
    """make the record unserialisable behind the field types' back; returns the poisoned slot names (empty: not possible)"""
    import sys
    lim = sys.get_int_max_str_digits()
    fields = list(r._desc.get_field_tuples())
    lists = [n for t, n in fields if t.endswith("[]") and isinstance(getattr(r, n), list)]
    ints = [n for t, n in fields if t in ("varint", "filesize", "unix_file_mode")] if lim else []
    choices = [("list", n) for n in lists] + [("int", n) for n in ints]
    if not choices:
        return set()
    kind, n = rnd.choice(choices) if rnd else choices[0]
    if kind == "list":
        getattr(r, n).append(rnd.choice([object(), {1, 2}, 1 + 2j]) if rnd else object())   # a raw element json.dumps has no encoding for
    else:
        setattr(r, n, 10 ** lim)         # one digit more than the interpreter converts to text
    return {n}


def refused_histories(ctx, n_random):
    """(tag, records, {index: poisoned slots}, replay info)"""
    from flow.record import RecordDescriptor
    T0 = recgen.T0
    P = RecordDescriptor("refuse/p", [("uint16[]", "ports"), ("string", "s"), ("varint", "n")])
    Q = RecordDescriptor("refuse/q", [("string", "t")])
    K = RecordDescriptor("refuse/kw", [("varint", "from"), ("bytes[]", "in")])
    good = lambda i: P(ports=[1, i], s="g%d" % i, n=i, _generated=T0)          # noqa: E731
    q = lambda i: Q(t="q%d" % i, _generated=T0)                                # noqa: E731
    kw = lambda i: build_record(K, {"from": i, "in": [b"x"], "_generated": T0})  # noqa: E731

    def bad(i, how):
        r = good(i)
        if how == "list":
            r.ports.append(object())
            return r, {"ports"}
        import sys
        r.n = 10 ** (sys.get_int_max_str_digits() or 4300)
        return r, {"n"}

    def kwbad(i):
        r = kw(i)
        getattr(r, "in").append({1})
        return r, {"in"}
    import sys
    hows = ["list"] + (["int"] if sys.get_int_max_str_digits() else [])
    scen = {}
    for how in hows:
        scen["first-of-type-refused-" + how] = [bad(0, how), good(1), good(2)]
        scen["refused-between-" + how] = [good(0), bad(1, how), good(2), q(3)]
        scen["two-refused-" + how] = [bad(0, how), bad(1, how), good(2), q(3)]
        scen["other-type-then-refused-first-" + how] = [q(0), bad(1, how), good(2), q(3), good(4)]
        scen["only-refused-" + how] = [bad(0, how)]
    scen["keyword-type-refused-first"] = [kwbad(0), kw(1), q(2), kwbad(3), kw(4)]
    A, B = (RecordDescriptor(n, f) for n, f in COLLIDING)
    scen["refused-then-colliding"] = [bad(0, "list"), A(x="a", stringy=1, _generated=T0), B(xstring="b", y=2, _generated=T0), bad(3, "list"), good(4),
                                      A(x="c", stringy=3, _generated=T0)]
    for name, items in scen.items():
        recs = [x[0] if isinstance(x, tuple) else x for x in items]
        badmap = {i: x[1] for i, x in enumerate(items) if isinstance(x, tuple)}
        yield "refused/" + name, recs, badmap, dict(refused=name)
    for i in range(n_random):
        rnd = random.Random("%d/C14/refused/%d" % (ctx.seed, i))
        recs = gen_sequence(rnd, finite_only=True)
        badmap = {}
        for j, r in enumerate(recs):
            if any(r is x for x in recs[:j]):
                continue
            if rnd.random() < 0.4:
                slots = poison(rnd, r)
                if slots:
                    badmap[j] = slots
        yield "refused/s%d" % i, recs, badmap, dict(refused_index=i)


def run_refused(ctx, records, badmap, tmpd, tag, coq_cases, metas):
    """oracle: every record whose write succeeded reads back, in order; every line is a strict JSON document; the
    documents are the descriptor documents (before the first ATTEMPT that needs them) and the accepted records' documents"""
    from flow.record.adapter.jsonfile import JsonfileWriter
    descs = []
    for r in records:
        if r._desc not in descs:
            descs.append(r._desc)
    tbl = "[%s]" % "; ".join("(%s, %s)" % (coq_desc(d.name, d.get_field_tuples()), cZ(d.descriptor_hash)) for d in descs)
    rs_lit = "[%s]" % "; ".join(coq_record(r, refused=badmap.get(i, ())) for i, r in enumerate(records))
    for on in (True, False):
        path = os.path.join(tmpd, "refused_%d.json" % on)
        w = JsonfileWriter(path, descriptors=on)
        flags, errors = [], []
        try:
            for i, r in enumerate(records):
                try:
                    w.write(r)
                    flags.append(True)
                except Exception as e:  # noqa -- the application carries on
                    flags.append(False)
                    errors.append("%d: %s: %s" % (i, type(e).__name__, str(e)[:60]))
            w.flush()
        finally:
            w.close()
        want_flags = [i not in badmap for i in range(len(records))]
        if flags != want_flags:
            raise Failure("refused-flags", "writes refused %r, expected exactly the poisoned records %r" % (
                [i for i, f in enumerate(flags) if not f], sorted(badmap)), dict(errors=errors))
        ok = [r for r, f in zip(records, flags) if f]
        with open(path, "r", newline="") as fh:
            text = fh.read()
        lines = text.split("\n")[:-1] if text.endswith("\n") or not text else None
        if lines is None:
            raise Failure("refused-layout", "after a refused write the output does not end with a newline", dict(tail=text[-200:]))
        trees = []
        for k, ln in enumerate(lines):
            try:
                strict_parse(ln)
                trees.append(parse_tree(ln))
            except ValueError as e:
                raise Failure("refused-not-json", "after a refused write line %d is not a JSON document: %s" % (k, e), dict(line=ln[:300], errors=errors))
        # expected documents: descriptor document at the first attempt that needs it, record documents of the accepted writes
        reg, exp = {}, []
        for r, f in zip(records, flags):
            d = r._desc
            if reg.get(d.identifier) != (d.name, tuple(d.get_field_tuples())):
                reg[d.identifier] = (d.name, tuple(d.get_field_tuples()))
                if on:
                    exp.append(spec_descriptor_tree(d))
            if f:
                exp.append(spec_record_tree(r, on))
        problem = None
        if on:
            # the property: what was accepted reads back
            try:
                back = read_impl(path, "direct")
                if [obs(x) for x in back] != [obs(x) for x in ok]:
                    problem = "%d records read back, %d writes succeeded%s" % (len(back), len(ok), "" if len(back) != len(ok) else " (values differ)")
            except Exception as e:  # noqa
                back = None
                problem = "reading back raises %s: %s" % (type(e).__name__, str(e)[:120])
            # every record line is preceded by its descriptor line
            if problem is None:
                seen = set()
                for t in trees:
                    m = dict(t[1])
                    if m.get("_type") == ("str", "recorddescriptor"):
                        seen.add(m["_data"][1][0][1])
                    elif m.get("_type") == ("str", "record") and m["_recorddescriptor"][1][0][1] not in seen:
                        problem = "a record line of %s is not preceded by its descriptor line" % m["_recorddescriptor"][1][0][1]
        else:
            back = read_impl(path, "direct")
            opaques = check_plain_readback(ok, [t for t in trees], back) if len(trees) == len(ok) else None
        if problem is None and trees != exp:
            problem = "the file holds %d documents, expected %d (descriptor documents at first use + the %d accepted records)" % (len(trees), len(exp), len(ok))
        if problem:
            raise Failure("refused-write", "the application carried on after refused write(s) (%s), descriptors=%s: %s" % (
                "; ".join(errors)[:160], on, problem), dict(errors=errors, documents=[dict(t[1]).get("_type", ("", "plain"))[1] for t in trees]))
        docs_lit = "[%s]" % "; ".join(coq_tree(t) for t in trees)
        coq_cases.append("wt_ok %s %s %s %s" % ("true" if on else "false", tbl, rs_lit, docs_lit))
        metas.append(dict(tag=tag, on=on, part="model tolerant writer = implementation documents after refused writes"))
        if on:
            coq_cases.append("r_ok %s %s [%s]" % (tbl, docs_lit, "; ".join(coq_record(x) for x in back)))
            metas.append(dict(tag=tag, on=on, part="model reader = implementation read-back after refused writes"))
            coq_cases.append("acc_ok %s %s [%s]" % (tbl, rs_lit, "; ".join("true" if f else "false" for f in flags)))
            metas.append(dict(tag=tag, on=on, part="writes the model refuses = writes the implementation refused"))


def report_refused(ctx, e, tag, records, badmap, info):
    ctx.violation("%s [%s]" % (e.what, tag),
                  dict(kind="refused", cls=e.cls, tag=tag, detail=e.detail, poisoned={str(k): sorted(v) for k, v in badmap.items()},
                       records=[rec_repr(r) if i not in badmap else dict(type=r._desc.name, poisoned=sorted(badmap[i])) for i, r in enumerate(records)], **info))


def sequences_for(ctx, n_random):
    """(tag, records, replay info) for the fixed probes and the seeded random histories"""
    for tag, recs in fixed_sequences():
        yield tag, recs, dict(probe=tag)
    for i in range(n_random):
        rnd = random.Random("%d/C14/%d" % (ctx.seed, i))
        yield "s%d" % i, gen_sequence(rnd), dict(index=i)


def search(ctx, reason):
    """The proof / translator broke: look for a concrete failing input on the implementation with the
    python-side oracle (per-type mapping, document order, strict parser, read-back identity)."""
    kf = core.known_for("C14")
    tmpd = tempfile.mkdtemp(prefix="c14s.", dir=str(ctx.work))
    for tag, recs, info in sequences_for(ctx, 150):
        try:
            run_sequence(ctx, recs, tmpd, tag, kf, [], [], variants=True)
        except Failure as e:
            report_failure(ctx, Failure(e.cls, "%s; failing input: %s" % (reason, e.what), e.detail), tag, recs, info)
            return True
        except Exception as e:  # noqa
            report_failure(ctx, Failure("exception", "%s; failing input: %s: %s" % (reason, type(e).__name__, str(e)[:200])), tag, recs, info)
            return True
    for tag, recs, info in sequences_for(ctx, 2):
        if tag in ("all-types", "identifier-collision", "s0", "s1"):
            try:
                run_options(ctx, recs, tmpd, tag)
            except Failure as e:
                report_failure(ctx, Failure(e.cls, "%s; failing input: %s" % (reason, e.what), e.detail), tag, recs, info)
                return True
    for tag, recs, badmap, info in refused_histories(ctx, 30):
        try:
            run_refused(ctx, recs, badmap, tmpd, tag, [], [])
        except Failure as e:
            report_refused(ctx, Failure(e.cls, "%s; failing input: %s" % (reason, e.what), e.detail), tag, recs, badmap, info)
            return True
        except Exception as e:  # noqa
            report_refused(ctx, Failure("exception", "%s; failing input: %s: %s" % (reason, type(e).__name__, str(e)[:200])), tag, recs, badmap, info)
            return True
    try:
        smoke_fresh_processes(ctx, tmpd)
    except Failure as e:
        ctx.violation("%s; failing input: %s" % (reason, e.what), dict(kind="sequence", cls=e.cls, probe="fresh-process", detail=e.detail))
        return True
    return False


def run(ctx):
    kf = core.known_for("C14")
    ctx.coverage["rule"] = (
        "a case = one write history (1..7 records over 1..5 descriptors drawn from the JSON-supported scalar and list "
        "types, incl. descriptors sharing a name or the whole identifier and descriptors with keyword-named fields "
        "(generic constructor); records are constructed positionally, falsy-but-set values drawn often) x descriptors on/off, evaluated by the "
        "implementation AND by the model inside Coq (document trees, reader); distinct = distinct (descriptor field "
        "types, value classes per field, descriptors on/off); non-trivial = the history holds at least one set "
        "(non-None) value. Variants (RecordWriter by extension / jsonfile:// URI, indent=2) are compared with the "
        "base text / trees and counted as evaluations only; plus REFUSED-WRITE histories (a record json.dumps refuses -- a raw "
        "object in a typed list, an integer beyond the int/str limit -- first of its type / between / twice, the application carries "
        "on: accepted records read back in order, documents = model's tolerant writer, evaluated in Coq); plus the OPTION dimension "
        "(indent as None / int / text in every spelling int() accepts or rejects, descriptors in its spellings, through the constructor "
        "and the URL query: accepted settings give strict-JSON documents equal to the unindented ones, other texts are refused at "
        "construction; counted as evaluations only); plus a fresh-interpreter smoke (child process importing only "
        "flow.record, one per supported type and one with all types: text and read-back = in-process result)")
    ok = core.standard_proof_stage(ctx, ["props/C14.vo"], "C14", THEOREMS, search_fn=search, gens=["gen_json"])
    ctx.assumptions += [
        "json.dumps / json.loads (text level) are outside the model: the model works on document TREES; on every case "
        "the implementation's text is parsed (strict parser for the JSON-grammar claim) and the trees are compared. "
        "Assumed of CPython's json: loads(dumps(t)) = t for trees whose strings hold no high surrogate immediately "
        "followed by a low surrogate, ints shorter than sys.get_int_max_str_digits() digits, floats by bit pattern "
        "(repr round trip)",
        "base64.b64encode / b64decode and datetime.isoformat / fromisoformat are modelled by executable Gallina functions "
        "(b64_encode/b64_decode, iso_format/iso_parse) whose round trips are proved; their agreement with CPython is "
        "validated on every generated value (the python oracle uses the library functions, Coq evaluates the model)",
        "net.ipaddress / net.ipnetwork / path values enter the model as their text form str(obj); that parsing the text "
        "gives back the same address / network / POSIX path is validated by the deep observation (family + integer, "
        "compressed network text, path text + flavour), not proved",
        "digest values enter as the hex texts the object holds; hex validity / length is the hypothesis hex_ok",
        "descriptor_hash is a parameter HASH of the model (any function; no injectivity needed); the cases pass the "
        "implementation's hashes as a table",
        "Python's str() of a parsed list / dict (fallback reader, descriptors=false) is not modelled (VOpaque); the check "
        "compares it with str() of the parsed value in Python",
        "field types outside the property's list (command, record, stringlist, dictlist, dynamic, Windows-flavoured paths, "
        "net.ipv4.*, net.tcp/udp.Port) are not generated",
    ]
    if not ok:
        return
    tmpd = tempfile.mkdtemp(prefix="c14.", dir=str(ctx.work))
    n_random = 110 if ctx.tier == "quick" else 1200
    coq_cases, metas = [], []
    seqs = {}
    for tag, recs, info in sequences_for(ctx, n_random):
        seqs[tag] = (recs, info)
        for on in (True, False):
            canon = (tuple(tuple(t for t, _ in r._desc.get_field_tuples()) for r in recs),
                     tuple(tuple(spec_value(t, getattr(r, n))[0] for t, n in r._desc.get_field_tuples()) for r in recs), on)
            nontrivial = any(getattr(r, n) is not None for r in recs for _, n in r._desc.get_field_tuples())
            ctx.count_case(canon, nontrivial=nontrivial)
        try:
            run_sequence(ctx, recs, tmpd, tag, kf, coq_cases, metas, variants=(ctx.tier != "quick" or len(seqs) % 3 == 0 or not tag.startswith("s")))
        except Failure as e:
            report_failure(ctx, e, tag, recs, info)
            return
        except Exception as e:  # noqa
            import traceback
            report_failure(ctx, Failure("exception", "%s: %s" % (type(e).__name__, str(e)[:300]), dict(tb=traceback.format_exc()[-1500:])), tag, recs, info)
            return
        if len(ctx.coverage["samples"]) < 4 and tag in ("all-types", "s0", "s1", "identifier-collision"):
            ctx.sample(dict(tag=tag, records=[rec_repr(r) for r in recs][:2]))
    for tag in ("all-types", "identifier-collision", "keyword-all-types", "s0", "s1") + (() if ctx.tier == "quick" else tuple("s%d" % i for i in range(2, 12))):
        recs, info = seqs[tag]
        if any(record_has_nonfinite(r) for r in recs):
            continue
        try:
            run_options(ctx, recs, tmpd, tag)
        except Failure as e:
            report_failure(ctx, e, tag, recs, info)
            return
    for tag, recs, badmap, info in refused_histories(ctx, 25 if ctx.tier == "quick" else 250):
        seqs[tag] = (recs, info)
        ctx.count_case(("refused", tag, tuple(sorted(badmap)), tuple(r._desc.name for r in recs)), nontrivial=bool(badmap))
        try:
            run_refused(ctx, recs, badmap, tmpd, tag, coq_cases, metas)
        except Failure as e:
            report_refused(ctx, e, tag, recs, badmap, info)
            return
        except Exception as e:  # noqa
            import traceback
            report_refused(ctx, Failure("exception", "%s: %s" % (type(e).__name__, str(e)[:300]), dict(tb=traceback.format_exc()[-1500:])), tag, recs, badmap, info)
            return
    probe_split_pair(ctx, tmpd, kf)
    probe_nan_payload(ctx, tmpd, kf)
    probe_notes(ctx, tmpd)
    try:
        smoke_fresh_processes(ctx, tmpd)
    except Failure as e:
        ctx.violation(e.what, dict(kind="sequence", cls=e.cls, probe="fresh-process", detail=e.detail))
        return
    # model = implementation, evaluated inside Coq
    failing, err = core.eval_bool_cases(ctx, HEADER, coq_cases, shard_size=15, name="c14")
    if err:
        ctx.violation("correspondence shards did not evaluate: " + err[:300], dict(kind="coq-eval", log=err), no_input=True)
        return
    ctx.coverage["traces_validated_against_impl"] = len(coq_cases) - len(failing)
    if failing:
        m = metas[failing[0]]
        recs, info = seqs[m["tag"]]
        ctx.violation("model/Json.v and the implementation disagree on %d of %d evaluations; first: history %s, descriptors=%s: %s "
                      "(the python-side oracle accepted the case)" % (len(failing), len(coq_cases), m["tag"], m["on"], m["part"]),
                      dict(kind="correspondence", correspondence="C14 documents/read-back vs model/Json.v", first=m,
                           records=[rec_repr(r) for r in recs], failing=[metas[i] for i in failing[:20]], **info), no_input=True)


def replay(obj):
    kf = core.known_for("C14")

    class _C:       # minimal context
        work = core.WORK
        seed = obj.get("seed", 0)
        tier = "quick"

        def count_case(self, *a, **k):
            pass

        seen = set()

        def known_finding(self, fid, what):
            if fid not in self.seen:
                self.seen.add(fid)
                print("KNOWN-FINDING: property=C14 %s" % what)

        def violation(self, what, o, no_input=False):
            print("# " + what)
            self.bad = True
    c = _C()
    c.bad = False
    if obj.get("kind") == "refused":
        tmpd = tempfile.mkdtemp(prefix="c14r.", dir=str(core.WORK))
        try:
            want = obj.get("tag")
            for tag, recs, badmap, info in refused_histories(c, (obj.get("refused_index", -1) + 1)):
                if tag == want:
                    try:
                        run_refused(c, recs, badmap, tmpd, tag, [], [])
                    except Failure as e:
                        print("replay: still fails: %s" % e.what)
                        return 1
                    print("replay: the case passes now")
                    return 0
            print("replay: history %s not found" % want)
            return 2
        finally:
            import shutil
            shutil.rmtree(tmpd, ignore_errors=True)
    if obj.get("kind") != "sequence":
        print("replay of kind %s: re-run ./check C14" % obj.get("kind"))
        return 2
    tmpd = tempfile.mkdtemp(prefix="c14r.", dir=str(core.WORK))
    try:
        if obj.get("probe") == "split-pair":
            probe_split_pair(c, tmpd, [])
            return 1 if c.bad else 0
        if obj.get("probe") == "fresh-process":
            try:
                smoke_fresh_processes(c, tmpd)
            except Failure as e:
                print("replay: still fails: %s" % e.what)
                return 1
            print("replay: the case passes now")
            return 0
        if obj.get("probe") == "nan-payload":
            probe_nan_payload(c, tmpd, [])
            return 1 if c.bad else 0
        if "probe" in obj:
            recs = dict(fixed_sequences())[obj["probe"]]
        else:
            recs = gen_sequence(random.Random("%d/C14/%d" % (obj["seed"], obj["index"])))
        try:
            run_sequence(c, recs, tmpd, "replay", kf, [], [], variants=True)
            if not any(record_has_nonfinite(r) for r in recs):
                run_options(c, recs, tmpd, "replay")
        except Failure as e:
            print("replay: still fails: %s" % e.what)
            return 1
        print("replay: the case passes now")
        return 0
    finally:
        import shutil
        shutil.rmtree(tmpd, ignore_errors=True)
