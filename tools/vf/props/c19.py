"""C19 -- Avro export preserves supported values and never corrupts silently.

proof:   coq/props/C19.v  (theorems about model/Avro.v instantiated with the GENERATED facts of gen/Gen_avro.v:
         AVRO_TYPE_MAP / RECORD_TYPE_MAP / RESERVED_FIELDS, the unions descriptor_to_schema builds, the doc-detection
         condition, the reader's guard, AvroWriter.write/flush/close as statement lists)
tie:     (T) gen/Gen_avro.v regenerated from flow/record/adapter/avro.py on every run
         (C) sessions (write / flush ... close) over descriptors of the Avro-mapped types x boundary values are run
             through RecordWriter("x.avro"); the file is read back with AvroReader and with fastavro.reader; the
             accept/refuse decisions, the read-back records, the raw data and the writer schema are compared with the
             model evaluated inside Coq; independent Python oracles check what the property states.  Files written
             by fastavro directly (plain-long datetime columns, schemas without doc) check the reader side.
"""
from __future__ import annotations

import ctypes
import datetime as pydt
import json
import os
import random
import struct

from vf import core
from vf.coqlit import cbool

PID = "C19"
THEOREMS = [
    "C19_generated_schema_probes", "C19_generated_writer_code", "C19_generated_facts",
    "C19_descriptor_carried", "C19_doc_detected_iff_fields", "C19_field_roundtrip",
    "C19_never_altered", "C19_refuses_unmapped_type", "C19_refuses_out_of_range_integer", "C19_integer_ranges",
    "C19_refuses_second_descriptor", "C19_refuses_missing_values", "C19_accepts_representable",
    "C19_roundtrip", "C19_roundtrip_with_refusals",
    "C19_without_dry_run_refuted", "C19_initial_flush_harmless", "C19_timestamp_out_of_python_range_refuted",
    "C19_digest_unwritable_refuted", "C19_hyp_satisfiable", "C19_reader_guard", "C19_export_idempotent",
]
UTC = pydt.timezone.utc
EPOCH = pydt.datetime(1970, 1, 1, tzinfo=UTC)
MIN_US = -62135596800000000
MAX_US = 253402300799999999
READER_GUARD = 0xFFFFFFFF      # the documented constant of AvroReader.__iter__ (spec side of the reader probe)

# the documented mapping (spec side of the oracle; NOT read from the code)
SPEC_MAP = {
    "boolean": "boolean", "datetime": "timestamp-micros", "filesize": "long", "unix_file_mode": "long", "varint": "long",
    "uint16": "int", "uint32": "int", "float": "float", "string": "string", "wstring": "string", "uri": "string",
    "bytes": "bytes", "digest": "bytes",
}
RESERVED = [("string", "_source"), ("string", "_classification"), ("datetime", "_generated"), ("varint", "_version")]
UNMAPPED = ["path", "command", "net.ipaddress", "net.ipnetwork", "stringlist", "dictlist", "dynamic", "record",
            "string[]", "varint[]", "datetime[]", "bytes[]", "uint16[]", "float[]", "digest[]", "boolean[]",
            "net.IPAddress", "net.IPNetwork", "uri[]"]

FLOATS = [0.0, -0.0, 1.5, -2.25, 3.141592653589793, 16777216.0, 16777217.0, 16777219.0, 1e39, -1e39, 1e300,
          3.4028234663852886e38, 3.4028235677973366e38, 3.402823466385289e38, 1.401298464324817e-45, 7e-46, 5e-324, 1e-46,
          1.1754943508222875e-38, 1.1754942106924411e-38, float("inf"), float("-inf"), float("nan"), 0.1, 1 / 3]
INTS = [0, 1, -1, 255, 65535, 65536, 2**31 - 1, 2**31, -2**31, -2**31 - 1, 2**32 - 1, 2**32, 2**63 - 1, 2**63, -2**63,
        -2**63 - 1, 2**64, 10**30, -10**30]
TEXTS = ["", "a", "plain text", "h\u00e9llo \u20ac", "\U0001f600 astral", "nul\x00inside", "quote\" back\\slash", "line\nbreak\ttab",
         "\x02\x02\x02\x02", "x" * 300, "\ufffd\uffff", "\ud7ff\ue000"]
SURROGATE_TEXTS = ["a\udcff", "\udc80", "\ud800", "ok\udfffend", "\udcc3\udca9"]
BYTESES = [b"", b"\x00", b"\x00\xff", bytes(range(256)), b"abc", b"\x02\x02\x02\x02", b"z" * 300]


# ------------------------------------------------------------------------------------------------
# value specs (JSON-able) <-> python values <-> observations

def dt_spec(d):
    off = d.utcoffset()
    off_us = None if off is None else (off.days * 86400 + off.seconds) * 10**6 + off.microseconds
    return ["dt", [d.year, d.month, d.day, d.hour, d.minute, d.second, d.microsecond], off_us]


def mk_value(spec):
    k = spec[0]
    if k == "none":
        return None
    if k in ("bool", "int"):
        return spec[1]
    if k == "float":
        return struct.unpack(">d", struct.pack(">Q", spec[1]))[0]
    if k == "text":
        return "".join(chr(c) for c in spec[1])
    if k == "bytes":
        return bytes.fromhex(spec[1])
    if k == "dt":
        tz = None if spec[2] is None else pydt.timezone(pydt.timedelta(microseconds=spec[2]))
        return pydt.datetime(*spec[1], tzinfo=tz)
    if k == "digest":
        return tuple(spec[1])
    raise ValueError(spec)


def float_bits(f):
    return struct.unpack(">Q", struct.pack(">d", float.__float__(f)))[0]


NAN = 0x7FF8000000000000


def canon_bits(b):
    """all NaNs are one value (the property: NaN stays NaN)"""
    if (b & 0x7FF0000000000000) == 0x7FF0000000000000 and (b & 0x000FFFFFFFFFFFFF):
        return NAN
    return b


def to_f32_bits(b):
    """C conversion double -> float -> double on bit patterns (what a 4-byte Avro float can hold)"""
    x = struct.unpack(">d", struct.pack(">Q", b))[0]
    return canon_bits(float_bits(ctypes.c_float(x).value))


def td_us(td):
    return (td.days * 86400 + td.seconds) * 10**6 + td.microseconds


def obs(v):
    """observation of a python value (what _packdict hands to fastavro / what a reader returns)"""
    if v is None:
        return ("none",)
    if isinstance(v, bool):
        return ("bool", bool(v))
    if isinstance(v, int):
        return ("int", int(v))
    if isinstance(v, float):
        return ("float", canon_bits(float_bits(v)))
    if isinstance(v, str):
        return ("text", tuple(ord(c) for c in v))
    if isinstance(v, (bytes, bytearray)):
        return ("bytes", bytes(v))
    if isinstance(v, pydt.datetime):
        if v.tzinfo is None:
            return ("other", "naive datetime %r" % (v,))
        return ("dt", td_us(v - EPOCH), td_us(v.utcoffset()))
    if isinstance(v, tuple) and len(v) == 3:
        return ("digest",)
    return ("other", repr(v)[:60])


def c_ns(xs):
    return "[" + ";".join(str(int(x)) for x in xs) + "]"


def cZ(n):
    return "(%d)%%Z" % n


def c_value(o):
    k = o[0]
    if k == "none":
        return "VNone"
    if k == "bool":
        return "(VBool %s)" % cbool(o[1])
    if k == "int":
        return "(VInt %s)" % cZ(o[1])
    if k == "float":
        return "(VFloat %d)" % o[1]
    if k == "text":
        return "(VText %s)" % c_ns(o[1])
    if k == "bytes":
        return "(VBytes %s)" % c_ns(o[1])
    if k == "dt":
        return "(VTime %s %s)" % (cZ(o[1]), cZ(o[2]))
    if k == "digest":
        return "VDigest"
    if k == "missing":
        return "VMissing"
    raise Unmodelled("value %r" % (o,))


class Unmodelled(Exception):
    pass


def c_str(s):
    if not all(32 <= ord(c) < 127 for c in s):
        raise Unmodelled("non-ASCII name %r" % s)
    return '"' + s.replace('"', '""') + '"'


def c_desc(name, fields):
    return "(Desc %s [%s])" % (c_str(name), "; ".join("(%s, %s)" % (c_str(t), c_str(n)) for t, n in fields))


def c_vals(os_, opaque_ok=False):
    return "[" + "; ".join("VNone" if (opaque_ok and o[0] == "other") else c_value(o) for o in os_) + "]"


def c_atype(t):
    if isinstance(t, str):
        return "(APrim %s)" % c_str(t)
    if isinstance(t, dict):
        if t.get("type") == "array" and not isinstance(t.get("items"), list):
            return "(AArray %s)" % c_atype(t["items"])
        if isinstance(t.get("type"), str) and set(t) <= {"type", "logicalType"}:
            lt = t.get("logicalType")
            return "(ADict %s %s)" % (c_str(t["type"]), "None" if lt is None else "(Some %s)" % c_str(lt))
    raise Unmodelled("schema type %r" % (t,))


def c_schema(s):
    fl = []
    for f in s.get("fields", []):
        ty = f["type"]
        if not isinstance(ty, list):
            ty = [ty]
        fl.append("(%s, [%s])" % (c_str(f["name"]), "; ".join(c_atype(t) for t in ty)))
    doc = s.get("doc")
    return "(Schema %s %s %s [%s])" % (c_str(s.get("namespace", "")), c_str(s.get("name", "")),
                                       "None" if doc is None else "(Some %s)" % c_str(doc), "; ".join(fl))


ERR_KINDS = ["EUnsupported", "EParse", "EAppend", "EMixed", "ENoWriter", "ENoSchema", "EValue", "EEncode"]


def err_kind(e):
    s = str(e)
    if type(e) is Exception and "Unsupported Avro type" in s:
        return "EUnsupported"
    if type(e) is Exception and "Mixed record types" in s:
        return "EMixed"
    if isinstance(e, UnicodeEncodeError):
        return "EEncode"
    if isinstance(e, AttributeError) and "NoneType" in s:
        return "ENoWriter"
    if isinstance(e, TypeError) and "NoneType" in s:
        return "ENoSchema"
    if isinstance(e, ValueError) and "appending" in s:
        return "EAppend"
    if type(e).__name__ in ("SchemaParseException", "UnknownType"):
        return "EParse"
    if isinstance(e, (ValueError, UnboundLocalError)):
        # UnboundLocalError: fastavro formats the refused filesize into its ValueError message and
        # filesize.__repr__ fails for huge values (see C20); the record is refused either way
        return "EValue"
    return "EOther:%s" % type(e).__name__


def c_outcome(o):
    if o == "ok":
        return "Accepted"
    if o in ERR_KINDS:
        return "(Refused %s)" % o
    raise Unmodelled("outcome %s" % o)


# ------------------------------------------------------------------------------------------------
# running one session on the implementation

def all_fields(fields):
    return list(fields) + RESERVED


def build_record(D, fields, vals):
    kw = {}
    for (t, n), spec in zip(all_fields(fields), vals):
        if n == "_version":
            continue
        kw[n] = mk_value(spec)
    return D.recordType(**kw)


def packed_obs(r, fields):
    """what fastavro is handed: the values of r._packdict(), ("missing",) for a key the dict lacks"""
    pd = r._packdict()
    return [obs(pd[n]) if n in pd else ("missing",) for _, n in all_fields(fields)]


def attr_obs(r, fields):
    """what the record holds (attribute view, packed like _packdict packs): for a plain record the same as
    packed_obs; for a GroupedRecord the values of its members"""
    from flow.record.base import FieldType
    out = []
    for _, n in all_fields(fields):
        v = getattr(r, n)
        out.append(obs(v._pack() if isinstance(v, FieldType) else v))
    return out


def flat_descriptor(name, member_descs):
    """the flat descriptor GroupedRecord builds over its members: first member wins, reserved fields left out"""
    seen, fields = set(), []
    for _, fs in member_descs:
        for t, n in all_fields([tuple(f) for f in fs]):
            if n in seen:
                continue
            seen.add(n)
            if not n.startswith("_"):
                fields.append([t, n])
    return [name, fields]


def is_write(op):
    return op[0] in ("w", "g")


def read_back(path):
    """-> (flow, raw): flow = dict(open_error) | dict(name, fields, recs, end); raw = dict(open_error) | dict(schema, recs, end).
    A reserved field the file does not hold is observed as unset (the record class fills in _generated = now and
    _version = RECORD_VERSION, which are not data of the file)."""
    import fastavro
    from flow.record import RecordReader
    from flow.record.adapter.avro import AvroReader
    raw = None
    held = None
    try:
        with open(path, "rb") as fh:
            fr = fastavro.reader(fh)
            schema = fr.writer_schema
            names = [f["name"] for f in schema.get("fields", [])]
            held = set(names)
            recs = []
            end = "end"
            try:
                for o in fr:
                    recs.append([obs(o.get(n)) for n in names])
            except Exception as e:  # noqa
                end = "fail:%s: %s" % (type(e).__name__, str(e)[:80])
            raw = dict(schema=schema, recs=recs, end=end)
    except Exception as e:  # noqa
        raw = dict(open_error="%s: %s" % (type(e).__name__, str(e)[:100]))
    try:
        rd = RecordReader(path)
    except Exception as e:  # noqa
        return dict(open_error="%s: %s" % (type(e).__name__, str(e)[:100])), raw
    if not isinstance(rd, AvroReader):
        raise RuntimeError("RecordReader(%s) is not an AvroReader" % path)
    d = rd.desc
    dfields = [(t, n) for t, n in d.get_field_tuples()]
    recs = []
    end = "end"
    try:
        for rec in rd:
            if rec._desc.name != d.name or list(rec._desc.get_field_tuples()) != list(d.get_field_tuples()):
                raise RuntimeError("reader yields a record of another descriptor")
            pd = rec._packdict()
            recs.append([obs(pd[n]) if (held is None or n in held or not n.startswith("_")) else ("none",)
                         for _, n in all_fields(dfields)])
    except Exception as e:  # noqa
        end = "fail:%s: %s" % (type(e).__name__, str(e)[:80])
    rd.close()
    return dict(name=d.name, fields=dfields, recs=recs, end=end), raw


def run_session(workdir, case, idx=0):
    """case: dict(descs=[(name, fields), ...], ops=[["f"] | ["w", desc_index, [value specs incl. reserved]]
       | ["g", index of the flat descriptor, [[member desc_index, [value specs]], ...]]])
    res["written"]: what fastavro is handed (model input); res["meant"]: what the record holds (oracle input)"""
    from flow.record import GroupedRecord, RecordDescriptor, RecordWriter
    path = os.path.join(str(workdir), "s%d.avro" % idx)
    if os.path.exists(path):
        os.unlink(path)
    Ds = [RecordDescriptor(n, [tuple(f) for f in fs]) for n, fs in case["descs"]]
    w = RecordWriter(path)
    outs = []
    written = []
    meant = []
    for op in case["ops"]:
        if op[0] == "f":
            try:
                w.flush()
                outs.append("ok")
            except Exception as e:  # noqa
                outs.append(err_kind(e))
            written.append(None)
            meant.append(None)
        else:
            di = op[1]
            fields = [tuple(f) for f in case["descs"][di][1]]
            if op[0] == "g":
                members = [build_record(Ds[mi], [tuple(f) for f in case["descs"][mi][1]], mv) for mi, mv in op[2]]
                r = GroupedRecord(case["descs"][di][0], members)
                if r._desc.name != case["descs"][di][0] or [tuple(f) for f in r._desc.get_field_tuples()] != fields:
                    raise RuntimeError("flat descriptor of the grouped record differs from the case's: %r" % (r._desc.get_field_tuples(),))
            else:
                r = build_record(Ds[di], fields, op[2])
            written.append(packed_obs(r, fields))
            meant.append(attr_obs(r, fields))
            try:
                w.write(r)
                outs.append("ok")
            except Exception as e:  # noqa
                outs.append(err_kind(e))
    try:
        w.close()
        close = "ok"
    except Exception as e:  # noqa
        close = err_kind(e)
    flow, raw = read_back(path)
    return dict(outs=outs, close=close, written=written, meant=meant, flow=flow, raw=raw, path=path)


# ------------------------------------------------------------------------------------------------
# the property's oracle (independent of the model)

def spec_field_status(t, o):
    """-> 'must' (the mapping represents it), 'may' (refusal or faithful storage both fine), 'refuse', 'digest'"""
    k = o[0]
    if t not in SPEC_MAP:
        return "refuse"
    if t == "digest":
        return "digest"
    if k == "none":
        return "must"
    a = SPEC_MAP[t]
    if k == "int":
        lo, hi = (-2**31, 2**31 - 1) if a == "int" else (-2**63, 2**63 - 1)
        return "must" if lo <= o[1] <= hi else "refuse"
    if k == "text":
        return "may" if any(0xD800 <= c <= 0xDFFF for c in o[1]) else "must"
    if k == "dt":
        return "must" if MIN_US <= o[1] <= MAX_US else "may"
    return "must"


def record_status(fields, obs_vals):
    """overall status and the index of the first field that is not 'must'"""
    for i, ((t, n), o) in enumerate(zip(all_fields(fields), obs_vals)):
        s = spec_field_status(t, o)
        if s != "must":
            return s, i, (o[0] == "text")
    return "must", None, False


def mapped_desc(d):
    return all(t in SPEC_MAP for t, _ in d[1])


def normalise(o):
    if o[0] == "float":
        return ("float", to_f32_bits(o[1]))
    if o[0] == "dt":
        return ("dt", o[1], 0)
    return o


def classify(case, res):
    """finding classes this session falls into (computed from the inputs and the implementation's decisions)"""
    cls = set()
    ops = case["ops"]
    outs = res["outs"]
    first_w = next((i for i, op in enumerate(ops) if is_write(op)), None)
    for i, op in enumerate(ops):
        if is_write(op) and outs[i] == "ok":
            if any(o[0] == "dt" and not (MIN_US <= o[1] <= MAX_US) for o in res["meant"][i]):
                cls.add("instant-outside-year-1-9999")
    if first_w is not None and any(t == "digest" for t, _ in case["descs"][ops[first_w][1]][1]):
        cls.add("digest-field")
    return cls


def oracle(case, res):
    """-> list of (kind, text, classes) : kind 'violation' | 'finding:<cls>' ; what the PROPERTY demands"""
    problems = []
    ops, outs = case["ops"], res["outs"]
    cls = classify(case, res)
    first_w = next((i for i, op in enumerate(ops) if is_write(op)), None)
    if res["close"] != "ok":
        problems.append(("violation", "close() raised %s" % res["close"]))
    if first_w is None:
        # nothing written: the file must open and hold no record
        fl = res["flow"]
        if "open_error" in fl or fl["recs"] or fl["end"] != "end":
            problems.append(("violation", "a session without writes does not read back as an empty file: %r" % (fl,)))
        return problems, cls
    d0 = ops[first_w][1]
    name0, fields0 = case["descs"][d0]
    fields0 = [tuple(f) for f in fields0]
    mapped = all(t in SPEC_MAP for t, _ in fields0)
    expected = []
    for i, op in enumerate(ops):
        if not is_write(op):
            if outs[i] != "ok":
                problems.append(("violation", "flush() raised %s" % outs[i]))
            continue
        st, idx, _ = record_status([tuple(f) for f in case["descs"][op[1]][1]], res["meant"][i])
        if op[0] == "g" and st == "must":
            st = "may"      # a grouped record: stored with its members' values, or refused
        same = case["descs"][op[1]] == case["descs"][d0]
        if outs[i] == "ok":
            if not same:
                problems.append(("violation", "a record of a second type (%s %r) was accepted into the file of %s %r" % (
                    case["descs"][op[1]][0], case["descs"][op[1]][1], name0, fields0)))
            if not mapped_desc(case["descs"][op[1]]):
                problems.append(("violation", "a record with a field of an unmapped type was accepted"))
            expected.append([normalise(o) for o in res["meant"][i]])
        else:
            if same and mapped and st == "must":
                problems.append(("violation", "a representable record was refused (%s): %r" % (outs[i], res["meant"][i])))
            if same and st == "digest" and all(spec_field_status(t, o) in ("must", "digest") for (t, n), o in zip(
                    all_fields(fields0), res["meant"][i])):
                problems.append(("finding:digest-field", "a record with a digest field is refused (%s)" % outs[i]))
    fl = res["flow"]
    got_ok = ("open_error" not in fl and fl["end"] == "end" and fl["recs"] == expected
              and (not expected or (fl["name"] == name0 and fl["fields"] == fields0)))
    if mapped and "open_error" not in fl and (fl["name"] != name0 or fl["fields"] != fields0):
        problems.append(("violation", "the descriptor is not carried: wrote %s %r, read %s %r" % (name0, fields0, fl["name"], fl["fields"])))
        return problems, cls
    if not got_ok:
        what = "read back %s, expected %d record(s) %s" % (
            fl.get("open_error") or ("%d record(s)%s %r" % (len(fl["recs"]), "" if fl["end"] == "end" else " then " + fl["end"], fl["recs"][:3])),
            len(expected), repr(expected[:3])[:400])
        if "instant-outside-year-1-9999" in cls and ("OverflowError" in fl.get("end", "") or "OverflowError" in fl.get("open_error", "")):
            # everything read before the unreadable instant must still be right
            n = len(fl.get("recs", []))
            if fl.get("recs", []) == expected[:n] and fl["name"] == name0 and fl["fields"] == fields0:
                problems.append(("finding:instant-outside-year-1-9999", what))
            else:
                problems.append(("violation", what))
        else:
            problems.append(("violation", what))
    else:
        # the standard reader sees the same data and the descriptor text
        rw = res["raw"]
        if "open_error" in rw or rw["end"] != "end" or rw["recs"] != expected:
            problems.append(("violation", "fastavro.reader sees other data than AvroReader: %r" % (rw if "open_error" in rw else rw["recs"][:3],)))
        elif (mapped or expected) and rw["schema"].get("doc") != json.dumps([name0, [list(f) for f in fields0]]):
            problems.append(("violation", "schema doc is not the descriptor: %r" % rw["schema"].get("doc")))
    return problems, cls


# ------------------------------------------------------------------------------------------------
# generators

def dt_values():
    tz = lambda **kw: pydt.timezone(pydt.timedelta(**kw))  # noqa: E731
    return [
        pydt.datetime(1, 1, 1, tzinfo=UTC), pydt.datetime(9999, 12, 31, 23, 59, 59, 999999, tzinfo=UTC),
        pydt.datetime(1969, 12, 31, 23, 59, 59, 999999, tzinfo=UTC), pydt.datetime(1970, 1, 1, tzinfo=UTC),
        pydt.datetime(1970, 1, 1, 0, 0, 0, 1, tzinfo=UTC), pydt.datetime(1970, 1, 1, 1, 11, 34, 967295, tzinfo=UTC),
        pydt.datetime(1970, 1, 1, 1, 11, 34, 967296, tzinfo=UTC), pydt.datetime(1901, 12, 13, 20, 45, 52, tzinfo=UTC),
        pydt.datetime(2038, 1, 19, 3, 14, 8, tzinfo=UTC), pydt.datetime(2020, 5, 5, 12, 0, 0, 123456, tzinfo=tz(hours=5, minutes=30, seconds=7)),
        pydt.datetime(2021, 10, 31, 2, 30, tzinfo=tz(hours=1)), pydt.datetime(2021, 10, 31, 2, 30, tzinfo=tz(hours=2)),
        pydt.datetime(2000, 2, 29, 23, 59, 59, 999999, tzinfo=tz(hours=-12)), pydt.datetime(2024, 6, 1, 0, 0, tzinfo=tz(hours=14)),
        pydt.datetime(1, 1, 1, 14, 0, tzinfo=tz(hours=14)), pydt.datetime(9999, 12, 31, 9, 59, 59, 999999, tzinfo=tz(hours=-14)),
        pydt.datetime(2020, 1, 1, 0, 0, 0, 5, tzinfo=tz(microseconds=7)), pydt.datetime(1600, 7, 4, 1, 2, 3, 4, tzinfo=UTC),
        pydt.datetime(2020, 5, 5, 12, 0, 0),      # naive -> UTC
    ]


def dt_out_of_range():
    tz = lambda **kw: pydt.timezone(pydt.timedelta(**kw))  # noqa: E731
    return [pydt.datetime(1, 1, 1, tzinfo=tz(hours=14)), pydt.datetime(1, 1, 1, 0, 0, 0, 1, tzinfo=tz(seconds=1)),
            pydt.datetime(9999, 12, 31, 23, 59, 59, 999999, tzinfo=tz(hours=-1)),
            pydt.datetime(9999, 12, 31, 23, 59, 59, 999999, tzinfo=tz(microseconds=-1))]


def in_value(v):
    """python input value -> JSON-able spec"""
    if v is None:
        return ["none"]
    if isinstance(v, bool):
        return ["bool", v]
    if isinstance(v, int):
        return ["int", v]
    if isinstance(v, float):
        return ["float", float_bits(v)]
    if isinstance(v, str):
        return ["text", [ord(c) for c in v]]
    if isinstance(v, bytes):
        return ["bytes", v.hex()]
    if isinstance(v, pydt.datetime):
        return dt_spec(v)
    if isinstance(v, tuple):
        return ["digest", list(v)]
    raise ValueError(v)


def good_value(rnd, t):
    """a value the documented mapping represents"""
    if rnd.random() < 0.15:
        return None
    if t in ("varint", "filesize", "unix_file_mode"):
        v = rnd.choice([x for x in INTS if -2**63 <= x < 2**63] + [rnd.randrange(-2**63, 2**63)])
        return v
    if t == "uint16":
        return rnd.choice([0, 1, 255, 256, 65535, rnd.randrange(65536)])
    if t == "uint32":
        return rnd.choice([0, 1, 65535, 65536, 2**31 - 1, rnd.randrange(2**31)])
    if t == "boolean":
        return rnd.choice([True, False, 0, 1])
    if t == "float":
        return rnd.choice(FLOATS) if rnd.random() < 0.8 else rnd.uniform(-1e6, 1e6)
    if t in ("string", "wstring"):
        return rnd.choice(TEXTS) if rnd.random() < 0.8 else "".join(chr(rnd.choice([65, 0xE9, 0x20AC, 0x1F600, 0x22, 0x5C, 0, 10, 0x7F])) for _ in range(rnd.randrange(1, 9)))
    if t == "uri":
        return rnd.choice(["http://example.com/a?b=c#d", "", "not a uri", "file:///C:/x y", "http://h\u00e9/\u20ac"])
    if t == "bytes":
        return rnd.choice(BYTESES) if rnd.random() < 0.8 else bytes(rnd.randrange(256) for _ in range(rnd.randrange(1, 12)))
    if t == "datetime":
        return rnd.choice(dt_values())
    if t == "digest":
        return rnd.choice([("d41d8cd98f00b204e9800998ecf8427e", None, None), (None, None, None),
                           (None, "da39a3ee5e6b4b0d3255bfef95601890afd80709", None)])
    raise ValueError(t)


def bad_value(rnd, t):
    """a value the mapping cannot represent (or may refuse); None when the type has none"""
    if t in ("varint", "filesize", "unix_file_mode"):
        return rnd.choice([2**63, -2**63 - 1, 2**64, 10**30, -10**30])
    if t == "uint32":
        return rnd.choice([2**31, 2**32 - 1, 2**31 + 5])
    if t in ("string", "wstring", "uri"):
        return rnd.choice(SURROGATE_TEXTS)
    if t == "datetime":
        return rnd.choice(dt_out_of_range())
    return None


def unmapped_value(t):
    if t.endswith("[]"):
        return None
    return {"path": "/tmp/x", "command": "ls -l", "net.ipaddress": "1.2.3.4", "net.ipnetwork": "10.0.0.0/8",
            "net.IPAddress": "1.2.3.4", "net.IPNetwork": "10.0.0.0/8", "stringlist": None, "dictlist": None,
            "dynamic": None, "record": None}.get(t)


FIELD_NAMES = ["a", "b", "c", "data", "ts", "value", "if", "x_1", "Name", "f0", "f1", "f2"]
DESC_NAMES = ["test/a", "test/b", "x", "deep/er/name", "T1", "a_b/c9", "test/a"]


def gen_descriptor(rnd, types, nmin=0, nmax=6):
    n = rnd.randrange(nmin, nmax + 1)
    names = rnd.sample(FIELD_NAMES, n)
    return (rnd.choice(DESC_NAMES), [(rnd.choice(types), nm) for nm in names])


def reserved_specs(rnd, bad_ts=False):
    src = rnd.choice([None, "src", "h\u00e9"])
    cl = rnd.choice([None, "secret"])
    gen = rnd.choice(dt_out_of_range()) if bad_ts else rnd.choice(dt_values())
    return [in_value(src), in_value(cl), in_value(gen), ["int", 1]]


def gen_record_specs(rnd, fields, mode):
    """mode: 'good' | 'bad' (one unrepresentable field when the types allow it) | 'badts' (reserved _generated out of range)"""
    vals = [good_value(rnd, t) if t in SPEC_MAP else unmapped_value(t) for t, _ in fields]
    if mode == "bad":
        cands = [i for i, (t, _) in enumerate(fields) if bad_value(rnd, t) is not None]
        if cands:
            i = rnd.choice(cands)
            vals[i] = bad_value(rnd, fields[i][0])
    return [in_value(v) for v in vals] + reserved_specs(rnd, bad_ts=(mode == "badts"))


MAPPED_NO_DIGEST = [t for t in SPEC_MAP if t != "digest"]


def colliding_pair(name, fields2):
    """two DIFFERENT descriptors with the same name and the same (name, 32-bit hash) identifier: the hash input is
    name + fieldname1 + type1 + fieldname2 + type2 ..., so merging two adjacent fields (t1 n1)(t2 n2) into the one
    field (t2, n1 + t1 + n2) leaves it unchanged"""
    (t1, n1), (t2, n2) = fields2[0], fields2[1]
    merged = [[t2, n1 + t1 + n2]] + [list(f) for f in fields2[2:]]
    return [name, [list(f) for f in fields2]], [name, merged]


def grouped_op(rnd, descs, member_idx, gname):
    """-> (flat descriptor to append to descs, op)"""
    flat = flat_descriptor(gname, [descs[i] for i in member_idx])
    members = [[i, gen_record_specs(rnd, [tuple(f) for f in descs[i][1]], "good")] for i in member_idx]
    return flat, members


def gen_case(rnd):
    k0 = rnd.random()
    if k0 < 0.04:
        # identifier-colliding descriptors in one file, either first
        t1, t2 = rnd.choice(["string", "varint", "uint32", "bytes", "boolean"]), rnd.choice(["string", "uri", "wstring"])
        n1, n2 = rnd.sample(["user", "host", "a", "b", "x_1"], 2)
        da, db = colliding_pair(rnd.choice(DESC_NAMES), [(t1, n1), (t2, n2)] + ([("varint", "n")] if rnd.random() < 0.3 else []))
        descs = [da, db] if rnd.random() < 0.5 else [db, da]
        ops = []
        for _ in range(rnd.randrange(2, 6)):
            di = rnd.choice([0, 0, 1])
            ops.append(["w", di, gen_record_specs(rnd, [tuple(f) for f in descs[di][1]], "good")])
            if rnd.random() < 0.15:
                ops.append(["f"])
        return dict(descs=descs, ops=ops)
    case = gen_case_plain(rnd)
    if k0 < 0.10 and all(mapped_desc(d) for d in case["descs"]) and not any(t == "digest" for d in case["descs"] for t, _ in d[1]):
        # a grouped record somewhere in the session (its flat descriptor becomes one more descriptor of the case)
        idx = rnd.choice([[0], [0, 1], [1, 0]])
        flat, members = grouped_op(rnd, case["descs"], idx, rnd.choice(["grp/x", case["descs"][0][0]]))
        case["descs"].append(flat)
        case["ops"].insert(rnd.randrange(len(case["ops"]) + 1), ["g", len(case["descs"]) - 1, members])
    return case


def gen_case_plain(rnd):
    k = rnd.random()
    if k < 0.06:
        d = gen_descriptor(rnd, MAPPED_NO_DIGEST + ["digest"] * 6, 1, 4)
        if not any(t == "digest" for t, _ in d[1]):
            d[1].append(("digest", "dg"))
    elif k < 0.14:
        d = gen_descriptor(rnd, MAPPED_NO_DIGEST, 0, 3)
        d[1].insert(rnd.randrange(len(d[1]) + 1), (rnd.choice(UNMAPPED), "um"))
    else:
        d = gen_descriptor(rnd, MAPPED_NO_DIGEST)
    descs = [d]
    d2 = gen_descriptor(rnd, MAPPED_NO_DIGEST, 0, 3)
    if rnd.random() < 0.3:        # same name, other fields
        d2 = (d[0], d2[1] if d2[1] != d[1] else d2[1] + [("string", "extra")])
    if d2 == d:
        d2 = (d2[0] + "2", d2[1])
    descs.append(d2)
    ops = []
    if rnd.random() < 0.05:
        ops.append(["f"])
    n = rnd.choice([1, 1, 2, 3, 4, 5, 8])
    style = rnd.random()
    for _ in range(n):
        r = rnd.random()
        if style < 0.45 or r < 0.6:
            ops.append(["w", 0, gen_record_specs(rnd, descs[0][1], "good")])
        elif r < 0.8:
            ops.append(["w", 0, gen_record_specs(rnd, descs[0][1], "bad")])
        elif r < 0.84:
            ops.append(["w", 0, gen_record_specs(rnd, descs[0][1], "badts")])
        elif r < 0.94:
            ops.append(["w", 1, gen_record_specs(rnd, descs[1][1], "good")])
        else:
            ops.append(["f"])
        if style > 0.45 and rnd.random() < 0.15:
            ops.append(["f"])
    return dict(descs=[[nm, [list(f) for f in fs]] for nm, fs in descs], ops=ops)


def boundary_cases():
    """every mapped type x every boundary value, one value per record, plus None everywhere"""
    out = []
    table = {
        "varint": [x for x in INTS], "filesize": [0, 2**63 - 1, 2**63, -1], "unix_file_mode": [0o777, 0, 2**63],
        "uint16": [0, 1, 65535], "uint32": [0, 65536, 2**31 - 1, 2**31, 2**32 - 1], "boolean": [True, False, 0, 1],
        "float": FLOATS, "string": TEXTS + SURROGATE_TEXTS, "wstring": ["w", "\u20ac"], "uri": ["http://a/b?c#d", ""],
        "bytes": BYTESES, "datetime": dt_values() + dt_out_of_range(),
    }
    rnd = random.Random(1)
    for t, vals in table.items():
        for chunk in range(0, len(vals), 1):
            v = vals[chunk]
            d = ["test/bnd", [[t, "f"], ["string", "tag"]]]
            ops = [["w", 0, [in_value("first"), in_value("t"), in_value(None), in_value(None), in_value(dt_values()[9]), ["int", 1]]
                    if t in ("string", "wstring", "uri") else
                    [in_value(None), in_value("first"), in_value(None), in_value(None), in_value(dt_values()[9]), ["int", 1]]],
                   ["w", 0, [in_value(v), in_value("v"), in_value("s"), in_value(None), in_value(dt_values()[3]), ["int", 1]]]]
            out.append(dict(descs=[d], ops=ops))
    # None everywhere / every mapped type in one descriptor
    fields = [[t, "f%d" % i] for i, t in enumerate(MAPPED_NO_DIGEST)]
    d = ["test/all", fields]
    out.append(dict(descs=[d], ops=[["w", 0, [["none"]] * len(fields) + [["none"], ["none"], in_value(dt_values()[0]), ["int", 1]]],
                                   ["w", 0, [in_value(good_value(rnd, t) if good_value(rnd, t) is not None else good_value(random.Random(7), t)) for t, _ in fields]
                                    + reserved_specs(rnd)]]))
    # unmapped types: each refused at schema creation; nothing else can be written afterwards
    for t in UNMAPPED:
        d = ["test/um", [["string", "s"], [t, "u"]]]
        d2 = ["test/ok", [["string", "s"]]]
        out.append(dict(descs=[d, d2], ops=[["w", 0, [in_value("x"), in_value(unmapped_value(t))] + reserved_specs(rnd)],
                                            ["w", 1, [in_value("y")] + reserved_specs(rnd)],
                                            ["w", 0, [in_value("x"), in_value(unmapped_value(t))] + reserved_specs(rnd)]]))
    # second descriptor: refused, file keeps the first type's records (also: same name, other fields)
    for d2 in (["test/two", [["string", "s"]]], ["test/one", [["varint", "s"]]], ["test/one", [["string", "s"], ["string", "t"]]], ["test/one", []]):
        d1 = ["test/one", [["string", "s"]]]
        out.append(dict(descs=[d1, d2], ops=[["w", 0, [in_value("a")] + reserved_specs(rnd)],
                                             ["w", 1, ([in_value(1)] if d2[1] and d2[1][0][0] == "varint" else [in_value("b")] * len(d2[1])) + reserved_specs(rnd)],
                                             ["w", 0, [in_value("c")] + reserved_specs(rnd)]]))
    # identifier-colliding descriptors (same name, same 32-bit hash, different fields): still a second record type
    for fields2 in ([("string", "user"), ("string", "host")], [("uint32", "n"), ("string", "s")],
                    [("varint", "a"), ("uri", "b"), ("bytes", "c")], [("boolean", "f0"), ("wstring", "f1")]):
        da, db = colliding_pair("test/login", fields2)
        vals = {"string": "alice", "uri": "http://h/", "wstring": "w", "uint32": 7, "varint": -5, "boolean": True, "bytes": b"\x01"}
        for first, second in ((da, db), (db, da)):
            rec = lambda d, k: [in_value(vals[t] if k == 0 else (vals[t] * 2 if t not in ("boolean",) else False)) for t, _ in d[1]] + reserved_specs(rnd)  # noqa: E731
            out.append(dict(descs=[first, second], ops=[["w", 0, rec(first, 0)], ["w", 1, rec(second, 0)], ["w", 0, rec(first, 1)]]))
    # a GroupedRecord handed to the writer (its _packdict() is empty): stored with its members' values, or refused
    dp = ["test/process", [["string", "image"], ["varint", "pid"], ["datetime", "started"]]]
    dh = ["test/hit", [["string", "rule"], ["uint16", "score"]]]
    ds = ["test/s", [["string", "only"]]]
    pv = [in_value("evil.exe"), in_value(4242), in_value(dt_values()[12]), in_value("host-7"), in_value(None), in_value(dt_values()[9]), ["int", 1]]
    hv = [in_value("R-17"), in_value(99)] + reserved_specs(rnd)
    sv = [in_value("text")] + reserved_specs(rnd)
    for descs, idx, gname, before in (([dp, dh], [0, 1], "test/grouped", False), ([dp, dh], [1, 0], "test/process", True),
                                      ([ds], [0], "test/s", False), ([ds], [0], "test/s", True), ([ds, dh], [0, 1], "grp", False)):
        descs = [list(d) for d in descs]
        flat = flat_descriptor(gname, [descs[i] for i in idx])
        members = [[i, {"test/process": pv, "test/hit": hv, "test/s": sv}[descs[i][0]]] for i in idx]
        descs.append(flat)
        g = ["g", len(descs) - 1, members]
        plain = ["w", idx[0], members[0][1]]
        out.append(dict(descs=descs, ops=([plain, g, plain] if before else [g, g, ["f"], g])))
    # no user fields (descriptor rebuilt from namespace/name), names without "/" and with several
    for nm in ("x", "test/e", "deep/er/name"):
        out.append(dict(descs=[[nm, []]], ops=[["w", 0, reserved_specs(rnd)], ["w", 0, reserved_specs(rnd)]]))
    # flush() before the first write and after a refused schema (repaired defect 73fee0f): nothing may change
    d = ["test/a", [["string", "a"], ["uint32", "b"]]]
    out.append(dict(descs=[d], ops=[["f"], ["w", 0, [in_value("one"), in_value(1)] + reserved_specs(rnd)], ["f"],
                                    ["w", 0, [in_value("two"), in_value(2)] + reserved_specs(rnd)]]))
    d = ["test/um", [["string", "s"], ["path", "u"]]]
    out.append(dict(descs=[d], ops=[["w", 0, [in_value("x"), in_value("/tmp/x")] + reserved_specs(rnd)], ["f"],
                                    ["w", 0, [in_value("x"), in_value("/tmp/x")] + reserved_specs(rnd)], ["f"]]))
    # nothing written
    out.append(dict(descs=[["test/a", [["string", "s"]]]], ops=[]))
    out.append(dict(descs=[["test/a", [["string", "s"]]]], ops=[["f"]]))
    # refused first-field value: nothing of the record reaches the buffer
    d = ["test/ff", [["uint32", "n"], ["string", "s"]]]
    out.append(dict(descs=[d], ops=[["w", 0, [in_value(2**31), in_value("bad")] + reserved_specs(rnd)],
                                    ["w", 0, [in_value(5), in_value("good")] + reserved_specs(rnd)]]))
    # repaired defect 15e4336: a refused record followed by an accepted one in the same block
    d = ["test/a", [["string", "a"], ["uint32", "b"]]]
    res = [["none"], ["none"], in_value(dt_values()[9]), ["int", 1]]
    out.append(dict(descs=[d], ops=[["w", 0, [in_value("two"), in_value(2**31)] + res],
                                    ["w", 0, [in_value("\x02\x02\x02\x02"), in_value(7)] + res]]))
    out.append(dict(descs=[d], ops=[["w", 0, [in_value("one"), in_value(1)] + res], ["w", 0, [in_value("s\udcff"), in_value(2)] + res],
                                    ["w", 0, [in_value("two"), in_value(2**32 - 1)] + res], ["w", 0, [in_value("three"), in_value(3)] + res]]))
    # refused, flushed, accepted
    d = ["test/fl", [["string", "s"], ["uint32", "n"]]]
    out.append(dict(descs=[d], ops=[["w", 0, [in_value("one"), in_value(1)] + reserved_specs(rnd)],
                                    ["w", 0, [in_value("two"), in_value(2**31)] + reserved_specs(rnd)], ["f"],
                                    ["w", 0, [in_value("three"), in_value(3)] + reserved_specs(rnd)]]))
    # a session larger than fastavro's sync interval (several blocks)
    d = ["test/big", [["bytes", "b"], ["varint", "i"]]]
    out.append(dict(descs=[d], ops=[["w", 0, [in_value(bytes([i]) * 1300), in_value(i)] + reserved_specs(rnd)] for i in range(16)]))
    return out


def witness_cases():
    """the known findings, as fixed sessions (replayed on every run)"""
    ts = in_value(dt_values()[9])
    res = [["none"], ["none"], ts, ["int", 1]]
    d = ["test/a", [["string", "a"], ["uint32", "b"]]]
    w = {}
    w["instant-outside-year-1-9999"] = dict(descs=[["test/t", [["string", "s"], ["datetime", "ts"]]]], ops=[
        ["w", 0, [in_value("ok"), in_value(dt_values()[0])] + res],
        ["w", 0, [in_value("early"), in_value(dt_out_of_range()[0])] + res],
        ["w", 0, [in_value("after"), in_value(dt_values()[3])] + res]])
    w["digest-field"] = dict(descs=[["test/d", [["string", "s"], ["digest", "dg"]]]], ops=[
        ["w", 0, [in_value("x"), in_value(("d41d8cd98f00b204e9800998ecf8427e", None, None))] + res]])
    return w


# ------------------------------------------------------------------------------------------------
# reader side: files written by fastavro directly

def foreign_cases(rnd, n_random):
    """(schema dict, [record dicts]) written by fastavro.writer"""
    out = []
    doc = json.dumps(["legacy/ts", [["string", "s"], ["datetime", "ts"]]])
    base = {"type": "record", "namespace": "legacy", "name": "ts", "doc": doc,
            "fields": [{"name": "s", "type": ["string", "null"]}, {"name": "ts", "type": ["long", "null"]}]}
    vals = [0, 1, 0xFFFF, 0x10000, 1600000000, 0xFFFFFFFF - 1, 0xFFFFFFFF, 0x100000000, 0x100000001, 1600000000 * 10**6,
            -1, -86400, MAX_US, MAX_US + 1, 253402300799, 253402300800, None]
    for v in vals:
        out.append((base, [{"s": "x", "ts": v}]))
    out.append((base, [{"s": "a", "ts": 5}, {"s": "b", "ts": 2**40}, {"s": None, "ts": None}]))
    # schemas without doc: the descriptor is rebuilt from the Avro types
    plain = [("string", "t"), ("int", 7), ("long", 2**40), ("float", 1.5), ("boolean", True), ("bytes", b"\x00\xff"),
             ("double", 2.5), ({"type": "long", "logicalType": "timestamp-micros"}, pydt.datetime(2020, 1, 2, 3, 4, 5, 6, tzinfo=UTC)),
             ({"type": "long", "logicalType": "timestamp-millis"}, pydt.datetime(2020, 1, 2, 3, 4, 5, 6000, tzinfo=UTC)),
             ({"type": "long"}, 5), ({"type": "array", "items": "string"}, None), ({"type": "array", "items": "long"}, None),
             ({"type": "array", "items": "double"}, None)]
    for ty, v in plain:
        for nullable in (True, False):
            for ns, nm in (("", "plain"), ("a.b", "c"), ("ns", "n")):
                t = [ty, "null"] if nullable else ty
                if isinstance(ty, dict) and ty.get("type") == "array":
                    recs = []
                else:
                    recs = [{"f": v, "_source": "h"}] + ([{"f": None, "_source": None}] if nullable else [])
                sch = {"type": "record", "name": nm, "fields": [{"name": "f", "type": t}, {"name": "_source", "type": ["string", "null"]}]}
                if ns:
                    sch["namespace"] = ns
                if rnd.random() < 0.5 or (ns, nm) == ("", "plain"):
                    out.append((sch, recs))
    # doc present but not detected (no fields / other text): falls back to the schema
    sch = {"type": "record", "namespace": "t", "name": "e", "doc": '["t/e", []]', "fields": [{"name": "v", "type": ["long", "null"]}]}
    out.append((sch, [{"v": 3}]))
    sch = {"type": "record", "name": "doc", "doc": "free text", "fields": [{"name": "v", "type": ["string", "null"]}]}
    out.append((sch, [{"v": "q"}]))
    return out


def run_foreign(workdir, schema, recs, idx):
    import fastavro
    path = os.path.join(str(workdir), "f%d.avro" % idx)
    with open(path, "wb") as fh:
        fastavro.writer(fh, fastavro.parse_schema(json.loads(json.dumps(schema))), recs)
    return read_back(path)


# ------------------------------------------------------------------------------------------------
# Coq side

HEADER = """From Coq Require Import List Bool String ZArith NArith.
Import ListNotations.
From FR Require Import Avro Gen_avro.
Open Scope string_scope.
Open Scope N_scope.
Definition f32 (tbl : list (N * N)) (x : N) : N :=
  match find (fun p => N.eqb (fst p) x) tbl with Some p => snd p | None => 0 end.
Definition noint (z : Z) : N := 0.
Definition werr_eqb (a b : werr) : bool :=
  match a, b with
  | EUnsupported, EUnsupported | EParse, EParse | EAppend, EAppend | EMixed, EMixed | ENoWriter, ENoWriter
  | ENoSchema, ENoSchema
  | EValue, EValue | EEncode, EEncode | ECode, ECode => true
  | _, _ => false end.
Definition outcome_eqb (a b : outcome) : bool :=
  match a, b with Accepted, Accepted => true | Refused x, Refused y => werr_eqb x y | _, _ => false end.
Fixpoint outs_eqb (a b : list outcome) : bool :=
  match a, b with [], [] => true | x :: a', y :: b' => outcome_eqb x y && outs_eqb a' b' | _, _ => false end.
Definition rend_eqb (a b : rend) : bool :=
  match a, b with REnd, REnd | RFail, RFail | RCorrupt, RCorrupt => true | _, _ => false end.
Fixpoint recs_eqb (a b : list (list value)) : bool :=
  match a, b with [], [] => true | x :: a', y :: b' => values_eqb x y && recs_eqb a' b' | _, _ => false end.
Fixpoint recs_prefix (a b : list (list value)) : bool :=
  match a, b with [], _ => true | x :: a', y :: b' => values_eqb x y && recs_prefix a' b' | _, _ => false end.
(* model result vs implementation result; behind RCorrupt the model does not say what is decoded;
   coarse: only descriptor and number of records (records of the field-less schema "empty" get default values) *)
Definition data_ok (coarse : bool) (l : list (list value)) (e : rend) (l' : list (list value)) (e' : rend) : bool :=
  match e with
  | RCorrupt => recs_prefix l l'
  | _ => (if coarse then Nat.eqb (List.length l) (List.length l') else recs_eqb l l') && rend_eqb e e'
  end.
Definition flow_ok (coarse : bool) (m i : flowres) : bool :=
  match m, i with
  | FlowOpenFail, FlowOpenFail => true
  | FlowRead d l e, FlowRead d' l' e' => desc_eqb d d' && data_ok coarse l e l' e'
  | _, _ => false
  end.
Definition raw_ok (m i : rawres) : bool :=
  match m, i with
  | RawOpenFail, RawOpenFail => true
  | RawRead s l e, RawRead s' l' e' => schema_eqb s s' && data_ok false l e l' e'
  | _, _ => false
  end.
Definition sess tbl ops := session (f32 tbl) noint avro_cfg avro_code ops.
Definition chk_outs tbl ops outs cl := outs_eqb (snd (fst (sess tbl ops))) outs && outcome_eqb (snd (sess tbl ops)) cl.
Definition chk_flow tbl ops coarse fl := flow_ok coarse (read_flow noint avro_cfg (fst (fst (sess tbl ops)))) fl.
Definition chk_raw tbl ops rw := raw_ok (read_raw (fst (fst (sess tbl ops)))) rw.
(* a file written by fastavro directly: the model's fastavro encodes the data *)
Fixpoint enc_all (us : list (list atype)) (recs : list (list value)) tbl : option (list item) :=
  match recs with
  | [] => Some [IBlockEnd]
  | r :: rest => match enc_fields (f32 tbl) noint us r false, enc_all us rest tbl with
                 | EncOk l, Some its => Some (IRec l :: its)
                 | _, _ => None
                 end
  end.
Definition foreign tbl (s : schema) recs : option file :=
  option_map (File (Some s)) (enc_all (map snd (s_fields s)) recs tbl).
Definition chk_foreign_flow tbl s recs fl :=
  match foreign tbl s recs with Some f => flow_ok false (read_flow noint avro_cfg f) fl | None => false end.
Definition chk_foreign_raw tbl s recs rw :=
  match foreign tbl s recs with Some f => raw_ok (read_raw f) rw | None => false end.
"""


def c_end(e):
    return "REnd" if e == "end" else "RFail"


def c_flow(fl):
    if "open_error" in fl:
        return "FlowOpenFail"
    return "(FlowRead %s [%s] %s)" % (c_desc(fl["name"], fl["fields"]), "; ".join(c_vals(r) for r in fl["recs"]), c_end(fl["end"]))


def c_raw(rw):
    if "open_error" in rw:
        return "RawOpenFail"
    return "(RawRead %s [%s] %s)" % (c_schema(rw["schema"]), "; ".join(c_vals(r) for r in rw["recs"]), c_end(rw["end"]))


def f32_table(obs_lists):
    bits = set()
    for vals in obs_lists:
        for o in vals or ():
            if o[0] == "float":
                bits.add(o[1])
    return "[" + "; ".join("(%d, %d)" % (b, to_f32_bits(b)) for b in sorted(bits)) + "]"


def coq_terms(case, res):
    """three boolean terms: decisions, AvroReader view, fastavro.reader view"""
    tbl = f32_table(res["written"])
    ops = []
    for op, wr in zip(case["ops"], res["written"]):
        if op[0] == "f":
            ops.append("OFlush")
        else:
            nm, fs = case["descs"][op[1]]
            # a value of an unmapped type never reaches fastavro (the schema is refused first): opaque
            opaque = any(t not in SPEC_MAP for t, _ in fs)
            ops.append("(OWrite (Rec %s %s))" % (c_desc(nm, [tuple(f) for f in fs]), c_vals(wr, opaque)))
    ops_t = "[" + "; ".join(ops) + "]"
    outs = "[" + "; ".join(c_outcome(o) for o in res["outs"]) + "]"
    coarse = "open_error" not in res["raw"] and res["raw"]["schema"].get("name") == "empty" and not res["raw"]["schema"].get("fields")
    return [
        "chk_outs %s %s %s %s" % (tbl, ops_t, outs, c_outcome(res["close"])),
        "chk_flow %s %s %s %s" % (tbl, ops_t, cbool(coarse), c_flow(res["flow"])),
        "chk_raw %s %s %s" % (tbl, ops_t, c_raw(res["raw"])),
    ]


def foreign_terms(schema, recs, flow, raw):
    names = [f["name"] for f in schema["fields"]]
    vals = [[obs(r.get(n)) for n in names] for r in recs]
    tbl = f32_table(vals)
    s = c_schema(schema)
    rs = "[" + "; ".join(c_vals(v) for v in vals) + "]"
    return ["chk_foreign_flow %s %s %s %s" % (tbl, s, rs, c_flow(flow)),
            "chk_foreign_raw %s %s %s %s" % (tbl, s, rs, c_raw(raw))]


def foreign_oracle(schema, recs, flow):
    """what the reader side must do for a plain-long datetime column described by the doc (spec: READER_GUARD)"""
    if schema.get("doc", "").startswith('["legacy/ts"') is False:
        return None
    exp = []
    for r in recs:
        v = r["ts"]
        if v is None:
            e = ("none",)
        elif v > READER_GUARD:
            e = ("dt", v, 0) if MIN_US <= v <= MAX_US else "raise"
        else:
            e = ("dt", v * 10**6, 0) if MIN_US <= v * 10**6 <= MAX_US else "raise"
        exp.append(e)
    got = []
    if "open_error" in flow:
        return "AvroReader cannot open a file with a plain-long datetime column: %s" % flow["open_error"]
    for i, e in enumerate(exp):
        if e == "raise":
            if len(flow["recs"]) != i or flow["end"] == "end":
                return "value %r in a plain-long datetime column: expected an error, read %r" % (recs[i]["ts"], flow["recs"][i:i + 1])
            return None
        if i >= len(flow["recs"]) or flow["recs"][i][1] != e:
            got = flow["recs"][i][1] if i < len(flow["recs"]) else flow["end"]
            return "value %r in a plain-long datetime column is read as %r, expected %r (seconds up to 0x%X, microseconds above)" % (
                recs[i]["ts"], got, e, READER_GUARD)
    return None


# ------------------------------------------------------------------------------------------------

def case_canon(case, res):
    ops = []
    for op, o, w in zip(case["ops"], res["outs"], res["written"]):
        if op[0] == "f":
            ops.append("f")
        else:
            ops.append((op[0], op[1], o, tuple(x[0] if x[0] != "int" else ("int", x[1].bit_length()) for x in w)))
    return (tuple(tuple(t for t, _ in d[1]) for d in case["descs"]), tuple(ops))


def report(ctx, kf_by_cls, case, res, problems, reported):
    """-> True when a violation was reported"""
    bad = False
    for kind, text in problems:
        if kind.startswith("finding:"):
            c = kind.split(":", 1)[1]
            f = kf_by_cls.get(c)
            if f:
                ctx.known_finding(f["id"], f["what"])
                continue
            kind = "violation"
            text = "(unlisted finding class %s) %s" % (c, text)
        if kind == "violation" and not reported[0]:
            reported[0] = True
            bad = True
            ctx.violation("C19 fails on the implementation: %s" % text,
                          dict(kind="session", case=case, outs=res["outs"], close=res["close"], flow=_j(res["flow"]), problem=text))
    return bad


def _j(x):
    return json.loads(json.dumps(x, default=lambda o: o.hex() if isinstance(o, bytes) else repr(o)))


def all_cases(ctx, rnd):
    n = 420 if ctx.tier == "quick" else 6000
    cases = [("boundary", c) for c in boundary_cases()]
    cases += [("witness:" + k, c) for k, c in witness_cases().items()]
    cases += [("random", gen_case(rnd)) for _ in range(n)]
    return cases


def property_sweep(ctx, kf_by_cls, cases, reported, want_terms=True):
    """run every session on the implementation, apply the oracle; -> (terms, metas)"""
    import tempfile
    tmpd = tempfile.mkdtemp(prefix="c19.", dir=str(ctx.work))
    terms, metas = [], []
    reproduced = set()
    for i, (origin, case) in enumerate(cases):
        res = run_session(tmpd, case, i % 50)
        problems, cls = oracle(case, res)
        for kind, _ in problems:
            if kind.startswith("finding:"):
                reproduced.add(kind.split(":", 1)[1])
        ctx.count_case(case_canon(case, res), nontrivial=any(is_write(op) for op in case["ops"]))
        report(ctx, kf_by_cls, case, res, problems, reported)
        if origin.startswith("witness:") and not any(k == "finding:" + origin.split(":", 1)[1] for k, _ in problems):
            ctx.notes.append("known finding %s no longer reproduces on its witness session" % origin.split(":", 1)[1])
        if i % 97 == 0:
            ctx.sample(dict(origin=origin, descs=case["descs"], ops=[op[0] if op[0] == "f" else [op[0], op[1], "..."] for op in case["ops"]],
                            outs=res["outs"], read=len(res["flow"].get("recs", [])), classes=sorted(cls)))
        if want_terms:
            try:
                ts = coq_terms(case, res)
            except Unmodelled as e:
                ctx.notes.append("case outside the model's vocabulary skipped in the correspondence: %s" % e)
                ts = []
            for t in ts:
                terms.append(t)
                metas.append((i, origin))
    return terms, metas, reproduced


def foreign_sweep(ctx, rnd, reported, want_terms=True):
    import tempfile
    tmpd = tempfile.mkdtemp(prefix="c19f.", dir=str(ctx.work))
    terms, metas = [], []
    for i, (schema, recs) in enumerate(foreign_cases(rnd, 0)):
        flow, raw = run_foreign(tmpd, schema, recs, i % 50)
        ctx.count_case(("foreign", json.dumps(schema, sort_keys=True, default=repr), repr(recs)))
        msg = foreign_oracle(schema, recs, flow)
        if msg and not reported[0]:
            reported[0] = True
            ctx.violation("C19 reader side: %s" % msg, dict(kind="foreign", schema=schema, recs=_j([{k: in_value(v) for k, v in r.items()} for r in recs]),
                                                           flow=_j(flow), problem=msg))
        if want_terms:
            try:
                for t in foreign_terms(schema, recs, flow, raw):
                    terms.append(t)
                    metas.append((i, "foreign"))
            except Unmodelled as e:
                ctx.notes.append("foreign file outside the model's vocabulary skipped: %s" % e)
    return terms, metas


# ------------------------------------------------------------------------------------------------
# the stdout target: RecordWriter("avro://-") in a child interpreter, every close path

STDOUT_CHILD = r"""
import json, sys
sys.path.insert(0, sys.argv[2]); sys.path.insert(0, sys.argv[1])
from flow.record import RecordDescriptor, RecordWriter
from vf.props import c19
case = json.loads(sys.argv[3]); mode = sys.argv[4]
Ds = [RecordDescriptor(n, [tuple(f) for f in fs]) for n, fs in case["descs"]]
outs = []
def ops(w):
    for op in case["ops"]:
        try:
            if op[0] == "f":
                w.flush()
            else:
                w.write(c19.build_record(Ds[op[1]], [tuple(f) for f in case["descs"][op[1]][1]], op[2]))
            outs.append("ok")
        except Exception as e:
            outs.append(c19.err_kind(e))
close = "ok"
try:
    if mode == "with":
        with RecordWriter("avro://-") as w:
            ops(w)
    else:
        w = RecordWriter("avro://-")
        ops(w)
        if mode == "flush_close":
            w.flush()
        w.close()
except Exception as e:
    close = c19.err_kind(e)
sys.stderr.write("C19OUTS " + json.dumps([outs, close]) + "\n")
"""


def stdout_cases():
    rnd = random.Random(3)
    res = lambda: reserved_specs(rnd)  # noqa: E731
    d = ["test/stdout", [["uint32", "n"], ["uri", "u"], ["filesize", "size"]]]
    rec = lambda i: ["w", 0, [in_value(i), in_value("http://example.com/%d" % i), in_value(1 << 40)] + res()]  # noqa: E731
    bad = ["w", 0, [in_value(2**31), in_value("x"), in_value(1)] + res()]
    return [
        dict(descs=[d], ops=[rec(i) for i in range(5)]),
        dict(descs=[d], ops=[rec(0)]),
        dict(descs=[d], ops=[rec(0), bad, rec(1), ["f"], rec(2)]),
        dict(descs=[d], ops=[]),
        dict(descs=[["x", []]], ops=[["w", 0, res()], ["w", 0, res()]]),
        dict(descs=[["test/t", [["datetime", "ts"], ["float", "f"], ["bytes", "b"]]]],
             ops=[["w", 0, [in_value(dt_values()[9]), in_value(16777217.0), in_value(b"\x00\xff")] + res()],
                  ["w", 0, [in_value(None), in_value(None), in_value(None)] + res()]]),
    ]


def run_stdout_session(workdir, case, mode, idx):
    """the session in a child interpreter writing to avro://- ; stdout is read back like a file"""
    import subprocess
    from flow.record import RecordDescriptor
    p = subprocess.run([core.PY, "-c", STDOUT_CHILD, str(core.REPO), str(core.VERIF / "tools"), json.dumps(case), mode],
                       stdout=subprocess.PIPE, stderr=subprocess.PIPE, env=core.env_for_repo(), timeout=120)
    m = [ln for ln in p.stderr.decode(errors="replace").splitlines() if ln.startswith("C19OUTS ")]
    if p.returncode != 0 or not m:
        raise RuntimeError("stdout child failed (rc=%s): %s" % (p.returncode, p.stderr.decode(errors="replace")[-400:]))
    outs, close = json.loads(m[-1][len("C19OUTS "):])
    path = os.path.join(str(workdir), "o%d.avro" % idx)
    with open(path, "wb") as fh:
        fh.write(p.stdout)
    Ds = [RecordDescriptor(n, [tuple(f) for f in fs]) for n, fs in case["descs"]]
    written, meant = [], []
    for op in case["ops"]:
        if op[0] == "f":
            written.append(None)
            meant.append(None)
        else:
            fields = [tuple(f) for f in case["descs"][op[1]][1]]
            r = build_record(Ds[op[1]], fields, op[2])
            written.append(packed_obs(r, fields))
            meant.append(attr_obs(r, fields))
    flow, raw = read_back(path)
    return dict(outs=outs, close=close, written=written, meant=meant, flow=flow, raw=raw, path=path, stdout_bytes=len(p.stdout))


def stdout_sweep(ctx, kf_by_cls, reported):
    """RecordWriter('avro://-') x close path (close only / flush + close / with-block) x sessions (several records, one,
    a refusal in the middle, never written, field-less, timestamps/floats/None): what arrives on stdout must be a
    container holding exactly the accepted records"""
    import tempfile
    tmpd = tempfile.mkdtemp(prefix="c19o.", dir=str(ctx.work))
    n = 0
    for ci, case in enumerate(stdout_cases()):
        for mode in ("close", "flush_close", "with"):
            res = run_stdout_session(tmpd, case, mode, n % 20)
            n += 1
            problems, cls = oracle(case, res)
            ctx.count_case(("stdout", mode, ci), nontrivial=any(is_write(op) for op in case["ops"]))
            for kind, text in problems:
                if kind == "violation" and not reported[0]:
                    reported[0] = True
                    ctx.violation("C19 fails on the implementation, target stdout (avro://-), close path %r: %s (%d bytes on stdout)" % (
                        mode, text, res["stdout_bytes"]),
                        dict(kind="stdout-session", case=case, mode=mode, outs=res["outs"], close=res["close"], flow=_j(res["flow"]), problem=text))
    ctx.coverage["stdout_sessions"] = n


def search(ctx, reason):
    """the proof / translator broke: look for a concrete failing input on the implementation"""
    kf_by_cls = {f["match"].get("cls"): f for f in core.known_for(PID)}
    rnd = random.Random(ctx.seed)
    reported = [False]
    try:
        cases = [("boundary", c) for c in boundary_cases()] + [("random", gen_case(rnd)) for _ in range(300)]
        property_sweep(ctx, kf_by_cls, cases, reported, want_terms=False)
        if not reported[0]:
            foreign_sweep(ctx, rnd, reported, want_terms=False)
        if not reported[0]:
            stdout_sweep(ctx, kf_by_cls, reported)
    except Exception as e:  # noqa
        ctx.notes.append("search raised %s: %s" % (type(e).__name__, e))
    if reported[0]:
        ctx.notes.append("found while: " + reason)
    return reported[0]


def run(ctx):
    kf = core.known_for(PID)
    kf_by_cls = {f["match"].get("cls"): f for f in kf}
    ctx.coverage["rule"] = (
        "sessions = [flush] (write record | flush)* close through RecordWriter('x.avro'), read back with AvroReader and "
        "fastavro.reader: (a) every Avro-mapped type x every boundary value (int32/int64 limits +-1, uint16/uint32 limits, "
        "25 floats incl. subnormal/-0.0/NaN/inf/1e39/16777217.0 by bit pattern, text incl. empty/astral/NUL/surrogates, bytes "
        "incl. empty/all 256 values, timestamps year 1/9999, pre-1970, offsets with seconds and microseconds, instants "
        "outside year 1..9999) and None everywhere, (b) every unmapped whitelisted type and T[] lists, second "
        "descriptors (other name; same name other fields; CONSTRUCTED pairs with the same name and the same 32-bit "
        "identifier hash, either written first), GroupedRecords (their _packdict() is empty: refused, or stored with the "
        "members' values), field-less descriptors, sessions of several blocks, "
        "(c) random sessions mixing representable and unrepresentable records, second types and flushes; "
        "(d) files written by fastavro directly (plain-long datetime columns around the reader's guard, schemas "
        "without doc); (e) the stdout target avro://- in a child interpreter x close path (close only, flush+close, "
        "with-block) x sessions incl. never written, output read back from the captured stdout. distinct = distinct (field types of the descriptors, per operation: descriptor, decision, "
        "value kinds and integer bit lengths); non-trivial = the session writes at least one record")
    ok = core.standard_proof_stage(ctx, ["props/C19.vo"], "C19", THEOREMS, search_fn=search, gens=["gen_avro"])
    ctx.assumptions += [
        "fastavro 1.12.2 (compiled) is an environment model in coq/model/Avro.v (union matching as write_union/_validate do, "
        "int32/int64 ranges, tuple notation, timestamp-micros/-millis preparation and reading, the block buffer that would keep the "
        "bytes of a record refused half-way (unreachable now: the adapter's dry run refuses first), block count, flush of a non-empty buffer, the appendable-file check, the stored schema "
        "with the full name) -- validated only by this correspondence; codecs and the container framing are not modelled",
        "double -> float -> double conversion is the oracle to_f32 on bit patterns (ctypes.c_float, i.e. the C conversion "
        "fastavro's compiled writer performs; 1e39 -> +inf and 5e-324 -> 0.0 are IEEE round-to-nearest results and count as "
        "'floats to single precision'); all NaNs are one value",
        "json.dumps(desc._pack()) is modelled as text for names of printable ASCII without quote/backslash (what "
        "RecordDescriptor accepts); json.loads is modelled only on such texts (proved inverse)",
        "Python datetime: an aware datetime is (instant in microseconds, offset); instants outside year 1..9999 cannot be "
        "built by readers (OverflowError); Record construction re-stamps _version and needs _generated (always supplied)",
        "values are those a typed record can hold (field-type conversion is C05's subject); sessions stay small enough "
        "that fastavro's size-triggered block dump (16000 bytes) is exercised by one dedicated session only; it only "
        "moves records from the buffer to the file earlier",
    ]
    ctx.notes += [
        "decisions: a float beyond single range (1e39) is stored as +inf and 5e-324 as 0.0 -- the IEEE round-to-nearest "
        "results of the conversion the statement allows ('floats to single precision'); NaN stays NaN (one value); "
        "-0.0 keeps its sign; 16777217.0 reads back 16777216.0",
        "decisions: text with surrogate code points (surrogate-escaped bytes, lone surrogates) is refused with "
        "UnicodeEncodeError, never altered -- the statement allows refusal; a refusal happens at write() (fastavro encodes "
        "eagerly into its block buffer), not at flush()/close(); after a refusal the file stays readable with the earlier "
        "records and with every record accepted later (the dry run of commit 15e4336 keeps a refused record out of the buffer)",
        "a field-less descriptor's doc text does not satisfy the detection condition; the reader rebuilds it from "
        "namespace/name (proved equal for names without '.', not starting/ending with '/')",
        "out of scope, observed: AvroReader cannot read a foreign file whose schema has a non-reserved field starting "
        "with '_' (the fallback descriptor skips it but the value is still passed to the record class: TypeError)",
    ]
    if not ok:
        return
    rnd = random.Random(ctx.seed)
    reported = [False]
    cases = all_cases(ctx, rnd)
    terms, metas, reproduced = property_sweep(ctx, kf_by_cls, cases, reported)
    fterms, fmetas = foreign_sweep(ctx, rnd, reported)
    stdout_sweep(ctx, kf_by_cls, reported)
    nsess = len(terms)
    terms += fterms
    metas += [(len(cases) + i, o) for i, o in fmetas]
    failing, err = core.eval_bool_cases(ctx, HEADER, terms, shard_size=150, name="c19")
    if err:
        ctx.violation("correspondence shards did not evaluate: " + err[:300], dict(kind="coq-eval", log=err), no_input=True)
        return
    ctx.coverage["traces_validated_against_impl"] = len(terms) - len(failing)
    ctx.coverage["sessions"] = len(cases)
    ctx.coverage["foreign_files"] = len(fterms) // 2
    ctx.coverage["finding_classes_reproduced"] = sorted(reproduced)
    if failing and not reported[0]:
        i0 = failing[0]
        ci, origin = metas[i0]
        what = ["accept/refuse decisions", "AvroReader read-back", "fastavro.reader data/schema"][i0 % 3] if i0 < nsess else \
            ["AvroReader view of a foreign file", "fastavro view of a foreign file"][(i0 - nsess) % 2]
        case = cases[ci][1] if ci < len(cases) else None
        ctx.violation("model/Avro.v and the implementation disagree on %d of %d comparisons; first: %s of %s session %d (the "
                      "property's own oracle accepted the session)" % (len(failing), len(terms), what, origin, ci),
                      dict(kind="correspondence", correspondence="C19 sessions vs model/Avro.v", component=what, case=case,
                           term=terms[i0][:3000]), no_input=True)


def replay(obj):
    import tempfile
    kind = obj.get("kind")
    if kind == "session":
        work = tempfile.mkdtemp(prefix="c19replay.", dir=str(core.WORK))
        res = run_session(work, obj["case"], 0)
        problems, cls = oracle(obj["case"], res)
        kf_by_cls = {f["match"].get("cls"): f for f in core.known_for(PID)}
        bad = [p for p in problems if p[0] == "violation" or p[0].split(":", 1)[1] not in kf_by_cls]
        print("replay: decisions %s close %s read %s -> %s" % (res["outs"], res["close"], res["flow"].get("recs", res["flow"]), problems or "holds"))
        import shutil
        shutil.rmtree(work, ignore_errors=True)
        return 1 if bad else 0
    if kind == "stdout-session":
        work = tempfile.mkdtemp(prefix="c19replay.", dir=str(core.WORK))
        res = run_stdout_session(work, obj["case"], obj["mode"], 0)
        problems, cls = oracle(obj["case"], res)
        print("replay (stdout, %s): decisions %s close %s, %d bytes, read %s -> %s" % (
            obj["mode"], res["outs"], res["close"], res["stdout_bytes"], res["flow"].get("recs", res["flow"]), problems or "holds"))
        import shutil
        shutil.rmtree(work, ignore_errors=True)
        return 1 if any(k == "violation" for k, _ in problems) else 0
    if kind == "foreign":
        work = tempfile.mkdtemp(prefix="c19replay.", dir=str(core.WORK))
        recs = [{k: mk_value(v) for k, v in r.items()} for r in obj["recs"]]
        flow, raw = run_foreign(work, obj["schema"], recs, 0)
        msg = foreign_oracle(obj["schema"], recs, flow)
        print("replay: AvroReader gives %s -> %s" % (flow, msg or "holds"))
        import shutil
        shutil.rmtree(work, ignore_errors=True)
        return 1 if msg else 0
    print("replay of kind %s: re-run ./check C19" % kind)
    return 2
