"""C09 -- The interpreted selector is a sandbox.

proof:  coq/props/C09.v: for EVERY expression tree, every object behaviour (universally quantified oracles) and every
        budget, the symbolic model of RecordContextMatcher._eval performs only calls whose callee is an exposed
        function / whitelisted field-type constructor and only non-dunder attribute reads (C09_sandbox); witnesses for
        the pre-fix guard and for helper-mediated dunder reads.
tie:    (T) gen/Gen_sandbox.v: the namespace matches() builds, WHITELIST, the SHAPE of the Call branch (callee
        evaluated first, refusal by identity before arguments and invocation) and of the Attribute branch, read from
        selector.py by ast on every run (fail closed); (C) a grammar of hostile call/attribute shapes (every AST spelling
        of a call target nested in every supported construct) is evaluated by the implementation over a canary record
        whose objects log every attribute read and call; outcome class and the sequence of canary reads are compared
        with the model evaluated in Coq on the same AST; any canary call or tripwire is a violation.
"""
from __future__ import annotations

import ast
import itertools
import os
import random

from vf import core
from vf.coqlit import cbool, clist, cstr

THEOREMS = ["C09_generated_guard_by_identity", "C09_generated_exposed_callables", "C09_sandbox", "C09_sandbox_any_namespace",
            "C09_allowed_spec", "C09_refuted_name_guard", "C09_hostile1_refused_now", "C09_refuted_helper_reads_dunder",
            "C09_generated_helpers_refuse_dunder", "C09_helper_dunder_refused_now",
            "C09_trace_nonempty"]

LOG = []


class Canary:
    """An object that records what is done to it. Children are canaries named by their access path."""
    def __init__(self, path):
        object.__setattr__(self, "_p", path)

    def __getattr__(self, name):
        if name.startswith("__") and name.endswith("__"):
            # interpreter-internal probes (copy, pickle ...) never reach here from selector code paths we run
            LOG.append(("getattr", self._p, name))
            raise AttributeError(name)
        LOG.append(("getattr", self._p, name))
        return Canary(self._p + "." + name)

    def __setattr__(self, name, value):
        LOG.append(("setattr", self._p, name))

    def __call__(self, *a, **k):
        LOG.append(("call", self._p, len(a) + len(k)))
        return Canary(self._p + "()")

    def __iter__(self):
        return iter([Canary(self._p + "[0]"), Canary(self._p + "[1]")])

    def __bool__(self):
        return True

    def __len__(self):
        return 2

    def __contains__(self, x):
        return True

    def __hash__(self):
        return hash(self._p)

    def __str__(self):
        return "<canary %s>" % self._p

    __repr__ = __str__


def _binop(name):
    def f(self, other):
        return Canary("op")
    return f


for _n in ("__eq__", "__ne__", "__lt__", "__le__", "__gt__", "__ge__", "__add__", "__radd__", "__mul__", "__rmul__",
           "__truediv__", "__rtruediv__", "__mod__", "__rmod__", "__and__", "__rand__", "__or__", "__ror__"):
    setattr(Canary, _n, _binop(_n))


class CanaryDesc:
    """the canary record's descriptor: name and field table as plain attributes, getfields - which the selector exposes as
    `fields` - is the REAL RecordDescriptor.getfields of a descriptor without fields, so that whatever that exposed function
    does with an argument is done to the canaries too"""
    name = "canary/record"

    def __init__(self):
        from flow.record import RecordDescriptor
        real = RecordDescriptor("canary/record", [])
        self.fields = real.fields
        self.getfields = real.getfields


class CanaryRecord:
    """the record: like a real record it is NOT callable; every field/attribute read yields a canary"""
    def __init__(self):
        object.__setattr__(self, "_desc", CanaryDesc())

    def __getattr__(self, name):
        LOG.append(("getattr", "r", name))
        if name.startswith("__") and name.endswith("__"):
            raise AttributeError(name)
        return Canary("r." + name)

    def __setattr__(self, name, value):
        LOG.append(("setattr", "r", name))

    def __bool__(self):
        return True

    def __str__(self):
        return "<canary r>"

    __repr__ = __str__


for _n in ("__eq__", "__ne__", "__lt__", "__le__", "__gt__", "__ge__", "__add__", "__radd__", "__mul__", "__rmul__",
           "__truediv__", "__rtruediv__", "__mod__", "__rmod__", "__and__", "__rand__", "__or__", "__ror__"):
    setattr(CanaryRecord, _n, _binop(_n))
setattr(CanaryRecord, "__hash__", lambda self: 1)


# ---------------------------------------------------------------------------------------------------
# Python AST -> Coq node literal (the whole parser output space: unknown kinds become NOther)

KNOWN_BINOPS = None
KNOWN_UNARY = None


def load_tables():
    global KNOWN_BINOPS, KNOWN_UNARY
    import flow.record.selector as sel
    KNOWN_BINOPS = {k for k in sel.AST_OPERATORS}
    KNOWN_UNARY = KNOWN_BINOPS


def to_node(n):
    if isinstance(n, ast.Constant):
        return "(NConst %s)" % cbool(bool(n.value))
    if isinstance(n, ast.List):
        return "(NList %s)" % clist([to_node(e) for e in n.elts])
    if isinstance(n, ast.Tuple):
        return "(NTuple %s)" % clist([to_node(e) for e in n.elts])
    if isinstance(n, ast.Name):
        return "(NName %s)" % cstr(n.id)
    if isinstance(n, ast.Attribute):
        return "(NAttr %s %s)" % (to_node(n.value), cstr(n.attr))
    if isinstance(n, ast.BoolOp):
        return "(NBoolOp %s)" % clist([to_node(v) for v in n.values])
    if isinstance(n, ast.BinOp):
        return "(NBinOp %s %s %s)" % (cbool(type(n.op) in KNOWN_BINOPS), to_node(n.left), to_node(n.right))
    if isinstance(n, ast.UnaryOp):
        return "(NUnary %s %s)" % (cbool(type(n.op) in KNOWN_UNARY), to_node(n.operand))
    if isinstance(n, ast.Compare):
        return "(NCompare %s %s)" % (to_node(n.left), clist([
            "(%s, %s)" % (cbool(isinstance(op, (ast.In, ast.NotIn))), to_node(c)) for op, c in zip(n.ops, n.comparators)]))
    if isinstance(n, ast.Call):
        if any(kw.arg is None for kw in n.keywords):
            return "NOther"
        return "(NCall %s %s %s)" % (to_node(n.func), clist([to_node(a) for a in n.args]),
                                     clist(["(%s, %s)" % (cstr(kw.arg), to_node(kw.value)) for kw in n.keywords]))
    if isinstance(n, ast.GeneratorExp):
        gens = []
        for g in n.generators:
            if not isinstance(g.target, ast.Name):
                return "NOther"
            gens.append("(%s, %s, %s)" % (cstr(g.target.id), to_node(g.iter), clist([to_node(c) for c in g.ifs])))
        return "(NGen %s %s)" % (to_node(n.elt), clist(gens))
    return "NOther"


# ---------------------------------------------------------------------------------------------------
# the hostile grammar

CALL_TARGETS = [
    # (source of the callee expression, description)
    ("lower", "exposed helper by name"),
    ("str", "exposed builtin by name"),
    ("fields", "exposed bound method by name"),
    ("nosuchname", "unknown name"),
    ("r", "the record itself"),
    ("Type", "the type matcher"),
    ("string", "whitelisted field type by name"),
    ("net.ipaddress", "whitelisted field type by attribute chain"),
    ("net.ipv4", "non-leaf of the whitelist tree"),
    ("net.nosuch", "attribute chain leaving the whitelist tree"),
    ("r.a", "field value"),
    ("r.a.m", "method of a field value"),
    ("r.a.upper", "method of a field value named like a helper"),
    ("r.a.string", "attribute named like a whitelisted type"),
    ("lower(r.a).upper", "method of a call result, named like a helper"),
    ("'abc'.upper", "method of a constant, named like a helper"),
    ("(r.a + r.b).upper", "method of an operator result"),
    ("[r.a][0].upper", "method of a subscript"),
    ("lower(r.a)", "call result"),
    ("'abc'", "constant"),
    ("(r.a + r.b)", "operator expression"),
    ("r.a[0]", "subscript"),
    ("(lambda: 1)", "lambda"),
    ("r.__class__", "dunder attribute"),
    ("r.a.__class__.__name__.upper", "dunder attribute inside a chain"),
    ("Type.string.upper", "attribute of a typed matcher"),
]

ENCLOSURES = [
    "{c}", "not {c}", "{c} and True", "True or {c}", "{c} == 1", "1 < {c} < r.b", "[{c}]", "({c}, 1)", "{c} + r.b",
    "str({c})", "lower({c})", "{c}.attr", "any({c} for v in [r.a])", "any(v for v in [{c}])", "any(v for v in [r.a] if {c})",
    "all(w for v in r.a for w in [{c}])", "field_equals(r, ['a'], [{c}])", "field_equals(r, ['a'], ['x'], nocase={c})",
    "{c}({c})",
]

EXTRA = [
    # generator variables holding callables / shadowing names
    "any(f() for f in [r.a.upper])", "any(f() for f in [lower])", "any(string('A') for string in [r.a.startswith])",
    "any(lower(v) for v in r.a)", "any(v.m() for v in r.a)", "any(x == 1 for x in r.a) and any(x == 2 for x in r.b)",
    "any(r for r in [1])", "any(v for lower in [r.a.m] for v in [lower(1)])",
    # a generator consumed by a membership operator leaks its variable; the leaked callable is then called
    "1 in (f for f in [r.a.upper]) or f()", "r.b in (f for f in [r.a.m]) and f(1)", "(r.z in (g for g in r.a)) == g.m()",
    "1 not in (f() for f in [r.a.m])", "r.a in (v.m for v in r.b if v.n) or v()", "1 in (f for f in [lower]) or f(r.a) == 1",
    "(f for f in [r.a.m]) in [1] or f()", "str((f() for f in [r.a.m])) == ''", "1 == (f() for f in [r.a.m])",
    # the callee is resolved ONCE, before the arguments: evaluating the arguments re-binds the callee's name (a field-type name
    # is not in the namespace, so a generator may use it as its variable) - the object that was judged must be the one called
    "string(1 in (1 for string in [r.a.m]))",
    "uri(r.z in (0 for uri in [r.a.m]))", "path(1 in (0 for path in [r.a.m]), 2)", "varint(1 in (0 for varint in [r.a]))",
    "string(1 not in (v for string in [r.a.m] for v in [string]))", "net.ipaddress(1 in (0 for net in [r.a]))",
    # ONE call site whose callee is allowed the first time it is evaluated and forbidden later (the judgement is per call,
    # never per call site)
    "all(f(r.a) for f in [str, r.a.m])", "any(f(r.z) == 1 for f in [lower, upper, r.a.m])", "all(f(1) for f in [repr, str, r.b])",
    "all(f(r.a) for f in [string, r.a.m])", "any(f(v) for v in r.a for f in [str, v.m])",
    # dunder access spelled in every position
    "r.__dict__", "r.a.__class__", "lower(r.a).__class__", "'a'.__class__", "(r.a, 1).__len__", "r.a.__call__()",
    "Type.__class__", "net.__class__", "lower.__globals__", "str.__subclasses__()",
    # unsupported node kinds
    "r.a if r.b else 1", "{'a': r.a.m()}", "{r.a.m()}", "[v.m() for v in r.a]", "f'{r.a.m()}'", "-r.a", "r.a ** 2",
    "r.a[0]", "(lambda: r.a.m())()", "(x := r.a.m())", "field_equals(r, *[r.a.m()])", "field_equals(r, **{'a': r.a.m()})",
    # setattr-like spellings do not parse as expressions; calls that could mutate
    "r.a.append(1)", "r.__setattr__('a', 1)", "setattr(r, 'a', 1)", "fields('string')",
    "names(r)", "name(r) == 'x'", "has_field(r, 'a')", "get_type(r.a)", "repr(r.a) == 'x'", "upper(r.a) == r.b",
    "field_contains(r, ['a', 'b'], ['x'])", "field_regex(r, ['a'], 'x')",
]


# field_* helpers given field lists with double-underscore names: (expression, the names the helper walks through).  On the
# canaries every helper returns at the FIRST field it reads (their comparisons / __contains__ answer truthy), so the walk is
# the first name; later positions are probed on a real record (REAL_HELPER_DUNDER) whose earlier fields do not match.
HELPER_FIELD_LISTS = [["__class__"], ["a", "__doc__"], ["__dict__", "a"], ["a", "b", "__x", "c"], ["_a", "__"], ["a", "b"], ["___"],
                      ["__init__", "a_", "__class__"],
                      # names that only BECOME double-underscore names if the helper normalises them after its check
                      [" __secret__"], ["__secret__ "], ["\t__x__"], [" __x__\n"], ["a.__y__"], ["A__z__"]]
HELPER_DUNDER = []
for _fl in HELPER_FIELD_LISTS:
    HELPER_DUNDER.append(("field_equals(r, %r, ['x'])" % _fl, _fl[:1]))
    HELPER_DUNDER.append(("field_equals(r, %r, [None], nocase=False)" % _fl, _fl[:1]))
    HELPER_DUNDER.append(("not field_equals(r, %r, ['x']) or r.q" % _fl, _fl[:1]))
    HELPER_DUNDER.append(("field_contains(r, %r, ['x'])" % _fl, _fl[:1]))
    HELPER_DUNDER.append(("any(field_equals(r, %r, [v]) for v in r.a)" % _fl, _fl[:1]))
REAL_HELPER_DUNDER = [
    "field_equals(r, ['__doc__'], [None], nocase=False)", "field_equals(r, ['s', '__doc__'], ['nomatch'])",
    "field_equals(r, ['zz', 's', '__class__'], ['nomatch'])", "field_contains(r, ['s', 'zz', '__module__'], ['nomatch'])",
    "field_contains(r, ['__dict__'], ['x'])", "field_regex(r, ['s', '__slots__'], 'nomatch')", "field_regex(r, ['__doc__'], '.*')",
    "field_contains(r, ['s', '__doc__'], ['nomatch'], word_boundary=True)",
    "any(field_equals(r, [n], ['nomatch']) for n in ['s', '__class__'])",
]


# checked by the oracle on the implementation only (a generator object consumed through a VARIABLE is outside the model, which
# follows generator expressions only where they are written)
IMPL_ONLY = [
    "any(string(1 in g) for g in [(1 for string in [r.a.m])])", "any(uri(r.b in g) for g in [(0 for uri in [r.a.m])])",
    "all(path(g in [1], 1 in g) for g in [(1 for path in [r.a.m])])",
    "any(string(v) for g in [(2 for string in [r.a.m])] for v in [1 in g])",
    "any(lower(1 in g) == f() for g in [(1 for f in [r.a.m])])",
]


def exposed_on_canaries(constructors=True):
    """Every callable the selector exposes (namespace functions, str/repr/any/all/fields, every whitelisted field-type
    constructor), applied to canaries in every argument position: what an exposed function does with its arguments is its own
    business, EXCEPT invoking their non-dunder methods, writing to them or reading their double-underscore attributes
    through getattr - the oracle of explore() (implementation only; outside the symbolic model).  The field-type constructors
    hand their argument to library code that duck-types it (urlparse calls .decode, ipaddress calls .split ...): permitted
    by the property ("call ... the whitelisted field-type constructors"), so for them only writes and dunder reads count."""
    import flow.record.selector as sel
    from flow.record.whitelist import WHITELIST
    names = ["str", "repr", "fields", "any", "all"] + sorted(f.__name__ for f in sel.FUNCTION_WHITELIST)
    out = []
    for f in names + (sorted(WHITELIST) if constructors else []):
        out += ["%s(r.z)" % f, "%s(r.z, r.y)" % f, "%s(r, r.z)" % f, "%s(r, ['a'], r.z)" % f, "%s(r.z, ['a'], ['x'])" % f,
                "%s(r, r.z, ['x'])" % f, "%s([r.z])" % f, "%s(r.z.w)" % f]
    return out


def expressions(ctx):
    out = []
    for (c, _), e in itertools.product(CALL_TARGETS, ENCLOSURES):
        out.append(e.replace("{c}({c})", "%s(%s)" % (c, c)).format(c="%s(r.z)" % c) if "{c}({c})" not in e else "%s(%s(1))" % (c, c))
        out.append(e.format(c=c) if "{c}({c})" not in e else "%s()" % c)
    out += EXTRA
    if ctx.tier == "thorough":
        rnd = random.Random(ctx.seed)
        for _ in range(1500):
            c1, c2 = rnd.choice(CALL_TARGETS)[0], rnd.choice(CALL_TARGETS)[0]
            # the outer construct must not depend on the VALUE of the inner one (chains, any/all stop early): the canary
            # oracles of the model only know canaries' truthiness
            # (and not `.attr` of the inner value: `not x` / `x and y` / str(x) are real bools and strings, whose attribute reads no
            #  canary logs, while the model's objects are symbolic)
            plain = [e for e in ENCLOSURES if "<" not in e and "any(" not in e and "all(" not in e and e != "{c}.attr"]
            e1, e2 = rnd.choice(ENCLOSURES), rnd.choice(plain)
            inner = (e1.format(c="%s(%s)" % (c1, c2)) if "{c}({c})" not in e1 else "%s(%s)" % (c1, c2))
            out.append(e2.format(c="(%s)" % inner) if "{c}({c})" not in e2 else "(%s)()" % inner)
    seen, uniq = set(), []
    for x in out:
        if x not in seen:
            seen.add(x)
            uniq.append(x)
    return uniq


def run_impl(expr):
    """(outcome, log) on the implementation over a fresh canary record."""
    from flow.record.selector import InvalidOperation, Selector
    del LOG[:]
    try:
        sel = Selector(expr)
    except SyntaxError:
        return None, None
    rec = CanaryRecord()
    try:
        sel.match(rec)
        out = "Ok"
    except InvalidOperation:
        out = "InvalidOperation"
    except TypeError:
        out = "TypeErr"
    except KeyError:
        out = "KeyErr"
    except AttributeError:
        out = "AttrErr"
    except Exception as e:  # noqa
        out = "Other:" + type(e).__name__
    return out, list(LOG)


HEADER = """From Coq Require Import List Bool String Ascii.
Import ListNotations.
From FR Require Import Sandbox Gen_sandbox.
Open Scope string_scope.
Open Scope list_scope.
(* the canary objects of the harness: everything is truthy except falsy constants, empty displays and the sentinel;
   iterating a display yields its elements, iterating any other object yields two children *)
Fixpoint type_rooted (o : obj) : bool :=
  match o with
  | OPlain n => String.eqb n "Type"
  | OAttr p _ => type_rooted p
  | OCall (OFun f) (a :: _) => if String.eqb f "lower" || String.eqb f "upper" then type_rooted a else false   (* lower(x) is x for a non-string *)
  | _ => false
  end.
(* lower(x) / upper(x) hand a non-string x back unchanged: the sentinel stays the sentinel *)
Fixpoint through_case_helpers (o : obj) : obj :=
  match o with
  | OCall (OFun f) (a :: _) => if String.eqb f "lower" || String.eqb f "upper" then through_case_helpers a else o
  | _ => o
  end.
Definition falsy_operand (o : obj) : bool := match through_case_helpers o with OMissing => true | x => type_rooted x end.
Definition c_truthy (o : obj) : bool :=
  match o with
  | OConst t => t | OMissing => false | OSeq [] => false
  | OCall (OFun f) _ => negb (String.eqb f "fields")        (* the canary descriptor has no fields: [] *)
  | OOp l => negb (existsb falsy_operand l)                  (* comparisons with the sentinel / an empty typed matcher are False *)
  | _ => true
  end.
Definition c_elems (o : obj) : list obj :=
  match o with OSeq l => l | OConst _ | OMissing | OFun _ | OPlain _ | OMod _ | OGenObj => [] | _ => [OElem o 0; OElem o 1] end.
(* the helper calls of the grammar pass the field list ['a'] (case_ok); the cases that pass other field lists -- with
   double-underscore names at every position -- state the list the helper walks through (case_ok_f) *)
(* path name of an object as the canaries spell it; None for objects that are not canaries *)
Fixpoint cpath (o : obj) : option string :=
  match o with
  | ORec => Some "r"
  | OAttr p n => match cpath p with Some s => Some (String.append s (String.append "." n)) | None => None end
  | OElem p i => match cpath p with Some s => Some (String.append s (if Nat.eqb i 0 then "[0]" else "[1]")) | None => None end
  | OCall (OFun f) (a :: _) => if String.eqb f "lower" || String.eqb f "upper" then cpath a else None
  | OOp _ => Some "op"
  | _ => None
  end.
Definition canary_reads (evs : list event) : list (string * string) :=
  flat_map (fun e => match e with
                     | EvGetattr o n => match cpath o with Some p => [(p, n)] | None => [] end
                     | EvHelperGetattr n => [("r", n)]
                     | _ => [] end) evs.
Definition err_eqb (a b : err) : bool :=
  match a, b with InvalidOperation, InvalidOperation | TypeErr, TypeErr | KeyErr, KeyErr | AttrErr, AttrErr => true | _, _ => false end.
Definition pair_eqb (a b : string * string) : bool := String.eqb (fst a) (fst b) && String.eqb (snd a) (snd b).
Fixpoint reads_eqb (a b : list (string * string)) : bool :=
  match a, b with [], [] => true | x :: a', y :: b' => pair_eqb x y && reads_eqb a' b' | _, _ => false end.
Fixpoint reads_prefix (a b : list (string * string)) : bool :=
  match a, b with [], _ => true | x :: a', y :: b' => pair_eqb x y && reads_prefix a' b' | _, [] => false end.
Definition err_code (e : err) : nat := match e with InvalidOperation => 1 | TypeErr => 2 | KeyErr => 3 | AttrErr => 4 end.
(* one case: AST, implementation outcome (0 = a value, 1..4 = err_code, 5 = another exception), the canary reads.
   When the model evaluates to a value but the implementation raised something other than InvalidOperation, an operator
   or an allowed callee raised on the canary arguments (outside the model): the reads must then be a prefix. *)
Definition case_ok_f (fs : list string) (n : node) (impl : nat) (impl_reads : list (string * string)) : bool :=
  let '(r, (_, evs)) := eval sandbox_facts c_truthy c_elems (fun _ => fs) 40 (ns0 sandbox_facts, []) n in
  match r with
  | Ok _ => if Nat.eqb impl 0 then reads_eqb (canary_reads evs) impl_reads
            else negb (Nat.eqb impl 1) && reads_prefix impl_reads (canary_reads evs)
  | Err e => (Nat.eqb (err_code e) impl && reads_eqb (canary_reads evs) impl_reads)
             (* an ALLOWED callee raised an exception of its own on the canary arguments (ValueError from a field-type
                constructor ...) before the evaluation reached the point where the model stops: reads are a prefix *)
             || (Nat.eqb impl 5 && reads_prefix impl_reads (canary_reads evs))
  end.
Definition case_ok := case_ok_f ["a"].
"""


def explore(ctx, report=True):
    load_tables()
    kf = {f["id"]: f for f in core.known_for("C09")}
    terms, metas = [], []
    field_lists = {e: fl for e, fl in HELPER_DUNDER}
    ctor_exprs = set(exposed_on_canaries()) - set(exposed_on_canaries(constructors=False))
    modelled = set(expressions(ctx)) | {e for e, _ in HELPER_DUNDER}
    impl_only = set(IMPL_ONLY) | set(exposed_on_canaries())
    for expr in expressions(ctx) + [e for e, _ in HELPER_DUNDER] + IMPL_ONLY + exposed_on_canaries():
        out, log = run_impl(expr)
        if out is None:
            continue
        tree = ast.parse(expr, mode="eval").body
        has_dunder = any(isinstance(x, ast.Attribute) and x.attr.startswith("__") for x in ast.walk(tree))
        ctx.count_case(expr, nontrivial=True)
        calls = [e for e in log if e[0] == "call"]
        sets = [e for e in log if e[0] == "setattr"]
        dunder = [e for e in log if e[0] == "getattr" and e[2].startswith("__")]
        if expr in ctor_exprs:
            calls = []
        if calls or sets or dunder:
            if report:
                ctx.violation("evaluating %r invoked / modified / dunder-read a canary object: %r" % (expr, (calls + sets + dunder)[:3]),
                              dict(kind="sandbox", expr=expr, outcome=out, log=[list(e) for e in log]))
            return None, None, True
        # a double-underscore attribute node outside generator bodies is always reached by a successful evaluation
        gen_nodes = {id(x) for g in ast.walk(tree) if isinstance(g, ast.GeneratorExp) for x in ast.walk(g)}
        reached_dunder = [x.attr for x in ast.walk(tree) if isinstance(x, ast.Attribute) and x.attr.startswith("__") and id(x) not in gen_nodes]
        if out == "Ok" and reached_dunder:
            if report:
                ctx.violation("evaluating %r read the double-underscore attribute %r and returned a value" % (expr, reached_dunder[0]),
                              dict(kind="sandbox-dunder", expr=expr, outcome=out, log=[list(e) for e in log]))
            return None, None, True
        reads = [(e[1], e[2]) for e in log if e[0] == "getattr"]
        code = {"Ok": 0, "InvalidOperation": 1, "TypeErr": 2, "KeyErr": 3, "AttrErr": 4}.get(out, 5)
        if expr in impl_only and expr not in modelled:
            continue
        head = "case_ok" if expr not in field_lists else "case_ok_f %s" % clist([cstr(x) for x in field_lists[expr]])
        terms.append("(%s %s %d %s)" % (head, to_node(tree), code, clist(["(%s, %s)" % (cstr(p), cstr(n)) for p, n in reads])))
        metas.append(dict(expr=expr, outcome=out, reads=reads))
    # helper-mediated dunder reads on a real record whose earlier fields do not match: every one must be refused
    from flow.record import RecordDescriptor
    from flow.record.selector import InvalidOperation, Selector
    D = RecordDescriptor("probe/c09", [("string", "s")])
    r = D(s="x")
    before = repr(r._pack())
    for expr in REAL_HELPER_DUNDER:
        try:
            res = Selector(expr).match(r)
            outcome = "returned %r" % (res,)
        except InvalidOperation:
            outcome = None
        except Exception as e:  # noqa
            outcome = "raised %s: %s" % (type(e).__name__, e)
        ctx.count_case(("helper-dunder", expr))
        if outcome is not None:
            if "C09-helper-reads-dunder" in kf:
                ctx.known_finding("C09-helper-reads-dunder", kf["C09-helper-reads-dunder"]["what"])
            elif report:
                ctx.violation("%s %s: a whitelisted helper read a double-underscore attribute of the record instead of refusing it" % (expr, outcome),
                              dict(kind="helper-dunder", expr=expr, outcome=outcome))
                return None, None, True
    # one Selector object over several records: a call site allowed for one record (the attribute IS an exposed function)
    # must be judged again for the next record
    class _Tool:
        def __init__(self, render):
            self.render = render

    class _Holder:
        def __init__(self, tool):
            self.tool = tool
            self._desc = CanaryDesc()
    calls = []

    def _forbidden(*a, **k):
        calls.append(a)
        return "x"
    for expr in ["r.tool.render(1) == '1'", "any(r.tool.render(v) for v in [1, 2])", "lower(r.tool.render('A')) == 'a'"]:
        sel_obj = Selector(expr)
        ctx.count_case(("call-site-reuse", expr))
        try:
            sel_obj.match(_Holder(_Tool(str)))
        except Exception:  # noqa
            pass
        outcome = None
        try:
            sel_obj.match(_Holder(_Tool(_forbidden)))
            outcome = "evaluated"
        except InvalidOperation:
            outcome = "refused"
        except Exception as e:  # noqa
            outcome = type(e).__name__
        if calls:
            if report:
                ctx.violation("one Selector(%r) matched against two records: the call site was allowed for the first record (the attribute "
                              "is the exposed function str) and then invoked an arbitrary callable of the second record (%s)" % (expr, outcome),
                              dict(kind="call-site-reuse", expr=expr, outcome=outcome))
            return None, None, True
    # evaluation never modifies a real record
    for expr in ["upper(r.s) == 'X'", "any(c == 'x' for c in r.s)", "r.s in ['x']", "field_contains(r, ['s'], ['x'])",
                 "string('x') == r.s", "str(r) == ''", "repr(r.s) == 'x'", "len(names(r)) == 1" if False else "name(r) == 'probe/c09'"]:
        try:
            Selector(expr).match(r)
        except Exception:  # noqa
            pass
        ctx.count_case(("unchanged", expr))
        if repr(r._pack()) != before:
            if report:
                ctx.violation("evaluating %r modified the record" % expr, dict(kind="mutation", expr=expr))
            return None, None, True
    return terms, metas, False


def search(ctx, reason):
    _, _, found = explore(ctx)
    return found


def run(ctx):
    ctx.coverage["rule"] = (
        "%d call-target spellings (name, attribute chain, call result, constant, operator expression, subscript, lambda, "
        "generator variable, dunder chains, whitelist-tree paths) x %d enclosing constructs (bare, not/and/or, comparison and "
        "chain, list/tuple, arithmetic, arguments and keyword arguments of helpers, attribute of the result, every position of "
        "a generator expression, self-application), each as callee and as called callee, plus %d hand-written hostile "
        "expressions (generator variables holding callables, every dunder spelling, unsupported node kinds); random nesting in "
        "the thorough tier; every exposed callable (namespace functions incl. the real RecordDescriptor.getfields, str/repr/any/all, "
        "every whitelisted constructor) applied to canaries in every argument position (implementation oracle only). "
        "distinct = distinct source text; every case contains a call or attribute shape" % (
            len(CALL_TARGETS), len(ENCLOSURES), len(EXTRA)))
    ok = core.standard_proof_stage(ctx, ["props/C09.vo"], "C09", THEOREMS, search_fn=search, gens=["gen_sandbox"])
    ctx.assumptions += [
        "objects are symbolic in the model (free term algebra); their truthiness, iteration and the strings a helper finds are "
        "universally quantified oracles in the theorem and are fixed to the canaries' behaviour in the correspondence",
        "`fields` (rec._desc.getfields) is an exposed callable besides the ones the property names; it returns descriptor fields",
        "what an exposed function or an operator does to its arguments (str(), lower(), ==, +) is outside the model: operators and "
        "exposed calls are permitted by the property; mutation by them is checked on real records by execution",
        "Python's ast.parse; the Python-AST -> model-AST conversion in tools/vf/props/c09.py (unknown node kinds map to NOther)",
    ]
    if not ok:
        return
    terms, metas, found = explore(ctx)
    if found:
        return
    shard = max(1, (len(terms) + 15) // 16)
    failing, err = core.eval_bool_cases(ctx, HEADER, terms, shard_size=shard, name="c09", timeout=900)
    if err:
        ctx.violation("correspondence shards did not evaluate: " + err[:300], dict(kind="coq-eval", log=err), no_input=True)
        return
    ctx.coverage["traces_validated_against_impl"] = len(terms) - len(failing)
    if failing:
        m = metas[failing[0]]
        ctx.violation("model (coq/model/Sandbox.v) and implementation disagree on %d of %d hostile expressions (outcome class or canary "
                      "reads), first: %r -> %s reads %r; no canary was called, modified or dunder-read" % (
                          len(failing), len(terms), m["expr"], m["outcome"], m["reads"]),
                      dict(kind="correspondence", correspondence="C09 hostile grammar vs coq/model/Sandbox.v", first=m,
                           failing=[metas[i]["expr"] for i in failing[:40]]), no_input=True)
        return
    for m in metas[:: max(1, len(metas) // 6)]:
        ctx.sample(m)


def replay(obj):
    if "expr" in obj:
        out, log = run_impl(obj["expr"])
        print("replay %r -> %s, log %r" % (obj["expr"], out, log))
        bad = [e for e in log or [] if e[0] in ("call", "setattr") or (e[0] == "getattr" and e[2].startswith("__"))]
        return 1 if bad else 0
    return 2
