"""C20 -- text-oriented writers (csvfile / line / text adapters) render every record completely.

proof:   coq/props/C20.v  (theorems about model/Csv.v instantiated with the GENERATED constants of
         gen/Gen_text.v: csv quoting round trip, csv layout, line layout, text = repr or template,
         totality, normalize_fieldname, csv read back)
tie:     (T) gen/Gen_text.v regenerated from the three adapters + base.normalize_fieldname on every run
         (C) records over all field types with hostile text x writer options are written by the real
             CsvfileWriter / LineWriter / TextWriter (through RecordWriter URIs); the produced bytes are
             compared EXACTLY with the model evaluated inside Coq, the CSV is parsed by csv.reader and by
             the model's csv_parse, and independent Python oracles check what the property states.
"""
from __future__ import annotations

import csv
import datetime as _pydt
import io
import os
import random
import string as _string
import urllib.parse
import warnings

from vf import core
from vf.coqlit import cbool

PID = "C20"
THEOREMS = [
    "C20_generated_facts", "C20_generated_normalize", "C20_generated_missing",
    "C20_csv_quoting", "C20_csv_quoting_lf_partial", "C20_csv_quoting_lf_refuted", "C20_csv_single_empty_cell",
    "C20_terminator_escapes",
    "C20_csv_layout", "C20_csv_layout_runs", "C20_csv_runs_maximal", "C20_csv_parses_back_to_layout",
    "C20_line_layout", "C20_line_numbering", "C20_line_count", "C20_line_one_line_per_field_partial",
    "C20_line_one_line_per_field_refuted", "C20_line_alignment",
    "C20_text_is_repr_or_template", "C20_text_plain_template", "C20_text_placeholder", "C20_text_spec_on_none_refuted",
    "C20_total_partial", "C20_csv_accepts_escaped_bytes", "C20_csv_total_refuted", "C20_total_lone_surrogate_refuted",
    "C20_normalize_idempotent", "C20_normalize_first_char", "C20_normalize_valid_on_simple_names",
    "C20_valid_name_anchor", "C20_csv_reader_takes_writer_dialect", "C20_csv_writer_output_reads_back", "C20_csv_read_back",
    "C20_csv_read_back_given_delimiter",
]
TS = _pydt.datetime(2020, 1, 2, 3, 4, 5, tzinfo=_pydt.timezone.utc)

# ------------------------------------------------------------------------------------------------
# Gallina literals


def ct(s: str) -> str:
    """text literal (list of code points)"""
    if s == "":
        return "[]"
    if all(32 <= ord(c) < 127 for c in s) and len(s) >= 3:
        return '(tx "%s")' % s.replace('"', '""')
    return "[" + ";".join(str(ord(c)) for c in s) + "]"


def copt(x, pr):
    return "None" if x is None else "(Some %s)" % pr(x)


def clist(items):
    items = list(items)
    return "[" + ";".join(items) + "]" if items else "[]"


def cbytes(b) -> str:
    return "None" if b is None else '(Some (unhex "%s"))' % bytes(b).hex()


def crows(rows) -> str:
    return clist(clist(ct(c) for c in r) for r in rows)


# ------------------------------------------------------------------------------------------------
# hostile text and values of every field type

ATOMS = [
    "", " ", "a", "b", "xyz", "0", "-1", ",", ";", "\t", "|", '"', '""', "'", "\\", "\\n", "\\r\\n", "\r", "\n", "\r\n",
    "\x00", "\x0b", "\x0c", "\x1b[31m", "\x7f", "\x85", "\u2028", "\ufeff", "\u00e9", "e\u0301", "\u65e5\u672c\u8a9e",
    "\U0001f600", "\U0010ffff", "\u05d0", "\u0663", "{", "}", "{x}", "{{", "=", " = ", "None", "--[ RECORD 1 ]--",
    "<t/x a=1>", "=1+1", "a,b", 'q"q', "a\nb", "a\rb", "a\r\nb", " lead", "trail ", "a;b", "a|b", "a\tb",
]
ESCAPED = ["\udcff", "\udc80", "a\udce9b"]          # bytes smuggled through surrogateescape
LONE = ["\ud800", "\udfff", "x\udc7f"]              # surrogates no UTF-8 error handler here can encode


def hostile_text(rnd, allow_escaped=True, allow_lone=True):
    k = rnd.random()
    n = 1 if k < 0.35 else rnd.randint(2, 4)
    parts = [rnd.choice(ATOMS) for _ in range(n)]
    r = rnd.random()
    if allow_escaped and r < 0.12:
        parts.insert(rnd.randint(0, len(parts)), rnd.choice(ESCAPED))
    elif allow_lone and r < 0.14:
        parts.insert(rnd.randint(0, len(parts)), rnd.choice(LONE))
    elif r < 0.18:
        parts.append("w" * rnd.randint(30, 80))
    return "".join(parts)


def safe_word(rnd):
    return "".join(rnd.choice(_string.ascii_lowercase + _string.digits) for _ in range(rnd.randint(1, 8)))


def _filesize_values():
    """every unit boundary and every magnitude of human_readable_size's logarithm: 0, 1, the powers of 1024, of 10 and of
    10.24 up to 2**63-1 with their neighbours, a few beyond and below zero"""
    vals = {0, 1, 2, 2 ** 63 - 1, 2 ** 63, 2 ** 64, 2 ** 70, 2 * 10 ** 17, -1, -5, -1024, -(10 ** 17)}
    for k in range(1, 7):
        vals |= {1024 ** k - 1, 1024 ** k, 1024 ** k + 1, 5 * 1024 ** k}
    for k in range(1, 20):
        vals |= {10 ** k - 1, 10 ** k, 10 ** k + 1, 5 * 10 ** k}
    for k in range(1, 20):
        b = int(10.24 ** k)
        vals |= {b - 1, b, b + 1, b + 2}
    for k in range(1, 64):
        vals.add(2 ** k)
    return sorted(vals)


FILESIZE_VALUES = _filesize_values()

SCALAR_TYPES = [
    "string", "wstring", "uri", "path", "varint", "uint16", "uint32", "float", "boolean", "bytes", "datetime",
    "filesize", "unix_file_mode", "digest", "net.ipaddress", "net.ipnetwork", "net.IPAddress", "net.IPNetwork",
    "net.ipv4.Address", "net.ipv4.Subnet", "net.tcp.Port", "net.udp.Port", "command", "dynamic", "dictlist", "stringlist",
    "record",
]
LIST_TYPES = ["string[]", "varint[]", "bytes[]", "path[]", "net.ipaddress[]", "datetime[]", "float[]", "uri[]", "filesize[]"]
ALL_TYPES = SCALAR_TYPES + LIST_TYPES
TEXT_TYPES = ("string", "wstring", "uri", "path")

_INNER = None


def inner_record(rnd):
    global _INNER
    from flow.record import RecordDescriptor
    if _INNER is None:
        _INNER = RecordDescriptor("inner/rec", [("string", "q"), ("varint", "k")])
    return _INNER(q=hostile_text(rnd, allow_lone=False), k=rnd.randint(-3, 3), _generated=TS)


def gen_value(rnd, tname, hostile=True):
    """A python value accepted by the field type (the record constructor converts it)."""
    def txt():
        return hostile_text(rnd) if hostile else safe_word(rnd)
    if tname.endswith("[]"):
        return [gen_value(rnd, tname[:-2], hostile) for _ in range(rnd.randint(0, 3))]
    if tname in ("string", "wstring", "uri"):
        return txt()
    if tname == "path":
        from flow.record.fieldtypes import path
        k = rnd.random()
        if k < 0.2:
            return path.from_windows("C:\\dir\\" + safe_word(rnd))
        if k < 0.4:
            return path.from_posix("/tmp/" + safe_word(rnd))
        return txt()
    if tname == "varint":
        return rnd.choice([0, 1, -1, 127, 128, 2 ** 31, -2 ** 63, 2 ** 64, 2 ** 70 + 3, rnd.randint(-10 ** 6, 10 ** 6)])
    if tname == "uint16":
        return rnd.choice([0, 1, 65535, rnd.randint(0, 65535)])
    if tname == "uint32":
        return rnd.choice([0, 1, 2 ** 32 - 1, rnd.randint(0, 2 ** 32 - 1)])
    if tname == "float":
        return rnd.choice([0.0, -0.0, 1.5, float("inf"), float("-inf"), float("nan"), 1e300, 5e-324, rnd.random()])
    if tname == "boolean":
        return rnd.choice([True, False, 0, 1])
    if tname == "bytes":
        return rnd.choice([b"", b"\x00", b"\xff\xfe", b'a,"b"\r\n', bytes(rnd.randrange(256) for _ in range(rnd.randint(1, 6)))])
    if tname == "datetime":
        return rnd.choice([
            TS, _pydt.datetime(1, 1, 1), _pydt.datetime(9999, 12, 31, 23, 59, 59, 999999),
            _pydt.datetime(1969, 12, 31, 23, 59, 59, 1, tzinfo=_pydt.timezone.utc),
            _pydt.datetime(2021, 6, 1, 12, 0, tzinfo=_pydt.timezone(_pydt.timedelta(hours=5, minutes=30))),
            "2022-03-04T05:06:07.000008+00:00",
        ])
    if tname == "filesize":
        return rnd.choice(FILESIZE_VALUES) if rnd.random() < 0.8 else rnd.randint(0, 2 ** 63 - 1)
    if tname == "unix_file_mode":
        return rnd.choice([0, 0o644, 0o100755, 0o7777])
    if tname == "digest":
        md5 = "d41d8cd98f00b204e9800998ecf8427e"
        sha1 = "da39a3ee5e6b4b0d3255bfef95601890afd80709"
        sha256 = "e3b0c44298fc1c149afbf4c8996fb92427ae41e4649b934ca495991b7852b855"
        return rnd.choice([(md5, None, None), (md5, sha1, sha256), (None, None, None), (None, sha1.upper(), None)])
    if tname in ("net.ipaddress", "net.IPAddress"):
        return rnd.choice(["1.2.3.4", "0.0.0.0", "::1", "2001:db8::ff00:42:8329", "::ffff:10.0.0.1", 167772161])
    if tname in ("net.ipnetwork", "net.IPNetwork"):
        return rnd.choice(["10.0.0.0/8", "0.0.0.0/0", "::/0", "2001:db8::/32", "192.168.1.1/32"])
    if tname == "net.ipv4.Address":
        return rnd.choice(["1.2.3.4", "255.255.255.255"])
    if tname == "net.ipv4.Subnet":
        return rnd.choice(["10.0.0.0/8", "192.168.0.0/24"])
    if tname in ("net.tcp.Port", "net.udp.Port"):
        return rnd.choice([0, 53, 80, 65535])
    if tname == "command":
        return rnd.choice(["ls -l", 'sh -c "a b"', "C:\\Windows\\cmd.exe /c dir", "x\ny", "prog a,b ;|", "\u00e9 \U0001f600"])
    if tname == "dynamic":
        return rnd.choice(["s" + txt(), rnd.randint(-5, 5), [1, txt()], b"x\xff", TS])
    if tname == "dictlist":
        return [{"k": txt(), "n": rnd.randint(0, 3)} for _ in range(rnd.randint(0, 2))]
    if tname == "stringlist":
        return [txt() for _ in range(rnd.randint(0, 3))]
    if tname == "record":
        return inner_record(rnd)
    raise AssertionError(tname)


FIELD_NAMES = ["a", "b", "s", "n", "name", "value", "ts", "path", "X", "Zz9", "long_field_name_with_many_chars",
               "f_1", "q", "k", "type", "class_", "self_", "count", "id", "ip", "data", "h",
               # attributes a GroupedRecord has itself: a member field of that name must still be rendered
               "name", "records", "descriptors", "flat_fields"]


def gen_descriptor(rnd, idx, types=None):
    from flow.record import RecordDescriptor
    nf = rnd.choice([0, 1, 1, 2, 3, 4, 6])
    names = rnd.sample(FIELD_NAMES, nf)
    fields = [((rnd.choice(types) if types else rnd.choice(ALL_TYPES)), n) for n in names]
    name = rnd.choice(["t/a", "test/rec_%d" % idx, "x", "a/b/c", "Cap/Name9"])
    return RecordDescriptor(name, fields)


def make_record(rnd, D, hostile=True, p_none=0.2):
    """Build a record; a value the field type rejects is replaced by None (construction is not C20's subject)."""
    kw = {}
    for tname, fname in D.get_field_tuples():
        if rnd.random() < p_none:
            continue
        v = gen_value(rnd, tname, hostile)
        try:
            D.recordType(**{fname: v, "_generated": TS})
        except Exception:
            continue
        kw[fname] = v
    if rnd.random() < 0.25:
        kw["_source"] = hostile_text(rnd, allow_lone=False) if hostile else safe_word(rnd)
    if rnd.random() < 0.15:
        kw["_classification"] = safe_word(rnd)
    return D.recordType(_generated=TS, **kw)


# ------------------------------------------------------------------------------------------------
# observation of a record (independent of Record._asdict / __repr__)

class TextFormError(Exception):
    def __init__(self, key, tname, value_desc, exc):
        super().__init__("%s(%s): %s" % (tname, value_desc, exc))
        self.key, self.tname, self.value_desc, self.exc = key, tname, value_desc, exc


def plain_items(rec):
    """[(key, typename, str(value) or None, repr(value))] over __slots__"""
    allf = rec._desc.get_all_fields()
    out = []
    for k in type(rec).__slots__:
        v = getattr(rec, k)
        tname = allf[k].typename
        try:
            s = None if v is None else str(v)
            r = repr(v)
            if v is not None and format(v, "") != s:
                raise TextFormError(k, tname, "format(v, '') != str(v)", "format/str disagree")
        except TextFormError:
            raise
        except Exception as e:  # the field type cannot print the value
            try:
                vd = int.__repr__(v) if isinstance(v, int) else type(v).__name__
            except Exception:
                vd = type(v).__name__
            raise TextFormError(k, tname, vd, "%s: %s" % (type(e).__name__, e))
        out.append((k, tname, s, r))
    return out


def observe(rec):
    """('plain', name, items) | ('grouped', name, [(name, items) ...])"""
    from flow.record.base import GroupedRecord
    if isinstance(rec, GroupedRecord):
        return ("grouped", rec.name, [(m._desc.name, plain_items(m)) for m in rec.records])
    return ("plain", rec._desc.name, plain_items(rec))


def flat_items(obs):
    if obs[0] == "plain":
        return obs[2]
    seen, out = set(), []
    for _, items in obs[2]:
        for it in items:
            if it[0] not in seen:
                seen.add(it[0])
                out.append(it)
    return out


RESERVED = ("_source", "_classification", "_generated", "_version")


def desc_key(obs):
    """value identity of the descriptor: (name, ((type, field) ...)) over the non-reserved fields"""
    return (obs[1], tuple((it[1], it[0]) for it in flat_items(obs) if it[0] not in RESERVED))


def c_item(it):
    return "{|i_key:=%s;i_type:=%s;i_str:=%s;i_repr:=%s|}" % (ct(it[0]), ct(it[1]), copt(it[2], ct), ct(it[3]))


def c_prec(name, items):
    return "{|p_name:=%s;p_items:=%s|}" % (ct(name), clist(c_item(i) for i in items))


def c_rec(obs):
    if obs[0] == "plain":
        return "(Plain %s)" % c_prec(obs[1], obs[2])
    return "(Grouped %s %s)" % (ct(obs[1]), clist(c_prec(n, items) for n, items in obs[2]))


def c_farg(a):
    if a is None:
        return "FNone"
    if isinstance(a, str):
        return "(FStr %s)" % ct(a)
    return "(FList %s)" % clist(ct(x) for x in a)


def c_opts(o):
    return "{|o_fields:=%s;o_exclude:=%s;o_term:=%s;o_verbose:=%s;o_spec:=%s|}" % (
        c_farg(o.get("fields")), c_farg(o.get("exclude")), copt(o.get("lineterminator"), ct),
        cbool(bool(o.get("verbose"))), copt(o.get("format_spec"), ct))


# ------------------------------------------------------------------------------------------------
# independent oracles for what the property states

def as_list(a):
    if a is None:
        return None
    return a.split(",") if isinstance(a, str) else list(a)


def selected_keys(keys, fields, exclude):
    """the selected field names: `fields` order (those the record has) minus exclude, else all minus exclude"""
    ex = as_list(exclude) or []
    fl = as_list(fields)
    if fl:
        out = []
        for k in fl:
            if k in keys and k not in ex and k not in out:
                out.append(k)
        return out
    return [k for k in keys if k not in ex]


def expected_csv_rows(obss, o):
    """per maximal run of records with equal descriptors: the header row of the selected names, then one row per
    record with the text of each selected value under its header cell"""
    rows, prev, header = [], None, None
    for obs in obss:
        items = {it[0]: it for it in flat_items(obs)}
        sel = selected_keys(list(items), o.get("fields"), o.get("exclude"))
        dk = desc_key(obs)
        if prev is None or dk != prev:
            header = list(sel)
            rows.append(header)
        prev = dk
        order = header if sorted(header) == sorted(sel) else sel
        rows.append(["" if items[k][2] is None else items[k][2] for k in order])
    return rows


def canon(s):
    """what a reader of the written BYTES sees: adjacent escaped bytes that happen to form valid UTF-8 decode to the
    character (inherent to surrogateescape; the bytes themselves are preserved)"""
    try:
        return s.encode("utf-8", "surrogateescape").decode("utf-8", "surrogateescape")
    except UnicodeEncodeError:
        return s


def resolve_escapes(s):
    for a, b in ((r"\r", "\r"), (r"\n", "\n"), (r"\t", "\t")):
        s = s.replace(a, b)
    return s


def has_escaped_byte(s):
    return any(0xDC80 <= ord(c) <= 0xDCFF for c in s)


def has_lone_surrogate(s):
    return any(0xD800 <= ord(c) <= 0xDFFF and not (0xDC80 <= ord(c) <= 0xDCFF) for c in s)


class _MissingStays(dict):
    """the flat view a template is applied to: a name the record lacks stays `{name}`"""

    def __missing__(self, key):
        return "{" + key + "}"


def expected_template(tpl, items):
    """`tpl` applied to the record's fields by Python's own str.format_map (every replacement-field form: attribute and
    index access, conversions, specs, fields nested in a spec, literal braces); returns (text | None, (kind, message))"""
    view = _MissingStays({it[0]: it[4] for it in items})
    try:
        return tpl.format_map(view), None
    except Exception as e:  # the template is not applicable to this record
        msg = "%s: %s" % (type(e).__name__, e)
        return None, ("none-spec" if isinstance(e, TypeError) and "NoneType.__format__" in str(e) else "template", msg)


def in_model_grammar(tpl):
    """is the template inside the grammar model/Csv.v parses (plain names, !r/!s/!a, specs without nested fields)?"""
    import string as S
    try:
        parsed = list(S.Formatter().parse(tpl))
    except ValueError:
        return False
    for lit, field, spec, conv in parsed:
        if field is None:
            continue
        if field == "" or field.isdigit() or any(c in field for c in ".[{}!:") or conv not in (None, "r", "s", "a") \
                or any(c in (spec or "") for c in "{}"):
            return False
    return True


# ------------------------------------------------------------------------------------------------
# running the implementation

class Twin:
    """marker inside a write script: between two writes another RecordDescriptor object EQUAL to `desc` is created
    (as a second reader of the same record type does); record classes are cached per (name, fields), so from then on
    the records' `_desc` is that new object -- equal by value, different by identity"""

    def __init__(self, desc):
        self.desc = desc

    def fire(self):
        from flow.record import RecordDescriptor
        RecordDescriptor(self.desc.name, [(t, n) for t, n in self.desc.get_field_tuples()])

    def __repr__(self):
        return "<new equal descriptor object for %s>" % self.desc.name


def uri_for(scheme, path, o, via_kwargs):
    """(uri, kwargs) -- options travel through the URI query unless via_kwargs"""
    q, kw = [], {}
    for k in ("fields", "exclude", "lineterminator", "verbose", "format_spec"):
        if k not in o or o[k] is None:
            continue
        v = o[k]
        if k == "verbose":
            if v:
                q.append("verbose=1")
            continue
        if via_kwargs or not isinstance(v, str) or v == "":
            kw[k] = v
        else:
            q.append("%s=%s" % (k, urllib.parse.quote(v, safe="")))
    uri = "%s://%s" % (scheme, path) + ("?" + "&".join(q) if q else "")
    return uri, kw


def run_writer(scheme, path, recs, o, via_kwargs=False):
    """-> (bytes | None, exception text | None, exception type name | None)"""
    from flow.record import RecordWriter
    uri, kw = uri_for(scheme, path, o, via_kwargs)
    if os.path.exists(path):
        os.unlink(path)
    w = None
    try:
        w = RecordWriter(uri, **kw)
        for r in recs:
            if isinstance(r, Twin):
                r.fire()
                continue
            w.write(r)
        w.flush()
        w.close()
        w = None
    except Exception as e:  # noqa
        try:
            if w is not None and getattr(w, "fp", None) is not None:
                fp = w.fp
                w.fp = None
                try:
                    fp.close()
                except Exception:
                    pass
        except Exception:
            pass
        return None, "%s: %s" % (type(e).__name__, e), type(e).__name__
    with open(path, "rb") as f:
        return f.read(), None, None


def py_csv_rows(data: bytes):
    text = data.decode("utf-8", "surrogateescape")
    return [list(r) for r in csv.reader(io.StringIO(text, newline=""))]


# ------------------------------------------------------------------------------------------------
# known findings

def find_known(kf, cls):
    for f in kf:
        if all(cls.get(k) == v for k, v in f.get("match", {}).items()):
            return f
    return None


class Report:
    """collects violations / known-finding hits of one run; first violation wins"""

    def __init__(self, ctx, kf, reason=None):
        self.ctx, self.kf, self.reason = ctx, kf, reason
        self.reported = False

    def fail(self, cls, what, replay):
        f = find_known(self.kf, cls)
        if f:
            self.ctx.known_finding(f["id"], f["what"])
            return
        if not self.reported:
            self.reported = True
            if self.reason:
                what = self.reason + "; failing input: " + what
            self.ctx.violation(what, dict(cls=cls, **replay))


# ------------------------------------------------------------------------------------------------
# case generation: sequences of records x options

SIMPLE_TYPE_NAMES = ("string", "wstring", "varint", "uint16", "uint32", "float", "boolean", "bytes", "datetime", "path", "uri",
                     "digest", "filesize", "dynamic", "command")


def colliding_descriptor(rnd, D):
    """Another record type with D's name whose IDENTIFIER (name + 32-bit hash of the concatenated field names and
    types) equals D's although its fields differ: (t1 n1)(t2 n2)... -> (t2 n1+t1+n2)...  None when D has no such twin."""
    from flow.record import RecordDescriptor
    ft = list(D.get_field_tuples())
    if len(ft) < 2 or ft[0][0] not in SIMPLE_TYPE_NAMES:
        return None
    (t1, n1), (t2, n2) = ft[0], ft[1]
    try:
        C = RecordDescriptor(D.name, [(t2, n1 + t1 + n2)] + ft[2:])
    except Exception:
        return None
    return C if C.identifier == D.identifier and C.get_field_tuples() != D.get_field_tuples() else None


def gen_sequence(rnd, idx, hostile=True):
    """write script: runs of equal descriptors, value-equal twin descriptor objects, type changes, record types whose
    identifiers collide, grouped records (also a group nested in a group)"""
    from flow.record.base import GroupedRecord
    nd = rnd.choice([1, 2, 2, 3])
    descs = [gen_descriptor(rnd, idx * 10 + i) for i in range(nd)]
    if rnd.random() < 0.3:
        for D in list(descs):
            C = colliding_descriptor(rnd, D)
            if C is not None:
                descs.append(C)
                break
    recs = []
    n = rnd.randint(1, 6)
    cur = rnd.choice(descs)
    for _ in range(n):
        k = rnd.random()
        if k < 0.45:
            pass                       # same descriptor again
        elif k < 0.6:
            recs.append(Twin(cur))     # equal by value, different object: the header must NOT be repeated
        else:
            cur = rnd.choice(descs)
        if rnd.random() < 0.12 and len(descs) >= 2:
            a, b = rnd.sample(descs, 2)
            ra, rb = make_record(rnd, a, hostile), make_record(rnd, b, hostile)
            if rnd.random() < 0.5:
                ra = GroupedRecord(rnd.choice(["inner", "in/ner"]), [ra])      # a group nested in a group
            elif rnd.random() < 0.3:
                rb = GroupedRecord("inner2", [rb, make_record(rnd, a, hostile)])
            recs.append(GroupedRecord(rnd.choice(["grp/x", "g"]), [ra, rb]))
        else:
            recs.append(make_record(rnd, cur, hostile))
    return recs


def gen_select_opts(rnd, recs):
    from flow.record.base import GroupedRecord
    keys = []
    for r in recs:
        members = r.records if isinstance(r, GroupedRecord) else [r]
        for m in members:
            for k in type(m).__slots__:
                if k not in keys:
                    keys.append(k)
    o = {}
    k = rnd.random()
    if k < 0.35:
        pool = keys + ["nosuch"]
        fl = [rnd.choice(pool) for _ in range(rnd.randint(1, 4))]
        if rnd.random() < 0.2:
            fl.append(fl[0])            # duplicate
        o["fields"] = ",".join(fl) if rnd.random() < 0.7 else fl
    k = rnd.random()
    if k < 0.3:
        o["exclude"] = ",".join(RESERVED) if rnd.random() < 0.5 else ",".join(rnd.sample(keys, min(len(keys), rnd.randint(1, 2))))
    elif k < 0.4:
        o["exclude"] = rnd.sample(keys, min(len(keys), rnd.randint(1, 3)))
    return o


TERMS = [None, None, "\\r\\n", "\\n", "\r\n", "\n"]

SPEC_BY_TYPE = {
    "string": [">12", "<6", "^9", "defang", "", ".3"], "wstring": [">7"], "uri": [">5", "defang"],
    "varint": [">8", "05d", "x", ","], "uint16": ["04x"], "uint32": [">12"], "float": [".2f", ">10"],
    "bytes": ["hex", "X", "#x"], "net.ipaddress": ["defang", ">20"], "filesize": [">9"],
}


def gen_template(rnd, recs):
    """a template: mostly inside the modelled grammar (plain names, !r !s !a, :spec without nesting), and with the other
    replacement-field forms of str.format mixed in"""
    fields = []
    for r in recs:
        allf = r._desc.get_all_fields()
        for k in allf:
            fields.append((k, allf[k].typename))
    parts = []
    for _ in range(rnd.randint(1, 5)):
        k = rnd.random()
        if k < 0.3:
            parts.append(rnd.choice(["", " ", ",", "x=", "{{", "}}", "{{lit}}", "\\t", "\\n", "\\r", "|", "\u00e9", "\U0001f600", ":", "!"]))
        elif k < 0.75 and fields:
            textual = [f for f in fields if f[1] in TEXT_TYPES]
            name, tname = rnd.choice(textual if textual and rnd.random() < 0.5 else fields)
            j = rnd.random()
            if j < 0.5:
                parts.append("{%s}" % name)
            elif j < 0.65:
                parts.append("{%s!%s}" % (name, rnd.choice("rsa")))
            else:
                specs = SPEC_BY_TYPE.get(tname)
                if specs:
                    parts.append("{%s:%s}" % (name, rnd.choice(specs)))
                else:
                    parts.append("{%s!r:>20}" % name)
        else:
            name = rnd.choice(["zz", "nosuch", "a b", "x-y", "9a", "_nope", "\u00e9"])
            parts.append(rnd.choice(["{%s}", "{%s}", "{%s!r}", "{%s:>8}", "{%s!s:^9}"]) % name)
    if fields and rnd.random() < 0.45:
        # forms outside the modelled grammar (checked against str.format_map itself): attribute / index access, a field
        # nested in a spec, a field used only inside a spec, positional fields
        by = {}
        for k, t in fields:
            by.setdefault(t, []).append(k)
        forms = []
        for t, attr in (("path", "name"), ("path", "parent"), ("uri", "scheme"), ("datetime", "year"), ("string", "real"),
                        ("net.ipaddress", "val"), ("digest", "md5"), ("command", "executable")):
            for k in by.get(t, []):
                forms.append("{%s.%s}" % (k, attr))
        for t in ("string[]", "varint[]", "stringlist", "path[]", "bytes[]", "uri[]"):
            for k in by.get(t, []):
                forms += ["{%s[0]}" % k, "{%s[0]!r:>12}" % k]
        for k in by.get("dictlist", []):
            forms.append("{%s[0][k]}" % k)
        ints = by.get("uint16", []) + by.get("varint", [])
        names = [k for k, _ in fields]
        for w in ints[:2]:
            forms += ["{%s:>{%s}}" % (rnd.choice(names), w), "{%s!s:{%s}}" % (rnd.choice(names), w)]
        forms += ["{%s:>{nosuch}}" % rnd.choice(names), "{_version:>{_version}}", "{nosuch.attr}", "{%s[zz]}" % rnd.choice(names),
                  "{}", "{0}", "{%s}{%s}" % (names[0], names[0])]
        parts.insert(rnd.randint(0, len(parts)), rnd.choice(forms))
    return "".join(parts)


# ------------------------------------------------------------------------------------------------
# one sequence through the three writers: implementation + python oracles + Coq terms

def fmt_table_for(tpl, rec, items5):
    """entries (name, conv, spec) -> text | None(raises) for every replacement field of the template"""
    import string as S
    d = {it[0]: it for it in items5}
    tbl = []
    for lit, field, spec, conv in S.Formatter().parse(tpl):
        if field is None:
            continue
        v = d[field][4] if field in d else "{" + field + "}"
        try:
            if conv == "r":
                v = repr(v)
            elif conv == "s":
                v = str(v)
            elif conv == "a":
                v = ascii(v)
            res = format(v, spec or "")
        except Exception:
            res = None
        tbl.append((field, conv, spec or "", res))
    return tbl


def c_fmt_tbl(tbl):
    return clist("(%s,%s,%s,%s)" % (ct(n), copt(cv, lambda c: str(ord(c))), ct(sp), copt(res, ct)) for n, cv, sp, res in tbl)


def items_with_values(rec):
    """flat (key, type, str, repr, value) as rec._asdict() should see them (first member prevails)"""
    from flow.record.base import GroupedRecord
    members = rec.records if isinstance(rec, GroupedRecord) else [rec]
    seen, out = set(), []
    for m in members:
        allf = m._desc.get_all_fields()
        for k in type(m).__slots__:
            if k in seen:
                continue
            seen.add(k)
            v = getattr(m, k)
            out.append((k, allf[k].typename, None if v is None else str(v), repr(v), v))
    return out


class SeqCase:
    pass


def classify_texts(texts):
    if any(has_lone_surrogate(s) for s in texts):
        return "unencodable-surrogate"
    if any(has_escaped_byte(s) for s in texts):
        return "escaped-byte-surrogate"
    return None


def run_sequence(ctx, rep, rnd, idx, script, workdir, cfgname="gen_cfg", collect=None, origin="hostile", plan=None):
    """Runs every writer on the write script (records and Twin markers) with drawn options; python-level property
    checks report through `rep`; returns the Gallina boolean terms (sub-checks) of this sequence."""
    recs = [x for x in script if not isinstance(x, Twin)]
    try:
        obss = [observe(r) for r in recs]
    except TextFormError as e:
        # a field value whose own text form raises: every writer must fail on it -- report the class
        cls = dict(cls="value-text-form-raises", type=e.tname)
        data, err, _ = run_writer("line", os.path.join(workdir, "tf.line"), recs, {})
        if err is None:
            return []       # the writer coped; nothing to compare against
        rep.fail(cls, "writers fail on a valid record: field %s of type %s holding %s cannot be printed (%s); "
                      "LineWriter raised %s" % (e.key, e.tname, e.value_desc, e.exc, err),
                 dict(kind="text-form", seq=idx, origin=origin, type=e.tname, value=e.value_desc, error=err))
        ctx.count_case(("textform", e.tname, e.value_desc))
        return []
    # GroupedRecord keeps its own attributes (name, records, ...) in the instance dict: a member field of that
    # name is shadowed in _asdict() -- every writer then renders the group's attribute instead of the field
    from flow.record.base import GroupedRecord
    for r, obs in zip(recs, obss):
        if isinstance(r, GroupedRecord):
            d = {it[0]: it for it in flat_items(obs)}
            got = r._asdict()
            def _txt(v):
                try:
                    return None if v is None else str(v)
                except Exception as e:  # noqa
                    return "<%s>" % type(e).__name__
            bad = [k for k in d if _txt(got.get(k)) != d[k][2]] + [k for k in got if k not in d]
            if bad:
                rep.fail(dict(cls="grouped-attr-shadow"),
                         "GroupedRecord._asdict() returns %r for the member field %r = %r (a group's own attribute shadows the field)" % (
                             got.get(bad[0]), bad[0], (d.get(bad[0]) or [None] * 3)[2]), dict(kind="grouped-shadow", seq=idx, origin=origin, field=bad[0], records=[repr(x) for x in obss]))
                ctx.count_case(("grouped-shadow", bad[0], repr(obs)))
                return []
    recs_term = clist(c_rec(o) for o in obss)
    script_repr = [repr(x) if isinstance(x, Twin) else repr(observe(x)) for x in script]
    sel = gen_select_opts(rnd, recs)
    terms = []
    all_flat = [flat_items(o) for o in obss]

    def sel_texts(o, with_keys=True):
        out = []
        for fl in all_flat:
            d = {it[0]: it for it in fl}
            for k in selected_keys(list(d), o.get("fields"), o.get("exclude")):
                out.append(d[k][2] if d[k][2] is not None else "")
        return out

    # ---------------- csv
    for variant in range(2):
        o = dict(sel) if variant == 0 else {}
        o["lineterminator"] = rnd.choice(TERMS)
        if plan:
            o = dict(plan["csv"][variant])
            o.setdefault("lineterminator", None)
        term = resolve_escapes(o["lineterminator"] or "\r\n")
        path = os.path.join(workdir, "s%d_%d.csv" % (idx, variant))
        data, err, ename = run_writer("csvfile", path, script, o, via_kwargs=rnd.random() < 0.3)
        texts = sel_texts(o)
        meta = dict(kind="csv", seq=idx, origin=origin, opts=o, records=script_repr)
        pyrows = None
        if data is None:
            tcls = classify_texts(texts)
            cls = dict(writer="csv", cls=tcls or "raises")
            rep.fail(cls, "CsvfileWriter raised %s on a valid record" % err, dict(error=err, **meta))
        else:
            want = [[canon(c) for c in r] for r in expected_csv_rows(obss, o)]
            try:
                pyrows = py_csv_rows(data)
            except Exception as e:  # noqa
                pyrows = None
                rep.fail(dict(writer="csv", cls="unparseable"), "csv.reader cannot parse the CsvfileWriter output: %s" % e,
                         dict(error=str(e), output=data.hex(), **meta))
            if pyrows is not None and pyrows != want:
                unprotected = [c for c in ("\r", "\n") if c not in term and any(c in s for s in texts)]
                cls = dict(writer="csv", cls="linebreak-not-in-terminator" if unprotected else "rows-differ", terminator=term)
                k = next((i for i in range(min(len(want), len(pyrows))) if want[i] != pyrows[i]), min(len(want), len(pyrows)))
                rep.fail(cls, "CSV written by CsvfileWriter (options %r) does not parse back to the header/value rows: "
                              "row %d is %r, expected %r" % (o, k, pyrows[k] if k < len(pyrows) else None, want[k] if k < len(want) else None),
                         dict(output=data.hex(), got=pyrows, want=want, **meta))
        terms.append(("csv", meta, "chk_csv %s %s rs %s %s" % (cfgname, c_opts(o), cbytes(data), copt(pyrows, crows))))
        ctx.count_case(("csv", idx, variant, repr(o), [repr(x) for x in obss]))
        if collect is not None and data is not None and variant == 1:
            collect.append((recs, obss, o, data))

    # ---------------- line
    for variant in range(2):
        o = dict(sel) if variant == 0 else {}
        o["verbose"] = rnd.random() < 0.5
        if plan:
            o = dict(plan["line"][variant])
        path = os.path.join(workdir, "s%d_%d.line" % (idx, variant))
        data, err, ename = run_writer("line", path, script, o, via_kwargs=rnd.random() < 0.3)
        texts = sel_texts(o)
        meta = dict(kind="line", seq=idx, origin=origin, opts=o, records=script_repr)
        if data is None:
            tcls = classify_texts(texts)
            tcls = None if tcls == "escaped-byte-surrogate" else tcls
            rep.fail(dict(writer="line", cls=tcls or "raises"), "LineWriter raised %s on a valid record" % err, dict(error=err, **meta))
        else:
            line_oracle(rep, obss, all_flat, o, data, meta)
        terms.append(("line", meta, "chk_line %s %s rs %s" % (cfgname, c_opts(o), cbytes(data))))
        ctx.count_case(("line", idx, variant, repr(o), [repr(x) for x in obss]))

    # ---------------- text
    for variant in range(2):
        o = {}
        if variant == 1:
            o["format_spec"] = gen_template(rnd, recs)
        elif rnd.random() < 0.15:
            o["format_spec"] = ""
        if plan:
            o = dict(plan["text"][variant])
        path = os.path.join(workdir, "s%d_%d.txt" % (idx, variant))
        data, err, ename = run_writer("text", path, script, o, via_kwargs=rnd.random() < 0.3)
        meta = dict(kind="text", seq=idx, origin=origin, opts=o, records=script_repr)
        tpl = resolve_escapes(o["format_spec"]) if o.get("format_spec") else None
        ivs = [items_with_values(r) for r in recs]
        # what the property demands
        want, werr = [], None
        for r, iv in zip(recs, ivs):
            if tpl:
                s, e = expected_template(tpl, iv)
                if s is None:
                    werr = e
                    break
                want.append(s + "\n")
            else:
                want.append(repr(r) + "\n")
        if werr is None:
            wtxt = "".join(want)
            if has_lone_surrogate(wtxt):
                wbytes, wcls = None, "unencodable-surrogate"
            else:
                wbytes, wcls = wtxt.encode("utf-8", "surrogateescape"), None
        else:
            wbytes, wcls = None, werr[0]
        if data is None:
            if werr is not None and werr[0] == "template":
                pass            # the user's template itself is not applicable to these field types: not a record failure
            else:
                rep.fail(dict(writer="text", cls=wcls or "raises"), "TextWriter raised %s on a valid record (template %r)" % (err, tpl),
                         dict(error=err, **meta))
        elif wbytes is None or data != wbytes:
            rep.fail(dict(writer="text", cls="output-differs"),
                     "TextWriter output is not %s: got %r, expected %r" % ("the template applied to the fields" if tpl else "repr(record)",
                                                                            data[:200], (wbytes or b"")[:200]),
                     dict(output=data.hex(), want=None if wbytes is None else wbytes.hex(), **meta))
        if not tpl or in_model_grammar(tpl):
            pairs = clist("(%s,%s)" % (c_rec(ob), c_fmt_tbl(fmt_table_for(tpl, r, iv) if tpl else [])) for ob, r, iv in zip(obss, recs, ivs))
            terms.append(("text", meta, "chk_text %s %s %s %s" % (cfgname, c_opts(o), pairs, cbytes(data))))
        ctx.count_case(("text", idx, variant, repr(o), [repr(x) for x in obss]))
    return [(k, m, "(let rs := %s in %s)" % (recs_term, t) if " rs " in t else t) for k, m, t in terms]


def line_oracle(rep, obss, all_flat, o, data, meta):
    """one numbered block per record, one `name = value` line per selected field"""
    text = data.decode("utf-8", "surrogateescape")
    expected_lines = []
    for n, fl in enumerate(all_flat, 1):
        d = {it[0]: it for it in fl}
        expected_lines.append(("H", "--[ RECORD %d ]--" % n))
        for k in selected_keys(list(d), o.get("fields"), o.get("exclude")):
            key = "%s (%s)" % (k, d[k][1]) if o.get("verbose") else k
            expected_lines.append(("F", canon(key + " = " + ("None" if d[k][2] is None else d[k][2]))))
    has_lf = any("\n" in s for kind, s in expected_lines if kind == "F")
    lines = text.split("\n")
    ok = text.endswith("\n") and len(lines) - 1 == len(expected_lines)
    if ok:
        for (kind, want), got in zip(expected_lines, lines):
            if kind == "H":
                ok = ok and got == want
            else:
                ok = ok and got.lstrip(" ") == want and (got == want or got.startswith(" "))
    if not ok:
        cls = dict(writer="line", cls="value-contains-LF" if has_lf else "layout")
        rep.fail(cls, "LineWriter output (options %r) is not one numbered block per record with one 'name = value' line per "
                      "selected field: %d lines for %d records / %d fields" % (
                          o, len(lines) - 1, len(all_flat), len(expected_lines) - len(all_flat)),
                 dict(output=data.hex(), expected_lines=[s for _, s in expected_lines], **meta))


# ------------------------------------------------------------------------------------------------
# environment models validated directly: csv.writer / csv.reader / UTF-8 encoder

def env_cases(ctx, rnd, n):
    terms, metas = [], []
    alpha = [",", ";", "\t", "|", '"', "\r", "\n", "a", "b", " ", "\x00", "\u00e9", "\U0001f600", "'"]
    for i in range(n):
        d = rnd.choice([",", ",", ";", "\t", "|"])
        term = rnd.choice(["\r\n", "\n"])
        rows = []
        for _ in range(rnd.randint(0, 4)):
            k = rnd.random()
            if k < 0.1:
                rows.append([])
            elif k < 0.2:
                rows.append([""])
            else:
                rows.append(["".join(rnd.choice(alpha) for _ in range(rnd.choice([0, 1, 2, 3, 5]))) for _ in range(rnd.randint(1, 4))])
        s = io.StringIO(newline="")
        w = csv.writer(s, delimiter=d, lineterminator=term)
        for r in rows:
            w.writerow(r)
        out = s.getvalue()
        back = [list(r) for r in csv.reader(io.StringIO(out, newline=""), delimiter=d)]
        terms.append("(text_eqb (csv_write %d %s %s) %s && rows_eqb (csv_parse %d %s) %s)" % (
            ord(d), ct(term), crows(rows), ct(out), ord(d), ct(out), crows(back)))
        metas.append(dict(kind="env-csv-writer", delimiter=d, terminator=term, rows=rows, output=out, read_back=back))
        ctx.count_case(("envw", d, term, repr(rows)))
        # arbitrary text through the reader
        txt = "".join(rnd.choice(alpha) for _ in range(rnd.randint(0, 14)))
        back = [list(r) for r in csv.reader(io.StringIO(txt, newline=""), delimiter=d)]
        terms.append("rows_eqb (csv_parse %d %s) %s" % (ord(d), ct(txt), crows(back)))
        metas.append(dict(kind="env-csv-reader", delimiter=d, text=txt, rows=back))
        ctx.count_case(("envr", d, txt))
    # UTF-8 encoder with both error handlers
    cps = [0, 0x41, 0x7F, 0x80, 0x7FF, 0x800, 0xD7FF, 0xD800, 0xDC7F, 0xDC80, 0xDCFF, 0xDD00, 0xDFFF, 0xE000, 0xFFFF, 0x10000, 0x10FFFF]
    for se in (False, True):
        for _ in range(max(4, n // 8)):
            s = "".join(chr(rnd.choice(cps)) if rnd.random() < 0.7 else chr(rnd.randrange(0x110000)) for _ in range(rnd.randint(0, 6)))
            try:
                b = s.encode("utf-8", "surrogateescape" if se else "strict")
            except UnicodeEncodeError:
                b = None
            terms.append("opt_bytes_eqb (utf8 %s %s) %s" % (cbool(se), ct(s), cbytes(b)))
            metas.append(dict(kind="env-utf8", surrogateescape=se, text=[ord(c) for c in s], bytes=None if b is None else b.hex()))
            ctx.count_case(("utf8", se, s))
    return terms, metas


# ------------------------------------------------------------------------------------------------
# normalize_fieldname and CsvfileReader

def normalize_cases(ctx, rep, rnd, n):
    from flow.record.base import RE_VALID_FIELD_NAME, normalize_fieldname
    names = ["", "_", "_source", "_version", "_generated", "_classification", "a", "A9_", "9a", "my-variable", "my name (x)",
             "_x", "1337", "\u0663abc", "\uff11", "\u00e9", "x_", "x__a", "-", "(", " ", "a.b", "$x", "__", "a-b c(d)e", "\u00b2", "\u2460"]
    alpha = "ab_-() 19.\u0663\u00e9X"
    for _ in range(n):
        names.append("".join(rnd.choice(alpha) for _ in range(rnd.randint(0, 6))))
    terms, metas = [], []
    for nm in names:
        out = normalize_fieldname(nm)
        # what the property needs: a normalised name is stable, and simple names become valid field names
        again = normalize_fieldname(out)
        simple = all(c in _string.ascii_letters + _string.digits + "_-() " for c in nm)
        ok = again == out and (not simple or nm in RESERVED or bool(RE_VALID_FIELD_NAME.match(out)))
        if not ok:
            rep.fail(dict(writer="reader", cls="normalize"), "normalize_fieldname(%r) = %r is not stable / not a valid field name" % (nm, out),
                     dict(kind="normalize", name=nm, out=out))
        terms.append("text_eqb (normalize (g_reserved gen_cfg) gen_ncfg gen_isdecimal %s) %s" % (ct(nm), ct(out)))
        metas.append(dict(kind="normalize", name=nm, out=out))
        ctx.count_case(("normalize", nm))
    return terms, metas


READBACK_VALUES = ["plain", "a,b", "a;b", "a\tb", "a|b", "a:b", 'q"q', "x y", "", "a, b; c", "1,2,3,4", ";;;;", 'alice, "the" admin',
                   "l\nf", " lead", "trail ", "'q'", 'a "q" b', "\u00e9\U0001f600", "=1+1", "c\r\nd", "cr\rx"]
READBACK_OPTS = [{}, {"fields": "_source,s,u"}, {"fields": "_source,s"}, {"fields": "_generated,s,u"}, {"fields": "s,u"},
                 {"fields": "u,n,s"}, {"exclude": "_source,_classification,_generated,_version"}, {"exclude": "s,u,n"},
                 {"lineterminator": "\\n"}, {"fields": "s,u", "lineterminator": "\\n"},
                 # ONE column (nothing for a dialect guess to hold on to), also a reserved one
                 {"fields": "s"}, {"fields": "u"}, {"fields": "n"}, {"fields": "_source"}, {"fields": "s", "lineterminator": "\\n"}]


def readback_files(rnd, n, workdir):
    """outputs of CsvfileWriter whose cells hold every candidate delimiter (, ; TAB | :), both quote characters, spaces
    and line feeds, with a reserved field / a quoted cell as first or last column: the reader must read them back"""
    from flow.record import RecordDescriptor
    D = RecordDescriptor("rb/rec", [("string", "s"), ("string", "u"), ("varint", "n")])
    out = []
    fixed = [({"fields": "s,u"}, [("z", "a,b")]), ({"fields": "_source,s"}, [("plain", "x"), ("a,b", "y")]),
             ({}, [("plain", "'q'")]), ({"fields": "s,u", "lineterminator": "\\n"}, [("z", 'a "q" b')])]
    plans = list(fixed)
    for _ in range(n):
        o = rnd.choice(READBACK_OPTS)
        # a carriage return under the LF terminator is the known finding C20-csv-cr-unquoted-with-lf-terminator: not here
        vals = [v for v in READBACK_VALUES if not ("\r" in v and o.get("lineterminator"))]
        plans.append((o, [(rnd.choice(vals), rnd.choice(vals)) for _ in range(rnd.randint(1, 4))]))
    for k, (o, rows) in enumerate(plans):
        src = rnd.choice(["src", "a,b", None]) if k >= len(fixed) else "src"
        recs = [D(s=a, u=b, n=i, _source=src, _generated=TS) for i, (a, b) in enumerate(rows)]
        data, err, _ = run_writer("csvfile", os.path.join(workdir, "rb%d.csv" % k), recs, o)
        if data is not None:
            out.append(data)
    # one-column files: one row / several rows, values with and without the letters of the header (a dialect guess picks
    # a letter that every line holds equally often, or gives up)
    H = RecordDescriptor("rb/host", [("string", "hostname"), ("string", "s")])
    for k, vals in enumerate([["srv01"], ["hostname"], ["web name", "host name"], ["xyz", "qqq", "kkk"], ["a,b"], ["one", "tone", "stone"],
                              ["", "x"], ["me", "men", "mend"], [rnd.choice(READBACK_VALUES[:13]) for _ in range(rnd.randint(1, 5))]]):
        recs = [H(hostname=v, s="other", _generated=TS) for v in vals]
        for o in ({"fields": "hostname"}, {"fields": "hostname", "lineterminator": "\\n"}):
            data, err, _ = run_writer("csvfile", os.path.join(workdir, "rb1c%d.csv" % k), recs, o)
            if data is not None:
                out.append(data)
    return out


def read_cases(ctx, rep, rnd, n, workdir, written):
    """CSV files read back as records with the same text values: hand-made files over 4 delimiters with safe cells, and
    `written` = outputs of CsvfileWriter itself (safe content, and the hostile read-back battery of readback_files)."""
    from flow.record import RecordReader
    from flow.record.base import normalize_fieldname
    terms, metas = [], []
    files = []
    for i in range(n):
        d = rnd.choice([",", ";", "\t", "|"])
        ncol = rnd.randint(2, 5)
        hdr = rnd.sample(["a", "b", "name", "value", "my-col", "col (x)", "9lives", "Zz", "k1", "_hidden", "_source", "x y"], ncol)
        nrows = rnd.randint(2, 6)
        rows = [[safe_word(rnd) for _ in range(ncol)] for _ in range(nrows)]
        if rnd.random() < 0.3:
            j = rnd.randrange(ncol)
            rows[rnd.randrange(nrows)][j] = safe_word(rnd) + d + safe_word(rnd)     # quoted cell holding the delimiter
        term = rnd.choice(["\r\n", "\n"])
        s = io.StringIO(newline="")
        w = csv.writer(s, delimiter=d, lineterminator=term)
        use_fields = rnd.random() < 0.25
        if not use_fields:
            w.writerow(hdr)
        for r in rows:
            w.writerow(r)
        files.append((s.getvalue(), d, ",".join(hdr) if use_fields else None, "hand"))
    for text in ("hostname\r\n", "hostname\r\nsrv01\r\n", "name\nalice\nbob\n", "my-col\r\nx y\r\nz\r\n", "k1\r\n1\r\n22\r\n333\r\n"):
        files.append((text, ",", None, "hand"))           # one column, also without any data row
    for data in written:
        files.append((data.decode("utf-8"), ",", None, "writer"))
    sniffed_ok = 0
    ambiguous = 0
    for i, (text, d, fields, origin) in enumerate(files):
        path = os.path.join(workdir, "r%d.csv" % i)
        with open(path, "w", newline="", encoding="utf-8") as f:
            f.write(text)
        got, err = None, None
        try:
            kw = {"fields": fields} if fields is not None else {}
            with RecordReader("csvfile://" + path, **kw) as rd:
                recs = list(rd)
            names = list(rd.desc.fields)
            got = [[(k, getattr(r, k)) for k in r._desc.fields] for r in recs]
        except Exception as e:  # noqa
            err = "%s: %s" % (type(e).__name__, e)
        # python oracle: the file read in the dialect it was WRITTEN in (delimiter d, '"' quoting with doubled quotes):
        # the cells of every data row under the normalised header names that do not start with "_"
        allrows = [list(r) for r in csv.reader(io.StringIO(text, newline=""), delimiter=d)]
        hdr = fields.split(",") if fields is not None else allrows[0]
        body = allrows if fields is not None else allrows[1:]
        keep = [j for j, h in enumerate(hdr) if not normalize_fieldname(h).startswith("_")]
        cells_want = [[r[j] if j < len(r) else None for j in keep] for r in body]
        cells_got = None if got is None else [[v for _, v in row] for row in got]
        meta = dict(kind="read", origin=origin, delimiter=d, fields=fields, text=text, want=cells_want)
        ok = err is None and cells_got == cells_want
        ctx.count_case(("read", origin, d, text), nontrivial=True)
        if not ok:
            # A file CsvfileWriter wrote, or any comma-separated file whose first row consists of field names, MUST read
            # back.  Only for hand-made files in another dialect is the stdlib sniffer the oracle: when its guess for the
            # sample the reader hands it differs from the file's dialect the content counts as ambiguous.
            try:
                dia = csv.Sniffer().sniff(text[:1024].replace("\r\n", "\n"))
                sniffed = (dia.delimiter, dia.quotechar, bool(dia.doublequote), bool(dia.skipinitialspace))
            except csv.Error as e:
                sniffed = "csv.Error: %s" % e
            if origin == "hand" and d != "," and sniffed != (d, '"', True, False):
                ambiguous += 1
                continue
            what = "CsvfileReader %s on a CSV file %s (delimiter %r): %r, expected the text values %r" % (
                "raised " + err if err else "returns other values", "written by CsvfileWriter" if origin == "writer" else "with unambiguous content",
                d, None if cells_got is None else cells_got[:3], cells_want[:3])
            rep.fail(dict(writer="reader", cls="raises" if err else "values-differ"), what,
                     dict(error=err, got=cells_got, sniffed=repr(sniffed), **meta))
            continue
        sniffed_ok += 1
        impl = "(Some (%s, %s))" % (clist(ct(k) for k in names),
                                    clist(clist("(%s,%s)" % (ct(k), copt(v, ct)) for k, v in row) for row in got))
        terms.append("chk_read (g_reserved gen_cfg) gen_ncfg gen_isdecimal %d %s %s %s" % (ord(d), copt(fields, ct), ct(text), impl))
        metas.append(meta)
    return terms, metas, sniffed_ok, len(files)


# ------------------------------------------------------------------------------------------------
# witnesses of the known findings (replayed on the implementation on every run)

def witness_records():
    from flow.record import RecordDescriptor
    D = RecordDescriptor("w/rec", [("string", "s"), ("varint", "n")])
    F = RecordDescriptor("w/fs", [("filesize", "size")])
    return D, F


def replay_witnesses(ctx, kf, workdir):
    D, F = witness_records()
    seen = {}

    def hit(fid, reproduces, detail):
        f = next((x for x in kf if x["id"] == fid), None)
        if f is None:
            return
        seen[fid] = reproduces
        if reproduces:
            ctx.known_finding(fid, f["what"])
        else:
            ctx.notes.append("known finding %s no longer reproduces (%s)" % (fid, detail))

    p = lambda n: os.path.join(workdir, n)  # noqa: E731
    # 2 line writer raw line break
    data, err, en = run_writer("line", p("w2.line"), [D(s="a\nb", n=1, _generated=TS)], {"fields": "s"})
    hit("C20-line-raw-linebreak", data is not None and data.count(b"\n") == 3, "line writer output %r" % (data,))
    # 3 csv with LF terminator leaves CR unquoted
    data, err, en = run_writer("csvfile", p("w3.csv"), [D(s="a\rb", n=1, _generated=TS)], {"fields": "s", "lineterminator": "\\n"})
    hit("C20-csv-cr-unquoted-with-lf-terminator", data is not None and py_csv_rows(data) == [["s"], ["a"], ["b"]], "csv output %r" % (data,))
    # 4 format spec on an unset field
    data, err, en = run_writer("text", p("w4.txt"), [D(s="x", _generated=TS)], {"format_spec": "{s} {n:>5}"})
    hit("C20-text-spec-on-none", en == "TypeError", "text writer output %r" % (data,))
    # 5 a surrogate no handler can encode
    outs = [run_writer(sch, p("w5." + sch), [D(s="\ud800", n=1, _generated=TS)], {"format_spec": "{s}"} if sch == "text" else {})[2]
            for sch in ("csvfile", "line", "text")]
    hit("C20-unencodable-surrogate", outs == ["UnicodeEncodeError"] * 3, "exceptions %r" % (outs,))
    return seen


def regression_checks(rep, workdir, only=None):
    """the three defects repaired in /repo (known_findings.d/C20.json `fixed`): their failing inputs must stay repaired"""
    from flow.record import RecordDescriptor
    from flow.record.base import GroupedRecord
    D, F = witness_records()
    p = lambda n: os.path.join(workdir, n)  # noqa: E731
    if only in (None, "csv-escaped-byte"):
        data, err, en = run_writer("csvfile", p("g1.csv"), [D(s="a\udcff", n=1, _generated=TS)], {"fields": "s"})
        if data != b"s\r\na\xff\r\n":
            rep.fail(dict(writer="csv", cls="escaped-byte-surrogate"),
                     "CsvfileWriter on the valid record <w/rec s='a\\udcff'> (a surrogate-escaped byte): %s, expected the bytes "
                     "b's\\r\\na\\xff\\r\\n'" % (err or "wrote %r" % (data,)),
                     dict(kind="regression", which="csv-escaped-byte", error=err, output=None if data is None else data.hex()))
    if only in (None, "filesize-huge"):
        # every filesize value of the systematic table (unit boundaries, every magnitude of the logarithm) must render, be
        # written by all three writers and come back from the CSV unchanged
        FS = RecordDescriptor("w/fsl", [("filesize", "size"), ("filesize[]", "sizes")])
        bad = None
        for v in FILESIZE_VALUES:
            try:
                r = FS(size=v, sizes=[v, 0], _generated=TS)
                texts = (str(r.size), repr(r.size), str(r.sizes))
                if not texts[0] or texts[0] != repr(r.size) or "\n" in texts[0]:
                    bad = (v, "str/repr %r" % (texts,))
            except Exception as e:  # noqa
                bad = (v, "%s: %s" % (type(e).__name__, e))
            if bad:
                break
        if bad is None:
            recs = [FS(size=v, sizes=[v, 1], _generated=TS) for v in FILESIZE_VALUES]
            for sch in ("csvfile", "line", "text"):
                data, err, en = run_writer(sch, p("g2." + sch), recs, {"fields": "size,sizes"} if sch != "text" else {})
                if data is None:
                    # find the record the writer fails on
                    for r in recs:
                        d1, e1, _ = run_writer(sch, p("g2one." + sch), [r], {})
                        if d1 is None:
                            bad = (int(r.size), "%s writer: %s" % (sch, e1))
                            break
                    bad = bad or (None, "%s writer: %s" % (sch, err))
                    break
                if sch == "csvfile":
                    rows = py_csv_rows(data)
                    want = [["size", "sizes"]] + [[str(r.size), str(r.sizes)] for r in recs]
                    if rows != want:
                        k = next(i for i in range(len(want)) if i >= len(rows) or rows[i] != want[i])
                        bad = (FILESIZE_VALUES[max(0, k - 1)], "CSV row %d reads back as %r, expected %r" % (k, rows[k] if k < len(rows) else None, want[k]))
                        break
        if bad is not None:
            rep.fail(dict(cls="value-text-form-raises", type="filesize"),
                     "the text writers fail on the valid record <w/fsl size=filesize(%r) sizes=[filesize(%r), ...]>: %s" % (bad[0], bad[0], bad[1]),
                     dict(kind="regression", which="filesize-huge", value=repr(bad[0]), error=bad[1]))
    if only in (None, "grouped-name"):
        N = RecordDescriptor("w/named", [("string", "name")])
        g = GroupedRecord("grp", [N(name="field-value", _generated=TS)])
        data, err, en = run_writer("csvfile", p("g3.csv"), [g], {"fields": "name"})
        rows = py_csv_rows(data) if data is not None else None
        if rows != [["name"], ["field-value"]]:
            rep.fail(dict(cls="grouped-attr-shadow"),
                     "CsvfileWriter on GroupedRecord('grp', [<w/named name='field-value'>]) with fields=name: %s, expected rows "
                     "[['name'], ['field-value']]" % (err or "rows %r" % (rows,)),
                     dict(kind="regression", which="grouped-name", error=err, got=rows))
    if only in (None, "reader-dialect"):
        from flow.record import RecordReader
        U = RecordDescriptor("w/two", [("string", "s"), ("string", "u")])
        for o, rows in (({"fields": "s,u"}, [("z", "a,b")]), ({"fields": "_source,s,u"}, [("plain", "x"), ("a,b", "'q'")]),
                        ({}, [(" lead", 'q"q')])):
            recs = [U(s=a, u=b, _source="src", _generated=TS) for a, b in rows]
            data, err, en = run_writer("csvfile", p("g5.csv"), recs, o)
            try:
                with RecordReader("csvfile://" + p("g5.csv")) as rd:
                    back = [[getattr(r, k) for k in r._desc.fields] for r in rd]
            except Exception as e:  # noqa
                back = "%s: %s" % (type(e).__name__, e)
            if data is None or back != [list(x) for x in rows]:
                rep.fail(dict(writer="reader", cls="values-differ"),
                         "CsvfileReader on the file CsvfileWriter(%r) wrote for <w/two s,u> = %r (bytes %r): %r, expected the text values back" % (
                             o, rows, data, back), dict(kind="regression", which="reader-dialect", opts=o, rows=rows, got=repr(back)))
                break
        else:
            Hh = RecordDescriptor("w/host", [("string", "hostname"), ("string", "s")])
            for vals in (["srv01"], ["hostname", "web name"], ["me", "men"]):
                recs = [Hh(hostname=v, s="other", _generated=TS) for v in vals]
                data, err, en = run_writer("csvfile", p("g6.csv"), recs, {"fields": "hostname"})
                try:
                    with RecordReader("csvfile://" + p("g6.csv")) as rd:
                        back = ([k for k in rd.desc.fields], [[getattr(r, k) for k in r._desc.fields] for r in rd])
                except Exception as e:  # noqa
                    back = "%s: %s" % (type(e).__name__, e)
                if data is None or back != (["hostname"], [[v] for v in vals]):
                    rep.fail(dict(writer="reader", cls="values-differ"),
                             "CsvfileReader on the ONE-column file CsvfileWriter(fields='hostname') wrote for hostname = %r (bytes %r): %r, "
                             "expected field ['hostname'] with those values" % (vals, data, back),
                             dict(kind="regression", which="reader-dialect", opts={"fields": "hostname"}, rows=vals, got=repr(back),
                                  file=None if data is None else data.decode("utf-8", "replace")))
                    break
    if only in (None, "nested-group-name"):
        N = RecordDescriptor("w/named4", [("string", "name"), ("varint", "records"), ("string", "descriptors"), ("string", "flat_fields")])
        O = RecordDescriptor("w/other", [("string", "x")])
        inner = GroupedRecord("inner", [N(name="field-value", records=7, descriptors="d", flat_fields="f", _generated=TS)])
        g = GroupedRecord("outer", [inner, O(x="y", _generated=TS)])
        want = [["name", "records", "descriptors", "flat_fields", "x"], ["field-value", "7", "d", "f", "y"]]
        for sch in ("csvfile", "line", "text"):
            o = {"fields": "name,records,descriptors,flat_fields,x"}
            if sch == "text":
                o = {"format_spec": "{name},{records},{descriptors},{flat_fields},{x}"}
            data, err, en = run_writer(sch, p("g4." + sch), [g], o)
            if sch == "csvfile":
                ok = data is not None and py_csv_rows(data) == want
            elif sch == "line":
                ok = data is not None and [ln.split(" = ", 1)[-1] for ln in data.decode().split("\n")[1:-1]] == want[1]
            else:
                ok = data == (",".join(want[1]) + "\n").encode()
            if not ok:
                rep.fail(dict(cls="grouped-attr-shadow"),
                         "%s writer on GroupedRecord('outer', [GroupedRecord('inner', [<w/named4 name='field-value' records=7 "
                         "descriptors='d' flat_fields='f'>]), <w/other x='y'>]): %s, expected the member fields' values %r" % (
                             sch, err or "wrote %r" % (data,), want[1]),
                         dict(kind="regression", which="nested-group-name", writer=sch, error=err,
                              output=None if data is None else data.hex()))
                break



# ------------------------------------------------------------------------------------------------
# fresh-interpreter smoke scenario: the same program runs in a child interpreter that has imported NOTHING but
# flow.record (so a field type module that is only imported as somebody's side effect is missing there) and in this
# process; the bytes of every text writer must be identical

SMOKE_SRC = r"""
import os, sys
def main(outdir):
    from flow.record import RecordDescriptor, RecordWriter
    fields = [
        ("string", "f_string"), ("wstring", "f_wstring"), ("uri", "f_uri"), ("path", "f_path"), ("varint", "f_varint"),
        ("uint16", "f_uint16"), ("uint32", "f_uint32"), ("float", "f_float"), ("boolean", "f_boolean"), ("bytes", "f_bytes"),
        ("datetime", "f_datetime"), ("filesize", "f_filesize"), ("unix_file_mode", "f_mode"), ("digest", "f_digest"),
        ("net.ipaddress", "f_ipaddress"), ("net.ipnetwork", "f_ipnetwork"), ("net.IPAddress", "f_IPAddress"),
        ("net.IPNetwork", "f_IPNetwork"), ("net.ipv4.Address", "f_v4addr"), ("net.ipv4.Subnet", "f_v4subnet"),
        ("net.tcp.Port", "f_tcpport"), ("net.udp.Port", "f_udpport"), ("command", "f_command"), ("dynamic", "f_dynamic"),
        ("dictlist", "f_dictlist"), ("stringlist", "f_stringlist"), ("string[]", "l_string"), ("varint[]", "l_varint"),
        ("bytes[]", "l_bytes"), ("path[]", "l_path"), ("net.ipaddress[]", "l_ip"), ("datetime[]", "l_datetime"),
        ("float[]", "l_float"), ("uri[]", "l_uri"),
    ]
    ts = "2020-01-02T03:04:05.000006+00:00"
    D = RecordDescriptor("smoke/all", fields)
    N = RecordDescriptor("smoke/net", [("net.ipaddress", "ip"), ("net.ipnetwork", "net"), ("net.ipaddress[]", "ips")])
    full = dict(
        f_string='a,"b" \u00e9', f_wstring="w", f_uri="http://x/y?z", f_path="/tmp/x y", f_varint=-(2 ** 70), f_uint16=65535,
        f_uint32=4294967295, f_float=1.5, f_boolean=True, f_bytes=b"\xff\x00a", f_datetime=ts, f_filesize=2 * 10 ** 17,
        f_mode=0o100644, f_digest=("d41d8cd98f00b204e9800998ecf8427e", None, None), f_ipaddress="1.2.3.4",
        f_ipnetwork="10.0.0.0/8", f_IPAddress="::1", f_IPNetwork="2001:db8::/32", f_v4addr="4.3.2.1", f_v4subnet="192.168.0.0/24",
        f_tcpport=80, f_udpport=53, f_command="ls -l", f_dynamic="dyn", f_dictlist=[{"k": 1}], f_stringlist=["x", "y"],
        l_string=["a", "b,c"], l_varint=[1, -2], l_bytes=[b"a", b"\xfe"], l_path=["/a", "b c"], l_ip=["::1", "10.0.0.1"],
        l_datetime=[ts], l_float=[0.5], l_uri=["u://v"])
    recs = [D(_generated=ts, _source="smoke", **full), D(_generated=ts),
            N(ip="8.8.8.8", net="8.8.8.0/24", ips=["1.1.1.1"], _generated=ts), N(_generated=ts),
            D(_generated=ts, f_string="second", f_ipaddress="fe80::1", l_ip=[])]
    runs = [("csv", "csvfile://%s", {}), ("csv_lf", "csvfile://%s", {"lineterminator": "\\n", "exclude": "_generated"}),
            ("line", "line://%s", {}), ("line_v", "line://%s", {"verbose": True}), ("text", "text://%s", {}),
            ("text_t", "text://%s", {"format_spec": "{f_string}|{f_ipaddress}|{ip}|{net}|{l_ip}|{f_bytes}|{f_uint16}|{f_filesize!r}"})]
    for name, uri, kw in runs:
        path = os.path.join(outdir, name + ".out")
        w = RecordWriter(uri % path, **kw)
        for r in recs:
            w.write(r)
        w.close()
    return [n for n, _, _ in runs]
"""


def smoke_scenario(ctx, rep, workdir):
    import subprocess
    d_in, d_out = os.path.join(workdir, "smoke_in"), os.path.join(workdir, "smoke_child")
    os.makedirs(d_in, exist_ok=True)
    os.makedirs(d_out, exist_ok=True)
    ns = {}
    exec(compile(SMOKE_SRC, "<c20-smoke>", "exec"), ns)
    try:
        with warnings.catch_warnings():
            warnings.simplefilter("ignore")
            names = ns["main"](d_in)
    except Exception as e:  # noqa
        rep.fail(dict(cls="smoke", where="in-process"), "smoke scenario (records of every field type through every text writer) "
                 "raised in this process: %s: %s" % (type(e).__name__, e), dict(kind="smoke", where="in-process", error=repr(e)))
        return
    env = dict(os.environ, PYTHONPATH=str(core.REPO), PYTHONDONTWRITEBYTECODE="1", PYTHONWARNINGS="ignore")
    env.pop("FLOW_RECORD_TZ", None)
    pr = subprocess.run([core.PY, "-c", SMOKE_SRC + "\nmain(sys.argv[1])\n", d_out], env=env, cwd=workdir,
                        stdout=subprocess.PIPE, stderr=subprocess.STDOUT, text=True, timeout=120)
    ctx.count_case(("smoke", "fresh-interpreter"))
    if pr.returncode != 0:
        rep.fail(dict(cls="smoke", where="child"),
                 "a fresh interpreter that imports only flow.record fails to write records of every field type through the "
                 "text writers (the same program succeeds in this process): %s" % pr.stdout.strip().splitlines()[-1:],
                 dict(kind="smoke", where="child", output=pr.stdout[-3000:]))
        return
    for n in names:
        a = open(os.path.join(d_in, n + ".out"), "rb").read()
        b = open(os.path.join(d_out, n + ".out"), "rb").read()
        if a != b:
            k = next((i for i in range(min(len(a), len(b))) if a[i] != b[i]), min(len(a), len(b)))
            rep.fail(dict(cls="smoke", where="differs"),
                     "writer scenario %s: a fresh interpreter that imports only flow.record writes other bytes than this process "
                     "(first difference at offset %d: %r vs %r)" % (n, k, b[max(0, k - 20):k + 30], a[max(0, k - 20):k + 30]),
                     dict(kind="smoke", where=n, child=b.hex()[:4000], inprocess=a.hex()[:4000]))
            return


# ------------------------------------------------------------------------------------------------
# driving

HEADER = """From Coq Require Import List Bool NArith String.
Import ListNotations.
From FR Require Import Csv%s.
Open Scope N_scope.
"""


def gen_safe_sequence(rnd, idx):
    """records of one descriptor with unambiguous text (also read back through CsvfileReader)"""
    D = gen_descriptor(rnd, idx, types=["string", "varint", "uint16", "boolean", "net.ipaddress", "float", "wstring"])
    if len(D.get_field_tuples()) == 0:
        return []
    recs = []
    for _ in range(rnd.randint(2, 5)):
        kw = {}
        for tname, fname in D.get_field_tuples():
            if tname in ("string", "wstring"):
                kw[fname] = safe_word(rnd)
            else:
                kw[fname] = gen_value(rnd, tname, hostile=False)
        recs.append(D.recordType(_generated=TS, _source=safe_word(rnd), _classification=safe_word(rnd), **kw))
    return recs


def witness_sequences():
    """Deterministic totality sweep (sequence indices -1, -2, ...): records whose text values hold surrogate-escaped
    bytes (what the string type makes of bytes that are not UTF-8, U+DC80..U+DCFF), delimiters, quotes and line
    breaks, through EVERY writer mode: csv (CRLF / LF), line (plain / verbose), text (repr / templates with plain,
    converted and spec'd placeholders).  None of them may fail; outputs are compared like any other sequence."""
    from flow.record import RecordDescriptor
    from flow.record.fieldtypes import path as _path
    D = RecordDescriptor("wit/esc", [("string", "s"), ("uri", "u"), ("path", "p"), ("string[]", "l"), ("varint", "n")])
    raw = b"caf\xe9"                      # latin-1 bytes, not valid UTF-8
    r1 = D(s=raw, u="http://x/\udcff", p=_path.from_posix("/tmp/\udc80x"), l=["a\udce9"], n=1, _generated=TS)
    r2 = D(s='q"\udcfe,;', u="\udca9\udcc3", p=None, l=[], n=None, _source="src\udc81", _generated=TS)
    r3 = D(s="R\u00e9\udceamy \U0001f600", u="plain", p="rel/\udcff", l=["x", "\udc80"], n=-7, _generated=TS)
    plans = [
        dict(csv=[{}, {"lineterminator": "\\n"}], line=[{}, {"verbose": True}],
             text=[{}, {"format_spec": "{s}"}]),
        dict(csv=[{"fields": "s,u"}, {"exclude": "_generated,_version", "lineterminator": "\n"}],
             line=[{"fields": "s"}, {"verbose": True, "exclude": "n"}],
             text=[{"format_spec": "{s!s}|{u}|{p}|{_source}"}, {"format_spec": "{n}\\t{s:>12}|{u:<6}|{s!r}|{zz}"}]),
        dict(csv=[{"fields": ["u", "l"]}, {}], line=[{"fields": ["u", "l", "p"]}, {}],
             text=[{"format_spec": "{u}"}, {"format_spec": "{{{p}}} {l} {s:^10}"}]),
    ]
    out = [(-(k + 1), [r1, r2, r3], plan) for k, plan in enumerate(plans)]
    # two record types with one name whose identifiers collide ('test/run' + 'astringbstring'), one writer session:
    # the second type needs its own header row / its own field types
    A = RecordDescriptor("test/run", [("string", "a"), ("string", "b")])
    B = RecordDescriptor("test/run", [("string", "astringb")])
    assert A.identifier == B.identifier
    col = [A(a="1", b="2", _generated=TS), B(astringb="3", _generated=TS), A(a="4", b="5", _generated=TS), Twin(A),
           A(a="6", b=None, _generated=TS), B(astringb="7", _generated=TS)]
    out.append((-(len(plans) + 1), col,
                dict(csv=[{}, {"exclude": "_source,_classification,_generated,_version"}], line=[{"verbose": True}, {}],
                     text=[{}, {"format_spec": "{a}|{b}|{astringb}"}])))
    # every replacement-field form of str.format on one record type
    from flow.record.fieldtypes import path as _p
    T = RecordDescriptor("wit/tpl", [("path", "location"), ("uri", "u"), ("datetime", "ts"), ("string[]", "tags"), ("dictlist", "dl"),
                                     ("varint", "count"), ("varint", "width"), ("string", "s")])
    t1 = T(location=_p.from_posix("/var/log/app.log"), u="https://host.example/x?q=1", ts=TS, tags=["red", "blue"],
           dl=[{"k": "v1", "n": 2}], count=255, width=7, s="va\u00e9", _generated=TS)
    t2 = T(location=_p.from_windows("C:\\Temp\\b.txt"), u="ftp://h/", ts=TS, tags=["only"], dl=[{"k": "v2"}], count=-3, width=4,
           s='q"uote', _source="src", _generated=TS)
    tpls = ["{location.name}|{u.scheme}|{ts.year}", "{tags[0]}|{dl[0][k]}|{tags[0]!r:>9}", "{count:>{width}}|{s:{width}}|{count:#x}",
            "{s!r:>10}|{s!s:<8}|{s!a}", "{s}{s}{{{s}}}{{}}", "{zz:>{width}}|{s:>{nosuch}}", "{}", "{0}|{s}", "{tags[5]}", "{nosuch.attr}",
            "{location.parent.name}/{location.suffix}"]
    base = len(out)
    for k in range(0, len(tpls), 2):
        pair = tpls[k:k + 2] if len(tpls[k:k + 2]) == 2 else [tpls[k], "{s}"]
        out.append((-(base + 1 + k // 2), [t1, t2],
                    dict(csv=[{}, {}], line=[{}, {"verbose": True}], text=[{"format_spec": pair[0]}, {"format_spec": pair[1]}])))
    return out


def run_witness_sequences(ctx, rep, workdir, cfgname="gen_cfg", only=None):
    terms = []
    for idx, recs, plan in witness_sequences():
        if only is not None and idx != only:
            continue
        terms += run_sequence(ctx, rep, seq_rnd(0, 10 ** 6 - idx), idx, recs, workdir, cfgname, origin="witness", plan=plan)
    return terms


def seq_rnd(seed, idx):
    return random.Random(seed * 1000003 + idx)


def build_cases(ctx, rep, rnd, nseq, workdir, cfgname="gen_cfg"):
    allterms = []
    written_safe = []
    with warnings.catch_warnings():
        warnings.simplefilter("ignore")
        allterms += run_witness_sequences(ctx, rep, workdir, cfgname)
        for idx in range(nseq):
            rnd = seq_rnd(ctx.seed, idx)
            recs = gen_sequence(rnd, idx, hostile=True)
            allterms += run_sequence(ctx, rep, rnd, idx, recs, workdir, cfgname)
        # sequences with safe content, one descriptor: also read back through CsvfileReader
        collect = []
        for idx in range(nseq, nseq + max(4, nseq // 6)):
            rnd = seq_rnd(ctx.seed, idx)
            recs = gen_safe_sequence(rnd, idx)
            if recs:
                allterms += run_sequence(ctx, rep, rnd, idx, recs, workdir, cfgname, collect=collect, origin="safe")
        for recs, obss, o, data in collect:
            if (o.get("lineterminator") in (None, "\\r\\n", "\r\n", "\\n", "\n")):
                written_safe.append(data)
    return allterms, written_safe


def eval_terms(ctx, header, terms, name, shard_bytes=60000):
    """terms: list of Gallina bools; shards by size. returns (failing indices, err)"""
    # shard by text size so that no shard's literals exceed ~60 KB
    shards, cur, size = [], [], 0
    for i, t in enumerate(terms):
        if cur and size + len(t) > shard_bytes:
            shards.append(cur)
            cur, size = [], 0
        cur.append(i)
        size += len(t)
    if cur:
        shards.append(cur)
    texts = []
    for k, idxs in enumerate(shards):
        text = header + "\nFrom FR Require Import CaseLib.\n"
        text += "Definition the_cases : list bool :=\n [ " + "\n ; ".join(terms[i] for i in idxs) + " ].\n"
        text += 'Goal True. idtac "@@failing". exact I. Qed.\nEval vm_compute in (failing the_cases).\n'
        texts.append(("%s_%04d" % (name, k), text))
    res = core.run_case_shards(ctx.work, texts, timeout=600)
    failing = []
    for (nm, _), idxs in zip(texts, shards):
        rc, out = res[nm]
        lst = core.parse_nat_list(out) if rc == 0 else None
        if lst is None:
            return None, "shard %s failed (rc=%s): %s" % (nm, rc, out[-1500:])
        failing.extend(idxs[j] for j in lst)
    return failing, None


RULE = (
    "a case = one (record sequence, writer, option set): sequences of 1-6 records over 1-3 descriptors (equal-by-value twin "
    "descriptor objects, type changes, grouped records) with values of every whitelisted field type (35 type names incl. "
    "typed lists and nested records) carrying hostile text (delimiters , ; TAB |, quotes, CR, LF, CRLF, NUL, controls, "
    "combining/astral/RTL code points, surrogate-escaped bytes, lone surrogates, empty, unset) x options (fields as "
    "str/list with unknown and duplicate names, exclude, lineterminator in escaped and raw form, verbose, format_spec "
    "templates with !r/!s/!a, :spec, unknown names, doubled braces, escapes); plus csv.writer/csv.reader/UTF-8 encoder cases "
    "against the environment models, normalize_fieldname names and CSV files with unambiguous content read back through "
    "CsvfileReader over 4 delimiters; plus a deterministic totality sweep: records with surrogate-escaped bytes "
    "(U+DC80..U+DCFF) in string/uri/path/string[] values through every writer mode (csv CRLF/LF, line plain/verbose, text "
    "repr and templates with plain/converted/spec'd placeholders), also run in the search stage; record types whose "
    "identifiers collide in one writer session; groups nested in groups with member fields called name/records/"
    "descriptors/flat_fields; one fresh-interpreter smoke scenario (a child process importing only flow.record writes "
    "records of every field type through every text writer; bytes compared with this process).  distinct = distinct canonical (writer, options, observed records) tuple; a "
    "read-back case whose delimiter csv.Sniffer does not identify is counted trivial")


def correspondence(ctx, rep, cfgname="gen_cfg", extra_import=" Gen_text", with_env=True, nseq=None):
    rnd = random.Random(ctx.seed)
    if nseq is None:
        nseq = 120 if ctx.tier == "quick" else 900
    workdir = str(ctx.work / "out")
    os.makedirs(workdir, exist_ok=True)
    seqterms, written = build_cases(ctx, rep, rnd, nseq, workdir, cfgname)
    terms = [t for _, _, t in seqterms]
    metas = [dict(m, what=k) for k, m, _ in seqterms]
    if with_env:
        et, em = env_cases(ctx, rnd, 60 if ctx.tier == "quick" else 600)
        terms += et
        metas += em
        nt, nm = normalize_cases(ctx, rep, rnd, 40 if ctx.tier == "quick" else 400)
        terms += nt
        metas += nm
        with warnings.catch_warnings():
            warnings.simplefilter("ignore")
            written = list(written) + readback_files(rnd, 40 if ctx.tier == "quick" else 400, workdir)
        rt, rm, sniffed, total = read_cases(ctx, rep, rnd, 24 if ctx.tier == "quick" else 240, workdir, written)
        terms += rt
        metas += rm
        ctx.notes.append("CSV read-back: %d of %d files read back with the same text values (the others: hand-made files in a "
                         "non-comma dialect that csv.Sniffer does not identify = ambiguous content)" % (sniffed, total))
        if sniffed * 2 < total:
            ctx.violation("csv read-back check is vacuous: only %d of %d generated files read back" % (sniffed, total),
                          dict(kind="vacuous"), no_input=True)
    header = HEADER % extra_import
    failing, err = eval_terms(ctx, header, terms, "c20")
    return terms, metas, failing, err


def summarize(m):
    m = dict(m)
    for k in ("output", "want", "got", "expected_lines", "records"):
        if k in m and isinstance(m[k], (str, list)) and len(repr(m[k])) > 600:
            m[k] = repr(m[k])[:600] + "..."
    return m


def search(ctx, reason):
    """The proof or the translator broke: look for a concrete failing input on the implementation -- first with
    the python oracles of what the property states, then against the model instantiated with the pinned constants."""
    kf = core.known_for(PID)
    rep = Report(ctx, kf, reason)
    try:
        replay_witnesses(ctx, kf, _workdir(ctx))
        with warnings.catch_warnings():
            warnings.simplefilter("ignore")
            regression_checks(rep, _workdir(ctx))
        smoke_scenario(ctx, rep, _workdir(ctx))
        if rep.reported:
            return True
        # the model alone (no generated facts needed: the cases use pinned_cfg); a generator name that matches
        # nothing keeps the broken translator from failing this build
        b = core.coq_build(["model/Csv.vo", "lib/CaseLib.vo"], gens=["__model_only__"])
        terms, metas, failing, err = correspondence(ctx, rep, cfgname="pinned_cfg", extra_import="", with_env=False,
                                                    nseq=40 if ctx.tier == "quick" else 200)
    except Exception as e:  # noqa
        ctx.notes.append("search failed: %r" % (e,))
        return rep.reported
    if not rep.reported:
        try:        # python-level oracles of normalize_fieldname / CsvfileReader (no Coq needed)
            rnd = random.Random(ctx.seed)
            normalize_cases(ctx, rep, rnd, 200)
            read_cases(ctx, rep, rnd, 24, _workdir(ctx), readback_files(rnd, 40, _workdir(ctx)))
        except Exception as e:  # noqa
            ctx.notes.append("search (reader part) failed: %r" % (e,))
    if rep.reported:
        return True
    if b["ok"] and not err and failing:
        m = metas[failing[0]]
        ctx.violation("%s; failing input: %s output for options %r differs from the model (pinned constants)" % (
            reason, m.get("what"), m.get("opts")), dict(summarize(m), reason=reason))
        return True
    return False


def _workdir(ctx):
    d = str(ctx.work / "wit")
    os.makedirs(d, exist_ok=True)
    return d


def run(ctx):
    kf = core.known_for(PID)
    ctx.coverage["rule"] = RULE
    ok = core.standard_proof_stage(ctx, ["props/C20.vo"], "C20", THEOREMS, search_fn=search, gens=["gen_text"])
    ctx.assumptions += [
        "Python's csv module (writer with QUOTE_MINIMAL, reader on a newline='' file) is a concrete Gallina model "
        "(csv_write / csv_parse in coq/model/Csv.v), validated by execution against csv.writer / csv.reader on every run",
        "CPython's UTF-8 encoder with the strict and surrogateescape handlers is a concrete Gallina model (utf8), validated by execution",
        "the text forms str(v), repr(v), format(v, spec) of field VALUES are inputs of the model (computed by the real field "
        "types); str.format_map's template grammar is modelled for plain names, !r/!s/!a and un-nested specs only",
        "CSV read-back: every file CsvfileWriter wrote and every comma-separated file with a header of field names must read "
        "back unchanged; only for hand-made files in another dialect is csv.Sniffer an oracle (a wrong guess = ambiguous content)",
        "gen_reader_excel_on_field_names is observed on constructed files that mislead csv.Sniffer (fail closed)",
        "str.isdecimal is the generated table of this interpreter's Unicode database",
        "C20_csv_layout assumes keys_agree: records with equal descriptors have the same selected field names (the slots "
        "of a record class are a function of its descriptor); the model itself (csvw_run) does not assume it",
        "a str holding a surrogate outside U+DC80..U+DCFF is not encodable by any handler the writers use; listed as a known finding",
        "the failing inputs of the three defects repaired in /repo (687c7e7, 3c70cb7, 0f4063a) are re-executed on every run and must stay repaired",
    ]
    if not ok:
        return
    if ctx.tier == "thorough":
        rc, out = core.sh(["coqchk", "-silent", "-o", "-R", str(core.COQ), "FR", "props/C20.vo"], cwd=str(core.COQ), timeout=900)
        summary = " ".join(out.split())[-400:]
        ctx.coverage["trusted_base"].append("coqchk -o props/C20.vo (independent checker): rc=%d %s" % (rc, summary))
        if rc != 0:
            ctx.violation("coqchk rejects props/C20.vo", dict(kind="coqchk", log=out[-3000:]), no_input=True)
            return
    with warnings.catch_warnings():
        warnings.simplefilter("ignore")
        replay_witnesses(ctx, kf, _workdir(ctx))
    rep = Report(ctx, kf)
    with warnings.catch_warnings():
        warnings.simplefilter("ignore")
        regression_checks(rep, _workdir(ctx))
    smoke_scenario(ctx, rep, _workdir(ctx))
    terms, metas, failing, err = correspondence(ctx, rep)
    if err:
        ctx.violation("correspondence shards did not evaluate: " + err[:300], dict(kind="coq-eval", log=err), no_input=True)
        return
    ctx.coverage["traces_validated_against_impl"] = len(terms) - len(failing)
    dist = {}
    for m in metas:
        k = m.get("what") or m.get("kind")
        dist[k] = dist.get(k, 0) + 1
    ctx.coverage["input_distribution"] = dict(
        cases_by_kind=dist,
        records_with_options=dict(
            fields=sum(1 for m in metas if (m.get("opts") or {}).get("fields")),
            exclude=sum(1 for m in metas if (m.get("opts") or {}).get("exclude")),
            lineterminator_lf=sum(1 for m in metas if (m.get("opts") or {}).get("lineterminator") in ("\\n", "\n")),
            verbose=sum(1 for m in metas if (m.get("opts") or {}).get("verbose")),
            format_spec=sum(1 for m in metas if (m.get("opts") or {}).get("format_spec"))))
    if failing and not rep.reported:
        m = metas[failing[0]]
        ctx.violation("model/Csv.v and the implementation disagree on %d of %d cases, first: %s with options %r; the python "
                      "oracles of the property accept that output" % (len(failing), len(terms), m.get("what") or m.get("kind"), m.get("opts")),
                      dict(kind="correspondence", correspondence="C20 writers vs model/Csv.v", first=summarize(m),
                           failing=[metas[i].get("what") or metas[i].get("kind") for i in failing[:20]]), no_input=True)
    for m in metas[:: max(1, len(metas) // 6)]:
        ctx.sample(summarize({k: v for k, v in m.items() if k in ("kind", "what", "opts", "records", "name", "out", "delimiter", "text", "rows")}))


class _ReplayCtx:
    """just enough of core.Ctx for re-running one case"""

    def __init__(self, seed, work):
        self.seed, self.tier, self.work = seed, "quick", work
        self.failures, self.notes = [], []

    def count_case(self, *a, **k):
        pass

    def known_finding(self, fid, what):
        print("KNOWN-FINDING (replay): %s" % fid)

    def violation(self, what, obj, no_input=False):
        self.failures.append(what)
        print("FAILS: " + what[:400])


def replay(obj):
    """re-executes exactly the recorded case (same seed, same sequence index / name / file) on the current tree"""
    import shutil
    import tempfile
    from pathlib import Path
    core.WORK.mkdir(exist_ok=True)
    work = Path(tempfile.mkdtemp(prefix="C20.replay.", dir=str(core.WORK)))
    try:
        rctx = _ReplayCtx(int(obj.get("seed", 0)), work)
        rep = Report(rctx, core.known_for(PID))
        kind = obj.get("kind")
        with warnings.catch_warnings():
            warnings.simplefilter("ignore")
            if kind in ("csv", "line", "text", "text-form", "grouped-shadow") and "seq" in obj:
                idx = int(obj["seq"])
                out = str(work / "out")
                os.makedirs(out, exist_ok=True)
                if obj.get("origin") == "witness":
                    run_witness_sequences(rctx, rep, out, only=idx)
                    print("replay: the case %s" % ("still fails" if rctx.failures else "passes on the current tree"))
                    return 1 if rctx.failures else 0
                rnd = seq_rnd(rctx.seed, idx)
                script = gen_safe_sequence(rnd, idx) if obj.get("origin") == "safe" else gen_sequence(rnd, idx, hostile=True)
                out = str(work / "out")
                os.makedirs(out, exist_ok=True)
                run_sequence(rctx, rep, rnd, idx, script, out)
            elif kind == "smoke":
                out = str(work / "out")
                os.makedirs(out, exist_ok=True)
                smoke_scenario(rctx, rep, out)
            elif kind == "regression":
                out = str(work / "out")
                os.makedirs(out, exist_ok=True)
                regression_checks(rep, out, only=obj.get("which"))
            elif kind == "normalize":
                from flow.record.base import RE_VALID_FIELD_NAME, normalize_fieldname
                nm = obj["name"]
                out = normalize_fieldname(nm)
                simple = all(c in _string.ascii_letters + _string.digits + "_-() " for c in nm)
                print("normalize_fieldname(%r) = %r" % (nm, out))
                if normalize_fieldname(out) != out or (simple and nm not in RESERVED and not RE_VALID_FIELD_NAME.match(out)):
                    rctx.failures.append("normalize")
            elif kind == "read":
                from flow.record import RecordReader
                path = str(work / "r.csv")
                with open(path, "w", newline="", encoding="utf-8") as f:
                    f.write(obj["text"])
                kw = {"fields": obj["fields"]} if obj.get("fields") is not None else {}
                try:
                    with RecordReader("csvfile://" + path, **kw) as rd:
                        got = [[getattr(r, k) for k in r._desc.fields] for r in rd]
                except Exception as e:  # noqa
                    got = "%s: %s" % (type(e).__name__, e)
                print("CsvfileReader -> %r ; expected %r" % (got, obj.get("want")))
                if got != obj.get("want"):
                    rctx.failures.append("read")
            else:
                print("replay of kind %s: nothing to re-execute (re-run ./check C20)" % kind)
                return 2
        print("replay: the case %s" % ("still fails" if rctx.failures else "passes on the current tree"))
        return 1 if rctx.failures else 0
    finally:
        shutil.rmtree(work, ignore_errors=True)
