"""C18 -- SQLite export keeps every record, independent of batch size.

proof:   coq/props/C18.v (theorems about model/Sqlite.v instantiated with the GENERATED tables and the GENERATED
         statement lists of SqliteWriter.__init__/write/tx_cycle/flush/close)
tie:     (T) gen/Gen_sqlite.v regenerated from sqlite.py on every run: the model's writer methods are proved equal to
         the interpretation of the generated statement lists; the value-fidelity theorem depends on the generated maps;
         (C) generated histories (descriptor evolution, valid mixed-case names, boundary values) x batch sizes are run
         on the implementation, observed through a second sqlite3 connection after EVERY event and after close, read
         back with SqliteReader, and compared inside Coq (vm_compute) with the model: visible row counts after each
         event, final tables/columns/cells, the declarative description (spec_db) and the reader's values.
"""
from __future__ import annotations

import datetime as _dt
import hashlib
import json
import os
import random
import sqlite3
import struct
import time

from vf import core
from vf.coqlit import cbool, clist, cN, cpair, cstr, cZ

THEOREMS = [
    "C18_generated_code", "C18_generated_code_refines", "C18_generated_value_maps",
    "C18_generated_reader_lists_all_tables", "C18_generated_descriptor_equality",
    "C18_every_write_succeeds", "C18_tables_and_columns", "C18_rows_in_order", "C18_read_back_counts", "C18_batch_independent",
    "C18_other_connection_sees_commit_points", "C18_close_commits_all", "C18_value_fidelity", "C18_quoting_safe",
    "C18_refuted_case_type_names", "C18_refuted_case_field_names", "C18_refuted_reserved_name", "C18_hyp_satisfiable",
]

BATCHES = [1, 2, 3, 7, 1000]
FLUSH = "flush"
REOPEN = "reopen"       # close the writer, open a new SqliteWriter on the same file (same batch size)
MARKS = (FLUSH, REOPEN)


def is_write(ev):
    return not isinstance(ev, str)

KF_CASE = "C18-case-insensitive-names"
KF_RESERVED = "C18-reserved-table-name"
UTC = _dt.timezone.utc
GENERATED = _dt.datetime(2020, 1, 2, 3, 4, 5, 678, tzinfo=UTC)


# ------------------------------------------------------------------------------------------
# histories (JSON-able): {"descs": [{"name":…, "fields":[[type, name],…]},…],
#                         "events": ["flush" | {"d": desc index, "v": {field: value spec}}]}

def materialise(spec):
    t = spec["t"]
    if t == "n":
        return None
    if t == "s":
        return spec["v"]
    if t == "i":
        return int(spec["v"])
    if t == "f":
        return struct.unpack(">d", struct.pack(">Q", spec["bits"]))[0]
    if t == "b":
        return bytes.fromhex(spec["hex"])
    if t == "d":
        return _dt.datetime.fromisoformat(spec["iso"])
    if t == "o":
        return bool(spec["v"])
    if t == "l":
        return list(spec["v"])
    if t == "dg":
        return tuple(spec["v"])
    raise ValueError(spec)


_DESC_CACHE = {}


def descriptor(d):
    from flow.record import RecordDescriptor
    key = (d["name"], tuple(map(tuple, d["fields"])))
    if key not in _DESC_CACHE:
        _DESC_CACHE[key] = RecordDescriptor(d["name"], [tuple(f) for f in d["fields"]])
    return _DESC_CACHE[key]


def build_records(hist):
    """-> list of FLUSH | (desc index, Record)"""
    out = []
    for ev in hist["events"]:
        if not is_write(ev):
            out.append(ev)
            continue
        D = descriptor(hist["descs"][ev["d"]])
        kw = {k: materialise(v) for k, v in ev["v"].items()}
        kw["_generated"] = GENERATED
        out.append((ev["d"], D(**kw)))
    return out


def case_collision(hist):
    """two type names, or two field names of one type name, that differ only in ASCII case"""
    def fold(s):
        return "".join(chr(ord(c) + 32) if "A" <= c <= "Z" else c for c in s)
    used = sorted({hist["descs"][ev["d"]]["name"] for ev in hist["events"] if is_write(ev)})
    for i, a in enumerate(used):
        for b in used[i + 1:]:
            if a != b and fold(a) == fold(b):
                return "type names %r / %r" % (a, b)
    for n in used:
        fields = []
        for ev in hist["events"]:
            if is_write(ev) and hist["descs"][ev["d"]]["name"] == n:
                for _, f in hist["descs"][ev["d"]]["fields"]:
                    if f not in fields:
                        fields.append(f)
        for i, a in enumerate(fields):
            for b in fields[i + 1:]:
                if fold(a) == fold(b):
                    return "field names %r / %r of %r" % (a, b, n)
    return None


# ---- generator

TEXTS = ["", "a", "abc def", 'qu"ote\'s', "é ü 😀 漢", "nul\x00inside", "123", " 1e5 ", "line\nbreak\ttab", "-0", "NULL", "x" * 70,
         "%s;--", "'; DROP TABLE x;--", " ​"]
INTS = [0, 1, -1, 2 ** 31, -2 ** 31 - 1, 2 ** 32, 2 ** 63 - 1, -2 ** 63, 2 ** 62, 255, 65536, -(2 ** 53) - 1]
FLOATS = [0.0, -0.0, 1.5, -2.25, 3.0, 1e308, -1.7976931348623157e308, 5e-324, 2.2250738585072014e-308, 0.1, 1e16, float(2 ** 53), 123456789.125]
BYTESV = [b"", b"\x00", b"\x00\xff\x7f", b"0", b"abc", b"'\"", bytes(range(256))]
OFFSETS = [_dt.timedelta(0), _dt.timedelta(hours=5, minutes=30), _dt.timedelta(hours=-8), _dt.timedelta(hours=14),
           _dt.timedelta(hours=-12), _dt.timedelta(seconds=3601, microseconds=5), _dt.timedelta(minutes=-1)]
FIELD_KINDS = ["string", "varint", "float", "bytes", "datetime", "boolean", "uint16", "uint32", "filesize", "path",
               "net.ipaddress", "digest", "string[]", "uri", "varint[]", "wstring"]
KEYWORDISH = ["from", "class", "select", "Table", "index", "rowid", "oid", "Order", "group", "values", "key", "Null", "x"]


def gen_value(rnd, ftype):
    if rnd.random() < 0.12:
        return {"t": "n"}
    if ftype in ("string", "wstring"):
        if rnd.random() < 0.7:
            return {"t": "s", "v": rnd.choice(TEXTS)}
        n = rnd.randint(1, 12)
        return {"t": "s", "v": "".join(chr(rnd.choice([rnd.randint(32, 126), rnd.randint(0xa0, 0x2ff), rnd.randint(0x4e00, 0x4eff),
                                                       rnd.randint(0x1f600, 0x1f64f)])) for _ in range(n))}
    if ftype == "varint":
        v = rnd.choice(INTS) if rnd.random() < 0.6 else rnd.randint(-2 ** 63, 2 ** 63 - 1)
        return {"t": "i", "v": str(v)}
    if ftype == "filesize":
        return {"t": "i", "v": str(rnd.choice([0, 1, 4096, 2 ** 40, 2 ** 63 - 1, rnd.randint(0, 2 ** 62)]))}
    if ftype == "uint16":
        return {"t": "i", "v": str(rnd.choice([0, 1, 65535, rnd.randint(0, 65535)]))}
    if ftype == "uint32":
        return {"t": "i", "v": str(rnd.choice([0, 1, 2 ** 32 - 1, rnd.randint(0, 2 ** 32 - 1)]))}
    if ftype == "float":
        if rnd.random() < 0.6:
            f = rnd.choice(FLOATS)
        else:
            f = rnd.uniform(-1e6, 1e6) if rnd.random() < 0.5 else rnd.uniform(-1, 1) * 10 ** rnd.randint(-300, 300)
        return {"t": "f", "bits": struct.unpack(">Q", struct.pack(">d", f))[0]}
    if ftype == "bytes":
        b = rnd.choice(BYTESV) if rnd.random() < 0.6 else bytes(rnd.randint(0, 255) for _ in range(rnd.randint(1, 20)))
        return {"t": "b", "hex": b.hex()}
    if ftype == "datetime":
        tz = _dt.timezone(rnd.choice(OFFSETS))
        year = rnd.choice([2, 1969, 1970, 2021, 2038, 9998, rnd.randint(2, 9998)])
        d = _dt.datetime(year, rnd.randint(1, 12), rnd.randint(1, 28), rnd.randint(0, 23), rnd.randint(0, 59), rnd.randint(0, 59),
                         rnd.choice([0, 0, 1, 999999, rnd.randint(0, 999999)]), tzinfo=tz)
        return {"t": "d", "iso": d.isoformat()}
    if ftype == "boolean":
        return {"t": "o", "v": rnd.random() < 0.5}
    if ftype == "path":
        return {"t": "s", "v": rnd.choice(["/tmp/x", "/", "rel/é y", "/a/b/c.txt", "/with'quote"])}
    if ftype == "net.ipaddress":
        return {"t": "s", "v": rnd.choice(["1.2.3.4", "10.0.0.1", "255.255.255.255", "2001:db8::1", "fe80::1"])}
    if ftype == "digest":
        return {"t": "dg", "v": [rnd.choice(["d41d8cd98f00b204e9800998ecf8427e", None]), None,
                                 rnd.choice([None, "e3b0c44298fc1c149afbf4c8996fb92427ae41e4649b934ca495991b7852b855"])]}
    if ftype == "string[]":
        return {"t": "l", "v": [rnd.choice(TEXTS[:9]) for _ in range(rnd.randint(0, 3))]}
    if ftype == "varint[]":
        return {"t": "l", "v": [rnd.randint(-5, 2 ** 40) for _ in range(rnd.randint(0, 3))]}
    if ftype == "uri":
        return {"t": "s", "v": rnd.choice(["http://a/b?c=d", "file:///x", "weird uri"])}
    raise ValueError(ftype)


def _ident(rnd, first_upper_p=0.4):
    first = rnd.choice("abcdefghijklmnopqrstuvwxyz")
    if rnd.random() < first_upper_p:
        first = first.upper()
    rest = "".join(rnd.choice("abcdefghijklmnopqrstuvwxyzABCXYZ0123456789_") for _ in range(rnd.randint(0, 6)))
    return first + rest


# valid record type names that look like SQLite-internal names, LIKE patterns or SQL keywords
ADVERSARIAL_TYPE_NAMES = [
    "sqlite", "sqlite/table_row", "sqlite3/row", "SQLiteDump", "Sqlite/x", "sqlitex", "sqlite/sequence", "sqlite3",
    "SQLITE/STAT1", "sqlite0_a", "select", "table", "index", "Order/by", "group", "values", "where/x", "master", "main/t",
    "temp/x", "pragma", "a_b", "a/b_c", "x_", "percent/p_", "like/escape", "null", "rowid/oid", "t/x_y_z",
]


def reserved_name(hist):
    """a record type name that begins with sqlite_ (ASCII-case-insensitive): SQLite keeps such table names for itself"""
    for ev in hist["events"]:
        if is_write(ev) and hist["descs"][ev["d"]]["name"].lower().startswith("sqlite_"):
            return hist["descs"][ev["d"]]["name"]
    return None


def gen_history(rnd, max_events=22):
    import keyword
    from flow.record.base import RE_VALID_RECORD_TYPE_NAME, is_valid_field_name
    n_names = rnd.choice([1, 1, 2, 2, 3])
    descs = []
    names = []
    while len(names) < n_names:
        if rnd.random() < 0.3:
            nm = rnd.choice(ADVERSARIAL_TYPE_NAMES)
        else:
            nm = "/".join(_ident(rnd) for _ in range(rnd.choice([1, 2, 2, 3])))
        if not RE_VALID_RECORD_TYPE_NAME.match(nm) or nm.lower() in [x.lower() for x in names]:
            continue
        if nm.lower().startswith("sqlite_") or any(keyword.iskeyword(seg) for seg in nm.split("/")):
            continue            # reserved by SQLite (known finding, has its own witnesses) / not a usable class name
        names.append(nm)
    for nm in names:
        ftypes = {}           # field name -> type, fixed for this type name
        order = []

        def new_field():
            for _ in range(50):
                f = rnd.choice(KEYWORDISH) if rnd.random() < 0.15 else _ident(rnd, 0.25)
                if is_valid_field_name(f) and f.lower() not in [x.lower() for x in order]:
                    ftypes[f] = rnd.choice(FIELD_KINDS)
                    order.append(f)
                    return f
            raise RuntimeError("no field name")
        for _ in range(rnd.randint(1, 5)):
            new_field()
        chain = [list(order)]
        for _ in range(rnd.choice([0, 1, 1, 2]) if len(descs) + len(chain) < 4 else 0):
            kind = rnd.random()
            if kind < 0.7:           # gains fields
                for _ in range(rnd.randint(1, 3)):
                    new_field()
                chain.append(list(order))
            elif kind < 0.85:        # gains fields in front
                f = new_field()
                chain.append([f] + [x for x in chain[-1]])
            else:                    # a reordered subset plus one new field
                sub = [x for x in order if rnd.random() < 0.6]
                rnd.shuffle(sub)
                sub.append(new_field())
                chain.append(sub)
        variants = [[[ftypes[f], f] for f in fl] for fl in chain]
        if rnd.random() < 0.25:
            # a second definition with the SAME identifier as one of the chain: two adjacent fields merged into one
            base = rnd.choice(variants)
            cand = [i for i in range(len(base) - 1) if base[i][0].isalnum()]
            if cand:
                i = rnd.choice(cand)
                mf = merged_field(base[i], base[i + 1])
                if is_valid_field_name(mf[1]) and mf[1].lower() not in [x.lower() for x in order]:
                    order.append(mf[1])
                    ftypes[mf[1]] = mf[0]
                    variants.insert(rnd.randrange(len(variants) + 1), base[:i] + [mf] + base[i + 2:])
        for fl in variants:
            if len(descs) < 5:
                descs.append({"name": nm, "fields": fl})
    n = rnd.randint(3, max_events)
    events = []
    # bias: descriptors tend to appear in creation order so that evolution happens mid-history
    # several writer sessions on the same file: frequent in "session mode", rare otherwise
    p_reopen = 0.18 if rnd.random() < 0.35 else 0.03
    for k in range(n):
        x = rnd.random()
        if x < 0.07:
            events.append(FLUSH)
            continue
        if x < 0.07 + p_reopen and k > 0:
            events.append(REOPEN)
            continue
        limit = max(1, min(len(descs), 1 + (k * (len(descs) + 1)) // max(1, n)))
        di = rnd.randrange(limit) if rnd.random() < 0.7 else rnd.randrange(len(descs))
        d = descs[di]
        events.append({"d": di, "v": {f: gen_value(rnd, t) for t, f in d["fields"]}})
    return {"descs": descs, "events": events}


# ------------------------------------------------------------------------------------------
# running the implementation

def _table_names(con):
    return [r[0] for r in con.execute("SELECT name FROM sqlite_master WHERE type='table' ORDER BY rowid").fetchall()]


def _q(name):
    return '"' + name.replace('"', '""') + '"'


def observe_counts(path):
    """what an independent connection sees right now: [(table, row count)]"""
    con = sqlite3.connect(path, timeout=5)
    try:
        return [(n, con.execute("SELECT COUNT(*) FROM %s" % _q(n)).fetchone()[0]) for n in _table_names(con)]
    finally:
        con.close()


def dump_db(path):
    """[(table, [(col, decl)], [[(storage class, python value)]])], rows by rowid, text cells as bytes"""
    con = sqlite3.connect(path, timeout=5)
    try:
        names = _table_names(con)
        con.text_factory = bytes
        out = []
        for n in names:
            cols = [(r[1].decode(), r[2].decode()) for r in con.execute("PRAGMA table_info(%s)" % _q(n)).fetchall()]
            sel = ", ".join("typeof(%s), %s" % (_q(c), _q(c)) for c, _ in cols)
            rows = []
            for r in con.execute("SELECT %s FROM %s ORDER BY _rowid_" % (sel, _q(n))).fetchall():
                rows.append([(r[2 * i].decode(), r[2 * i + 1]) for i in range(len(cols))])
            out.append((n, cols, rows))
        return out
    finally:
        con.close()


def classify_exc(e):
    if isinstance(e, OverflowError):
        return "EOverflow"
    if isinstance(e, sqlite3.OperationalError) and "duplicate column name" in str(e):
        return "EDuplicateColumn"
    if isinstance(e, sqlite3.OperationalError) and "reserved for internal use" in str(e):
        return "EReservedName"
    if isinstance(e, ZeroDivisionError):
        return "EZeroDivision"
    return "other:%s: %s" % (type(e).__name__, e)


def run_impl(recs, b, path):
    """-> dict(obs=[("c", counts) | ("e", kind)], final=dump | None, error=str | None)"""
    from flow.record.adapter.sqlite import SqliteWriter
    if os.path.exists(path):
        os.remove(path)
    w = SqliteWriter(path, batch_size=b)
    obs = []
    error = None
    try:
        for ev in recs:
            try:
                if ev == FLUSH:
                    w.flush()
                elif ev == REOPEN:
                    w.close()
                    w = SqliteWriter(path, batch_size=b)
                else:
                    w.write(ev[1])
            except Exception as e:  # noqa
                error = classify_exc(e)
                obs.append(("e", error))
                break
            obs.append(("c", observe_counts(path)))
    finally:
        try:
            w.close()
        except Exception as e:  # noqa
            if error is None:
                error = "close: " + classify_exc(e)
    final = dump_db(path) if error is None else None
    return dict(obs=obs, final=final, error=error)


def read_back(path):
    """{type name: [record]} in the reader's order"""
    from flow.record.adapter.sqlite import SqliteReader
    out = {}
    rd = SqliteReader(path)
    try:
        for r in rd:
            out.setdefault(r._desc.name, []).append(r)
    finally:
        rd.con.close()
    return out


# ------------------------------------------------------------------------------------------
# the property, checked directly on the implementation (no model): used to classify disagreements and to search
# for a failing input when the proof or the translator breaks

def spec_last_commit(events, b):
    """number of leading events visible to another connection after each event"""
    seen, cnt, lc, out = set(), 0, 0, []
    for k, ev in enumerate(events):
        if ev == FLUSH:
            lc = k + 1
        elif ev == REOPEN:
            seen, cnt, lc = set(), 0, k + 1     # close commits everything; the new writer starts afresh
        else:
            if ev[1]._desc not in seen:
                seen.add(ev[1]._desc)
                lc = k                    # a new descriptor commits everything before this record
            cnt += 1
            if cnt % b == 0:
                lc = k + 1                # every b-th record commits
        out.append(lc)
    return out


def counts_of(recs):
    c = {}
    for ev in recs:
        if is_write(ev):
            n = ev[1]._desc.name
            c[n] = c.get(n, 0) + 1
    return c


def float_bits(f):
    return struct.unpack(">Q", struct.pack(">d", float(f)))[0]


def value_back_ok(ftype, orig, back):
    """the property's claim for one field: same value for text / 64-bit ints / finite floats / bytes / timestamps,
    text form for everything else"""
    import builtins
    if orig is None:
        return back is None
    if ftype in ("string", "wstring"):
        return isinstance(back, str) and str(back) == str(orig)
    if ftype in ("varint", "filesize", "uint32"):
        return isinstance(back, int) and int(back) == int(orig)
    if ftype == "boolean":
        return isinstance(back, int) and int(back) == int(orig)
    if ftype == "float":
        if not isinstance(back, builtins.float):
            return False
        return float_bits(back) == float_bits(orig) or (float(orig) == 0.0 and float(back) == 0.0)
    if ftype == "bytes":
        return isinstance(back, bytes) and bytes(back) == bytes(orig)
    if ftype == "datetime":
        return isinstance(back, _dt.datetime) and back == orig      # the same instant (offsets are C13's subject)
    return isinstance(back, str) and str(back) == str(orig)


def property_oracle(hist, recs, b, run, readback):
    """-> None when the property holds on this run, else a description of what fails"""
    events = recs
    if run["error"] is not None:
        return "writing raised %s after %d events" % (run["error"], len(run["obs"]) - 1)
    # another connection sees exactly the records up to the last commit point
    lcs = spec_last_commit(events, b)
    for k, (kind, counts) in enumerate(run["obs"]):
        want = {n: c for n, c in counts_of(events[:lcs[k]]).items() if c}
        got = {n: c for n, c in counts if c}
        if want != got:
            return ("after event %d (batch size %d) another connection sees rows %s, the records up to the last commit "
                    "point (%d events) are %s" % (k + 1, b, got, lcs[k], want))
    # after close: one table per type name, one column per field, one row per record
    final = run["final"]
    want_counts = counts_of(events)
    got_tables = {n: (cols, rows) for n, cols, rows in final}
    if sorted(got_tables) != sorted(want_counts):
        return "after close the tables are %s, the record type names are %s" % (sorted(got_tables), sorted(want_counts))
    for n, (cols, rows) in got_tables.items():
        if len(rows) != want_counts[n]:
            return "after close table %r holds %d rows, %d records were written" % (n, len(rows), want_counts[n])
        want_cols = []
        for ev in events:
            if is_write(ev) and ev[1]._desc.name == n:
                for f in ev[1]._desc.get_all_fields():
                    if f not in want_cols:
                        want_cols.append(f)
        if sorted(c for c, _ in cols) != sorted(want_cols):
            return "table %r has columns %s, the fields are %s" % (n, [c for c, _ in cols], want_cols)
    # reading back
    if readback is not None:
        if sorted(readback) != sorted(want_counts):
            return "SqliteReader yields types %s, written %s" % (sorted(readback), sorted(want_counts))
        for n, back in readback.items():
            origs = [ev[1] for ev in events if is_write(ev) and ev[1]._desc.name == n]
            if len(back) != len(origs):
                return "SqliteReader yields %d records of %r, %d were written" % (len(back), n, len(origs))
            for i, (o, r) in enumerate(zip(origs, back)):
                for fname, fld in o._desc.get_all_fields().items():
                    if fname == "_version":
                        continue
                    ov = getattr(o, fname)
                    rv = getattr(r, fname, "<missing>")
                    if not value_back_ok(fld.typename, ov, rv):
                        return "record %d of %r field %s (%s): wrote %r, read back %r" % (i, n, fname, fld.typename, ov, rv)
    return None


# ------------------------------------------------------------------------------------------
# Gallina literals

def ctext(b: bytes) -> str:
    if all(32 <= c < 127 for c in b):
        return cstr(b.decode("ascii"))
    return '(hx "%s")' % b.hex()


def cname(s: str) -> str:
    try:
        return ctext(s.encode("utf-8", "surrogateescape"))
    except UnicodeEncodeError:
        return ctext(s.encode("utf-8", "surrogatepass"))


def classify_pval(v):
    """the isinstance chain of db_insert_record, as the constructor of the model's pval"""
    if isinstance(v, _dt.datetime):
        return "(PTime %s)" % cname(v.isoformat())
    if isinstance(v, bytes):
        return "(PBytes %s)" % ctext(bytes(v))
    if isinstance(v, bool):
        return "(PBool %s)" % cbool(v)
    if isinstance(v, int):
        return "(PInt %s)" % cZ(int(v))
    if isinstance(v, float):
        return "(PFloat %s)" % cN(float_bits(v))
    if v is None:
        return "PNone"
    if isinstance(v, str):
        return "(PText %s)" % cname(str(v))
    return "(POther %s)" % cname(str(v))


def csval(cell):
    kind, v = cell
    if kind == "null":
        return "SNull"
    if kind == "integer":
        return "(SInt %s)" % cZ(v)
    if kind == "real":
        return "(SReal %s)" % cN(float_bits(v))
    if kind == "text":
        return "(SText %s)" % ctext(v)
    if kind == "blob":
        return "(SBlob %s)" % ctext(bytes(v))
    raise ValueError(kind)


def cdesc_defs(hist):
    out = []
    for i, d in enumerate(hist["descs"]):
        out.append("let d%d := {| d_name := %s; d_fields := %s |} in" % (
            i, cname(d["name"]), clist([cpair(cname(t), cname(f)) for t, f in d["fields"]])))
    return "\n ".join(out)


def cevents(recs):
    evs = []
    for ev in recs:
        if ev == FLUSH:
            evs.append("EFlush")
        elif ev == REOPEN:
            evs.append("EReopen")
        else:
            di, r = ev
            evs.append("EWrite {| r_desc := d%d; r_vals := %s |}" % (di, clist(classify_pval(v) for v in r._asdict().values())))
    return clist(evs, sep=";\n   ")


def cobs(obs):
    items = []
    for kind, x in obs:
        if kind == "c":
            items.append("OC %s" % clist(cpair(cname(n), cN(c)) for n, c in x))
        else:
            items.append("OE %s" % (x if x in ("EOverflow", "EDuplicateColumn", "EZeroDivision", "EReservedName") else "EUnsupported"))
    return clist(items)


def cfinal(final):
    return clist(("(%s, %s, %s)" % (cname(n), clist(cpair(cname(c), cname(t)) for c, t in cols),
                                    clist(clist(csval(c) for c in row) for row in rows)) for n, cols, rows in final), sep=";\n   ")


def creadback(final, readback):
    """per table of the final dump: the reader's records, one classified value per column"""
    items = []
    for n, cols, _ in final:
        rows = []
        for r in readback.get(n, []):
            rows.append(clist(classify_pval(getattr(r, c, None)) for c, _ in cols))
        items.append("(%s, %s)" % (cname(n), clist(rows)))
    return clist(items, sep=";\n   ")


HEADER = """From Coq Require Import List Bool String Ascii ZArith NArith.
Import ListNotations.
From FR Require Import Sqlite Gen_sqlite.
Open Scope list_scope.
Definition C := sqlite_config.
Definition hexval (c : ascii) : N := let n := N_of_ascii c in if (n <? 58)%N then (n - 48)%N else (n - 87)%N.
Fixpoint hx (s : string) : string :=
  match s with
  | String a (String b t) => String (ascii_of_N (hexval a * 16 + hexval b)) (hx t)
  | _ => EmptyString
  end.
Inductive obs := OC (l : list (string * N)) | OE (e : err).
Definition cnt_eqb (a b : string * N) : bool := String.eqb (fst a) (fst b) && N.eqb (snd a) (snd b).
Definition same_set {A} (eqb : A -> A -> bool) (a b : list A) : bool :=
  Nat.eqb (List.length a) (List.length b) && forallb (fun x => existsb (eqb x) b) a.
Definition err_eqb (a b : err) : bool :=
  match a, b with
  | EDuplicateColumn, EDuplicateColumn | EOverflow, EOverflow | EZeroDivision, EZeroDivision
  | EReservedName, EReservedName => true
  | _, _ => false
  end.
Definition obs_eqb (a b : obs) : bool :=
  match a, b with OC x, OC y => same_set cnt_eqb x y | OE x, OE y => err_eqb x y | _, _ => false end.
(* what another connection sees after each event (the code interpreter of the GENERATED statement lists is used
   for the steps, the clean model for the expected value -- they are proved equal) *)
Fixpoint trace (w : wstate) (evs : list event) : list obs :=
  match evs with
  | [] => []
  | e :: t => match step C w e with
              | Ok w' => OC (row_counts (visible w')) :: trace w' t
              | Err x => [OE x]
              end
  end.
Definition chk_trace (b : N) (evs : list event) (o : list obs) : bool :=
  match init C b with Ok w => list_eqb obs_eqb (trace w evs) o | Err _ => false end.
Definition gen_step (w : wstate) (e : event) : res wstate :=
  match e with
  | EWrite r => code_write_fn C writer_code w r
  | EFlush => code_flush_fn C writer_code w
  | EReopen => code_reopen C writer_code w
  end.
Fixpoint gen_trace (w : wstate) (evs : list event) : list obs :=
  match evs with
  | [] => []
  | e :: t => match gen_step w e with
              | Ok w' => OC (row_counts (visible w')) :: gen_trace w' t
              | Err x => [OE x]
              end
  end.
Definition chk_gen_trace (b : N) (evs : list event) (o : list obs) : bool :=
  match code_init C writer_code b with Ok w => list_eqb obs_eqb (gen_trace w evs) o | Err _ => false end.
Definition tbl := (string * list (string * string) * list (list sval))%type.
Definition tbl_eqb (a b : tbl) : bool :=
  String.eqb (fst (fst a)) (fst (fst b)) && cols_eqb (snd (fst a)) (snd (fst b)) && rows_eqb (snd a) (snd b).
Definition chk_final (b : N) (evs : list event) (fin : list tbl) : bool :=
  match final_db C b evs with Ok ts => same_set tbl_eqb (observe ts) fin | Err _ => false end.
Definition chk_spec (evs : list event) (fin : list tbl) : bool := hypsb C evs && same_set tbl_eqb (spec_db C evs) fin.
Definition opt_eqb (a : option pval) (b : pval) : bool := match a with Some x => pval_eqb x b | None => false end.
Definition rd_eqb (a : string * list (list (option pval))) (b : string * list (list pval)) : bool :=
  String.eqb (fst a) (fst b) &&
  Nat.eqb (List.length (snd a)) (List.length (snd b)) &&
  forallb (fun p => Nat.eqb (List.length (fst p)) (List.length (snd p)) &&
                    forallb (fun q => opt_eqb (fst q) (snd q)) (combine (fst p) (snd p))) (combine (snd a) (snd b)).
Definition chk_read (evs : list event) (rd : list (string * list (list pval))) : bool :=
  match content C evs with
  | Ok ts => Nat.eqb (List.length ts) (List.length rd) &&
             forallb (fun t => existsb (rd_eqb (t_name t, read_table C t)) rd) ts
  | Err _ => false
  end.
(* every stored cell lies where the effect of column affinity is modelled exactly *)
Definition rec_indomain (r : record) : bool :=
  forallb (fun p => match db_value (snd p) with
                    | Ok sv => affinity_exact (affinity_of (decl_of C (fst (fst p)))) sv
                    | Err _ => true
                    end) (combine (all_fields C (r_desc r)) (r_vals r)).
Definition chk_domain (evs : list event) : bool := forallb rec_indomain (writes evs).
Open Scope string_scope.
"""


def history_case(hist, recs, runs, readback, parts=None):
    """One Gallina bool for a history: all sub-checks, or only those named in `parts`."""
    first = runs[BATCHES[0]]
    terms = []

    def want(p):
        return parts is None or p in parts
    if first["final"] is not None:
        if want("spec"):
            # the declarative description applies under the theorems' hypotheses; the known-finding witnesses lie outside
            terms.append("negb (case_distinctb C h)" if case_collision(hist) else "chk_spec h fin")
        if want("domain"):
            terms.append("chk_domain h")
        if want("read") and readback is not None:
            terms.append("chk_read h rd")
    for b in BATCHES:
        if want("trace%d" % b):
            terms.append("chk_trace %s h %s" % (cN(b), cobs(runs[b]["obs"])))
        if want("gentrace%d" % b):
            terms.append("chk_gen_trace %s h %s" % (cN(b), cobs(runs[b]["obs"])))
        if runs[b]["final"] is not None and want("final%d" % b):
            terms.append("chk_final %s h fin" % cN(b))
    body = "(" + cdesc_defs(hist) + "\n let h := " + cevents(recs) + " in\n"
    if first["final"] is not None:
        body += " let fin : list tbl := " + cfinal(first["final"]) + " in\n"
        if readback is not None:
            body += " let rd := " + creadback(first["final"], readback) + " in\n"
    body += " " + " &&\n ".join(terms or ["true"]) + ")"
    return body


def model_final_text(ctx, m):
    """the model's database after close for a history, as Coq prints it (diagnostic text for a replay)"""
    v = ctx.work / "c18_model_final.v"
    v.write_text(HEADER + "Eval vm_compute in (" + cdesc_defs(m["hist"]) + "\n let h := " + cevents(m["recs"]) +
                 " in\n match final_db C 1%N h with Ok ts => inl (observe ts) | Err e => inr e end).\n")
    rc, out = core.coqc_file(v, timeout=120)
    return out


PARTS = ["spec", "domain", "read"] + ["%s%d" % (p, b) for b in BATCHES for p in ("trace", "gentrace", "final")]


# ------------------------------------------------------------------------------------------

def hist_digest(hist):
    return hashlib.sha1(json.dumps(hist, sort_keys=True).encode()).hexdigest()[:16]


def run_history(ctx_work, hist, tag):
    """implementation side for one history: all batch sizes + read-back (of the first batch size's file)"""
    recs = build_records(hist)
    runs = {}
    readback = None
    for b in BATCHES:
        path = os.path.join(str(ctx_work), "c18_%s_%d.db" % (tag, b))
        runs[b] = run_impl(recs, b, path)
        if b == BATCHES[0] and runs[b]["error"] is None:
            try:
                readback = read_back(path)
            except Exception as e:  # noqa
                readback = None
                runs[b]["read_error"] = "%s: %s" % (type(e).__name__, e)
        for ext in ("", "-journal"):
            if os.path.exists(path + ext):
                os.remove(path + ext)
    return recs, runs, readback


def impl_verdict(hist, recs, runs, readback):
    """property-level verdict on the implementation alone -> (None | text, batch)"""
    if runs[BATCHES[0]].get("read_error"):
        return "SqliteReader raised %s" % runs[BATCHES[0]]["read_error"], BATCHES[0]
    for b in BATCHES:
        bad = property_oracle(hist, recs, b, runs[b], readback if b == BATCHES[0] else None)
        if bad:
            return bad, b
    base = runs[BATCHES[0]]["final"]
    for b in BATCHES[1:]:
        if runs[b]["final"] != base:
            return "the final database differs between batch size %d and batch size %d" % (BATCHES[0], b), b
    return None, None


def _w(name, fields, **vals):
    return {"name": name, "fields": fields}


def _ev(d, **vals):
    def spec(v):
        if isinstance(v, dict):
            return v
        if isinstance(v, bool):
            return {"t": "o", "v": v}
        if isinstance(v, int):
            return {"t": "i", "v": str(v)}
        if isinstance(v, float):
            return {"t": "f", "bits": struct.unpack(">Q", struct.pack(">d", v))[0]}
        if isinstance(v, bytes):
            return {"t": "b", "hex": v.hex()}
        return {"t": "s", "v": v}
    return {"d": d, "v": {k: spec(v) for k, v in vals.items()}}


def merged_field(f1, f2):
    """(t1, n1), (t2, n2) -> the single field (t2, n1 + t1 + n2): a descriptor in which the two adjacent fields are replaced
    by it has the same identifier (name + 32-bit hash over the concatenated field names and types) but another definition"""
    return [f2[0], f1[1] + f1[0] + f2[1]]


_TS = {"t": "d", "iso": "2021-05-06T07:08:09.123456+05:30"}
_BASE = _w("evo/all", [["string", "s0"]])
_FULL = _w("evo/all", [["string", "s0"], ["datetime", "ts"], ["varint", "n"], ["float", "f"], ["boolean", "bo"], ["bytes", "b"],
                       ["uint32", "u"], ["filesize", "fs"], ["path", "p"], ["uint16", "h"]])
_FULLV = dict(s0="x", ts=_TS, n=-5, f=2.5, bo=True, b=b"\x00\xffz", u=7, fs=4096, p="/tmp/x", h=9)
_CA = _w("net/conn", [["string", "src"], ["string", "dst"]])
_CB = _w("net/conn", [["string", "srcstringdst"]])


# histories that must HOLD on every run (each is also a correspondence case); they pin down classes of input that a
# purely random generator reaches only sometimes: descriptor evolution across writer sessions on one file, type
# names that resemble SQLite-internal names / LIKE patterns / SQL keywords
REGRESSION = [
    ("evolution across two writer sessions",
     {"descs": [_w("demo/evolving", [["string", "name"], ["varint", "num"]]),
                _w("demo/evolving", [["string", "name"], ["varint", "num"], ["string", "extra"]])],
      "events": [_ev(0, name="old0", num=0), _ev(0, name="old1", num=1), _ev(0, name="old2", num=2), _ev(0, name="old3", num=3), REOPEN,
                 _ev(1, name="new0", num=100, extra="x0"), _ev(1, name="new1", num=101, extra="x1"), _ev(0, name="old4", num=4)]}),
    ("three sessions, second type appears in the second, first type evolves in the third",
     {"descs": [_w("s/a", [["string", "p"]]), _w("s/b", [["varint", "q"]]), _w("s/a", [["varint", "r"], ["string", "p"]])],
      "events": [_ev(0, p="1"), REOPEN, _ev(1, q=2), _ev(0, p="3"), FLUSH, REOPEN, REOPEN, _ev(2, r=4, p="5"), _ev(1, q=6)]}),
    ("a later descriptor ADDS a field of every mapped type (one session)",
     {"descs": [_BASE, _FULL], "events": [_ev(0, s0="a"), _ev(1, **_FULLV), _ev(0, s0="b"), _ev(1, **dict(_FULLV, bo=False, n=0, fs=0, u=0, h=0))]}),
    ("a later descriptor ADDS a field of every mapped type (second session)",
     {"descs": [_BASE, _FULL], "events": [_ev(0, s0="a"), REOPEN, _ev(1, **_FULLV), _ev(0, s0="b")]}),
    ("two definitions with the same identifier in one session",
     {"descs": [_CA, _CB], "events": [_ev(0, src="a", dst="b"), _ev(1, srcstringdst="c"), _ev(0, src="d", dst="e")]}),
    ("two definitions with the same identifier in one session, other order",
     {"descs": [_CA, _CB], "events": [_ev(1, srcstringdst="c"), _ev(0, src="a", dst="b"), _ev(1, srcstringdst="f")]}),
    ("two definitions with the same identifier across sessions, both orders",
     {"descs": [_CA, _CB], "events": [_ev(0, src="a", dst="b"), REOPEN, _ev(1, srcstringdst="c"), REOPEN, _ev(1, srcstringdst="g"),
                                      _ev(0, src="d", dst="e")]}),
    ("type names that begin with sqlite",
     {"descs": [_w("sqlite/table_row", [["string", "a"]]), _w("sqlite3/row", [["varint", "n"]]), _w("SQLiteDump", [["string", "a"]]),
                _w("sqlite", [["string", "a"]])],
      "events": [_ev(0, a="1"), _ev(1, n=2), _ev(2, a="3"), _ev(3, a="4"), _ev(0, a="5")]}),
    ("type names that are SQL keywords or contain the LIKE wildcard _",
     {"descs": [_w("select", [["string", "from"]]), _w("table", [["string", "index"]]), _w("x_", [["string", "a_"]]),
                _w("Order/by", [["varint", "group"]])],
      "events": [_ev(0, **{"from": "1"}), _ev(1, index="2"), _ev(2, a_="3"), _ev(3, group=4), _ev(0, **{"from": "5"})]}),
]

WITNESSES = [
    ("type names t/x and T/X", KF_CASE, {"descs": [{"name": "t/x", "fields": [["string", "a"]]}, {"name": "T/X", "fields": [["string", "a"], ["varint", "n"]]}],
                                "events": [{"d": 0, "v": {"a": {"t": "s", "v": "1"}}}, {"d": 1, "v": {"a": {"t": "s", "v": "2"}, "n": {"t": "i", "v": "5"}}}]}),
    ("field names a and A in one descriptor", KF_CASE, {"descs": [{"name": "t/y", "fields": [["string", "a"], ["string", "A"]]}],
                                               "events": [{"d": 0, "v": {"a": {"t": "s", "v": "1"}, "A": {"t": "s", "v": "2"}}}]}),
    ("field A added to a type that has field a", KF_CASE, {"descs": [{"name": "t/z", "fields": [["string", "a"]]}, {"name": "t/z", "fields": [["string", "A"]]}],
                                                           "events": [{"d": 0, "v": {"a": {"t": "s", "v": "1"}}}, {"d": 1, "v": {"A": {"t": "s", "v": "2"}}}]}),
    ("type name sqlite_stat", KF_RESERVED, {"descs": [_w("sqlite_stat", [["string", "a"]])], "events": [_ev(0, a="1")]}),
    ("type name SQLite_Seq/x after another type", KF_RESERVED,
     {"descs": [_w("t/ok", [["string", "a"]]), _w("SQLite_Seq/x", [["string", "a"]])], "events": [_ev(0, a="1"), _ev(1, a="2")]}),
]

# outside the claim (not 64-bit): the model predicts OverflowError and the implementation must agree
OUTSIDE = [
    ("varint 2**63", {"descs": [{"name": "t/v", "fields": [["varint", "n"]]}],
                      "events": [{"d": 0, "v": {"n": {"t": "i", "v": "1"}}}, {"d": 0, "v": {"n": {"t": "i", "v": str(2 ** 63)}}}]}),
    ("varint -2**63-1", {"descs": [{"name": "t/v", "fields": [["varint", "n"]]}],
                         "events": [{"d": 0, "v": {"n": {"t": "i", "v": str(-2 ** 63 - 1)}}}]}),
]


def prune_descs(hist):
    used = sorted({ev["d"] for ev in hist["events"] if is_write(ev)})
    remap = {d: i for i, d in enumerate(used)}
    return {"descs": [hist["descs"][d] for d in used],
            "events": [ev if not is_write(ev) else {"d": remap[ev["d"]], "v": ev["v"]} for ev in hist["events"]]}


def shrink(work, hist, budget=150):
    """greedy removal of events (then of field values) while the property still fails on the implementation"""
    def fails(h):
        if case_collision(h) or reserved_name(h):
            return False
        try:
            recs, runs, readback = run_history(work, h, "shrink")
            return impl_verdict(h, recs, runs, readback)[0] is not None
        except Exception:  # noqa
            return False
    cur = hist
    changed = True
    while changed and budget > 0:
        changed = False
        for i in range(len(cur["events"]) - 1, -1, -1):
            if budget <= 0:
                break
            cand = {"descs": cur["descs"], "events": cur["events"][:i] + cur["events"][i + 1:]}
            budget -= 1
            if cand["events"] and fails(cand):
                cur, changed = cand, True
    cur = prune_descs(cur)
    for i, ev in enumerate(cur["events"]):            # unset field values that do not matter
        if not is_write(ev):
            continue
        for f in list(ev["v"]):
            if budget <= 0 or ev["v"][f] == {"t": "n"}:
                continue
            cand = json.loads(json.dumps(cur))
            cand["events"][i]["v"][f] = {"t": "n"}
            budget -= 1
            if fails(cand):
                cur = cand
    return cur


def report_failure(ctx, kf, hist, recs, runs, readback, why, batch, kind, extra=None):
    for fid, hit in ((KF_CASE, case_collision(hist)), (KF_RESERVED, reserved_name(hist))):
        f = [x for x in kf if x["id"] == fid]
        if hit and f:
            ctx.known_finding(f[0]["id"], f[0]["what"])
            return False
    if kind == "history":
        small = shrink(ctx.work, hist)
        if small != hist:
            recs, runs, readback = run_history(ctx.work, small, "shrunk")
            why2, b2 = impl_verdict(small, recs, runs, readback)
            if why2:
                extra = dict(extra or {}, original_history=hist)
                hist, batch = small, b2
                why = (why.split("; failing input: ")[0] + "; failing input: " + why2) if "; failing input: " in why else why2
    obj = dict(kind=kind, history=hist, batch=batch, what_fails=why,
               observed={str(b): dict(obs=runs[b]["obs"], error=runs[b]["error"]) for b in BATCHES},
               expected_visible_prefix={str(b): spec_last_commit(recs, b) for b in BATCHES})
    if extra:
        obj.update(extra)
    ctx.violation("%s; history of %d events over %d descriptors, batch size %s" % (why, len(hist["events"]), len(hist["descs"]), batch), obj)
    return True


def search(ctx, reason):
    """The proof / translator broke: look for a concrete failing history on the implementation."""
    kf = core.known_for("C18")
    rnd = random.Random(ctx.seed)
    t_end = time.time() + (50 if ctx.tier == "quick" else 400)
    k = 0
    fixed = [h for _, h in REGRESSION]
    while time.time() < t_end and k < (400 if ctx.tier == "quick" else 4000):
        hist = fixed[k] if k < len(fixed) else gen_history(rnd, max_events=14)
        k += 1
        try:
            recs, runs, readback = run_history(ctx.work, hist, "s%d" % k)
        except Exception as e:  # noqa
            ctx.violation("%s; and the implementation raised %s: %s on a generated history" % (reason, type(e).__name__, e),
                          dict(kind="history", reason=reason, history=hist, batch=None))
            return True
        ctx.count_case(("search", hist_digest(hist)))
        why, b = impl_verdict(hist, recs, runs, readback)
        if why:
            return report_failure(ctx, kf, hist, recs, runs, readback, reason + "; failing input: " + why, b, "history",
                                  dict(reason=reason))
    return False


def run(ctx):
    kf = core.known_for("C18")
    ctx.coverage["rule"] = (
        "a case = one generated history (1-5 descriptors over 1-3 type names incl. same-name descriptors that gain / reorder "
        "fields of every type and pairs of different definitions with the SAME identifier (name + 32-bit hash), valid mixed-case case-distinct names incl. SQL keywords and names that resemble SQLite-internal names / LIKE patterns, 3-22 events incl. explicit flushes and reopen events (several writer sessions on one file), values: text with "
        "quotes/unicode/NUL, ints at the 64-bit boundaries, finite floats by bit pattern, bytes, timestamps with offsets, None, "
        "other types as text) run with ONE batch size of {1,2,3,7,1000}; observed through a second sqlite3 connection after every "
        "event and after close and read back with SqliteReader; distinct = distinct (history, batch size); non-trivial = the "
        "history has at least 2 writes")
    ok = core.standard_proof_stage(ctx, ["props/C18.vo"], "C18", THEOREMS, search_fn=search, gens=["gen_sqlite"])
    ctx.assumptions += [
        "SQLite (sqlite3 module, isolation_level=None) is MODELLED, not verified: committed tables + pending statements of the "
        "open transaction; COMMIT moves them; another connection reads only committed state; DDL is transactional; closing a "
        "connection rolls an open transaction back; identifiers compare ASCII-case-insensitively; column affinity as in "
        "datatype3.html for the combinations the writer produces; table names beginning with sqlite_ are refused; the database file persists between writer sessions (int into TEXT column -> decimal text; -0.0 in a REAL column "
        "-> 0.0; NaN bound as NULL; int outside 64 bits -> OverflowError) -- validated by execution on every case",
        "str(value) of non-basic field values and datetime.isoformat() are inputs of the model (computed by CPython); "
        "datetime.fromisoformat(isoformat(t)) == t is checked on every timestamp read back, not proved",
        "histories in which a same-named field changes its TYPE between descriptors are outside the property (evolution = "
        "gaining fields); there SQLite's affinity converts values (e.g. text '12' into a BIGINT column becomes integer 12) and "
        "model/Sqlite.v does not claim exactness (affinity_exact = false)",
        "-0.0 written to a float field is read back as 0.0 (SQLite stores integral REAL values as integers); the model and "
        "C18_value_fidelity state this; the values are numerically equal",
    ]
    if not ok:
        return
    rnd = random.Random(ctx.seed)
    n_hist = 60 if ctx.tier == "quick" else 400
    max_events = 22 if ctx.tier == "quick" else 40

    cases, metas = [], []

    def add(hist, label, expect_ok=True):
        recs, runs, readback = run_history(ctx.work, hist, "h%d" % len(cases))
        cases.append(history_case(hist, recs, runs, readback))
        metas.append(dict(hist=hist, recs=recs, runs=runs, readback=readback, label=label))
        nwrites = sum(1 for e in hist["events"] if is_write(e))
        for b in BATCHES:
            ctx.count_case((hist_digest(hist), b), nontrivial=nwrites >= 2)
        return metas[-1]

    # 1. known-finding witnesses and out-of-claim inputs: the implementation must still behave as the model predicts
    for label, fid, hist in WITNESSES:
        m = add(hist, "witness: " + label)
        why, b = impl_verdict(hist, m["recs"], m["runs"], m["readback"])
        f = [x for x in kf if x["id"] == fid]
        if why and f:
            ctx.known_finding(f[0]["id"], f[0]["what"])
        elif why:
            ctx.violation("witness %s fails (%s) and known_findings.d/C18.json does not list %s" % (label, why, fid),
                          dict(kind="history", history=hist, batch=b, what_fails=why))
        else:
            ctx.notes.append("known finding no longer reproduces on witness: " + label)
    for label, hist in OUTSIDE:
        m = add(hist, "outside the claim: " + label)
        if not all(m["runs"][b]["error"] == "EOverflow" for b in BATCHES):
            ctx.notes.append("out-of-range integer no longer raises OverflowError: " + label)
    n_fixed = len(cases)
    for label, hist in REGRESSION:
        add(hist, "regression: " + label)

    # 2. generated histories
    for i in range(n_hist):
        hist = gen_history(rnd, max_events=max_events)
        m = add(hist, "generated %d" % i)
        if i < 3:
            ctx.sample(dict(history=hist, batch_sizes=BATCHES,
                            visible_rows_after_each_event={str(b): [sum(c for _, c in o[1]) if o[0] == "c" else o[1] for o in m["runs"][b]["obs"]]
                                                           for b in (2, 3)}))

    # 3. the property on the implementation directly (incl. batch independence of the final content)
    for m in metas[n_fixed:]:
        why, b = impl_verdict(m["hist"], m["recs"], m["runs"], m["readback"])
        if why:
            if report_failure(ctx, kf, m["hist"], m["recs"], m["runs"], m["readback"], why, b, "history"):
                return

    # 4. model = implementation, inside Coq
    failing, err = core.eval_bool_cases(ctx, HEADER, cases, shard_size=4 if ctx.tier == "quick" else 6, name="c18")
    if err:
        ctx.violation("correspondence shards did not evaluate: " + err[:300], dict(kind="coq-eval", log=err), no_input=True)
        return
    ctx.coverage["traces_validated_against_impl"] = (len(cases) - len(failing)) * len(BATCHES)
    ctx.coverage["histories"] = len(cases)
    ctx.coverage["events_total"] = sum(len(m["hist"]["events"]) for m in metas)
    ctx.coverage["observations_through_second_connection"] = sum(len(m["runs"][b]["obs"]) + 1 for m in metas for b in BATCHES)
    if failing:
        gen_failing = [i for i in failing if i >= n_fixed]
        m = metas[(gen_failing or failing)[0]]
        # which sub-check?
        sub = [history_case(m["hist"], m["recs"], m["runs"], m["readback"], parts=[p]) for p in PARTS]
        f2, err2 = core.eval_bool_cases(ctx, HEADER, sub, shard_size=4, name="c18diag")
        bad_parts = [PARTS[i] for i in (f2 or [])] if not err2 else ["?"]
        why = "model/Sqlite.v and the implementation disagree on %d of %d histories; first: %s, sub-checks %s" % (
            len(failing), len(cases), m["label"], bad_parts)
        report_failure(ctx, [], m["hist"], m["recs"], m["runs"], m["readback"], why, None, "correspondence",
                       dict(correspondence="C18 histories vs model/Sqlite.v", failing_subchecks=bad_parts,
                            implementation_final={str(BATCHES[0]): repr(m["runs"][BATCHES[0]]["final"])[:6000]},
                            model_final=model_final_text(ctx, m)[:6000]))


# ------------------------------------------------------------------------------------------

class _Ctx:
    def __init__(self):
        self.work = core.WORK / ("C18.replay.%d" % os.getpid())
        self.work.mkdir(parents=True, exist_ok=True)


def replay(obj):
    import shutil
    hist = obj.get("history")
    if not hist:
        print("replay of kind %s: re-run ./check C18" % obj.get("kind"))
        return 2
    c = _Ctx()
    try:
        recs, runs, readback = run_history(c.work, hist, "r")
        why, b = impl_verdict(hist, recs, runs, readback)
        for bb in BATCHES:
            print("batch %4d: rows visible to another connection after each event %s  expected %s" % (
                bb, [sum(x for _, x in o[1]) if o[0] == "c" else o[1] for o in runs[bb]["obs"]],
                [sum(counts_of(recs[:lc]).values()) for lc in spec_last_commit(recs, bb)]))
        if why:
            print("replay: property FAILS: %s (batch size %s)" % (why, b))
            return 1
        if obj.get("kind") == "correspondence":
            failing, err = core.eval_bool_cases(c, HEADER, [history_case(hist, recs, runs, readback)], shard_size=1, name="c18replay")
            if err or failing:
                print("replay: model and implementation still disagree (%s)" % (err[:200] if err else "case evaluates to false"))
                return 1
        print("replay: holds now")
        return 0
    finally:
        shutil.rmtree(c.work, ignore_errors=True)
