"""C15 -- record composition follows the documented precedence rules.

proof:   coq/props/C15.v (model/Compose.v: reference written from the wording = model written from the code, for all
         inputs; the model's guards/orders are GENERATED facts of gen/Gen_compose.v)
tie:     (T) tools/vf/factgen/c15.py regenerates the facts from the ast of base.py / stream.py on every run;
         (C) generated compositions are run on the implementation, deep-observed (inputs before/after, outputs)
         and compared (a) in Python with an oracle written from the property's wording and (b) inside Coq
         (vm_compute) with the model and with the reference on the same observation; values are opaque tokens.
"""
from __future__ import annotations

import datetime as pydt
import random
import re

from vf import core, recgen
from vf.coqlit import cbool, clist, cstr

THEOREMS = [
    "C15_generated_facts", "C15_generated_timestamp_record", "C15_generated_reserved_distinct", "C15_generated_purity_shapes", "C15_caches_keyed_by_definition", "C15_cache_identifier_key_refuted",
    "C15_merge_order_and_precedence", "C15_merge_wording", "C15_extend_values", "C15_originals_unchanged",
    "C15_expand", "C15_grouped_view", "C15_nested_group_flattens", "C15_nested_group_prefix_refuted", "C15_grouped_set", "C15_grouped_replace", "C15_replace_project_only_named",
    "C15_init_from_record",
    "C15_expand_prefix_refuted", "C15_expand_metadata_prefix_refuted", "C15_grouped_replace_prefix_refuted",
    "C15_hyp_satisfiable",
]

NAMES = ["a", "b", "ts", "ts_description", "x", "value", "c", "n"]
GROUP_ATTRS = ["name", "records", "descriptors", "flat_fields", "fieldname_to_record"]   # GroupedRecord's own attributes
TYPES = ["string", "varint", "datetime", "datetime", "float", "bytes", "boolean", "string[]", "path", "uri", "digest", "varint[]"]
RECNAMES = ["t/a", "t/b", "comp/x", "q", "t/a"]
UTC = pydt.timezone.utc
GENS = [pydt.datetime(2020, 1, 2, 3, 4, 5, 6, tzinfo=UTC), pydt.datetime(2021, 6, 7, 8, 9, 10, tzinfo=UTC),
        pydt.datetime(1999, 12, 31, 23, 59, 59, tzinfo=pydt.timezone(pydt.timedelta(hours=2)))]
NOW = ("now",)
IDENT = re.compile(rb"^[A-Za-z_][A-Za-z0-9_]{0,40}$")


# ------------------------------------------------------------------------------------------------
# observations: a record is dict(name, fields=[(name, typename, value-observation)], res=[4 observations])

def obs(r):
    from flow.record import GroupedRecord
    if isinstance(r, GroupedRecord):
        return obs_group(r)
    o = recgen.canon(recgen.obs_record(r, canonical_unset=True))
    n = len(o[2])
    return dict(name=o[1], fields=[(fn, ft, o[3][i]) for i, (ft, fn) in enumerate(o[2])], res=list(o[3][n:]))


RES_TYPES = [("_source", "string"), ("_classification", "string"), ("_generated", "datetime"), ("_version", "varint")]


def obs_group(g):
    """the flat view of a group: its flat descriptor and the value of every key of _asdict(); attribute access must give
    the same for every name that is not one of the group object's own attributes"""
    tuples = list(g._desc.get_field_tuples())
    ad = g._asdict()
    want_keys = [n for _, n in tuples] + [k for k, _ in RES_TYPES]
    if sorted(ad.keys()) != sorted(want_keys):
        raise Bad("GroupedRecord %r: _asdict() has the keys %r, its flat descriptor and the reserved fields are %r" % (
            g.name, list(ad.keys()), want_keys), dict(keys=list(ad.keys()), want=want_keys))
    fields = [(n, t, obs_value(t, ad[n])) for t, n in tuples]
    res = [obs_value(t, ad[k]) for k, t in RES_TYPES]
    for (n, t, v) in fields + [(k, t, res[i]) for i, (k, t) in enumerate(RES_TYPES)]:
        if n in GROUP_ATTRS:
            continue        # known finding C15-group-attribute-shadows-member-field (probed separately)
        try:
            a = obs_value(t, getattr(g, n))
        except Exception as e:  # noqa
            a = "raised %s: %s" % (type(e).__name__, e)
        if a != v:
            raise Bad("GroupedRecord %r: attribute %r reads %s but _asdict() gives %s" % (g.name, n, repr(a), repr(v)), dict(slot=n))
    return dict(name=g._desc.name, fields=fields, res=res)


def obs_value(typename, v):
    return recgen.canon(recgen.obs_value(typename, v, canonical_unset=True))


def converted(typename, v):
    """observation of v after the field type's conversion (what setattr / the constructor store)"""
    from flow.record import RecordDescriptor
    d = RecordDescriptor("tmp/conv", [(typename, "f")])
    return obs_value(typename, d(f=v, _generated=GENS[0]).f)


def default_of(typename):
    from flow.record import RecordDescriptor
    d = RecordDescriptor("tmp/conv", [(typename, "f")])
    return obs_value(typename, d(_generated=GENS[0]).f)


VER = ("int", 1)
NONE = ("none",)
_STR = {}


def str_obs(s):
    """observation of the python str s held by a string field (whatever shape recgen gives it)"""
    if s not in _STR:
        _STR[s] = obs_value("string", s)
    return _STR[s]


class Tokens:
    def __init__(self):
        self.ids = {repr(NOW): 0}

    def tok(self, o):
        if o == NONE:
            return "VNone"
        if isinstance(o, tuple) and len(o) >= 2 and o[0] == "str" and IDENT.match(o[1]) and o == str_obs(o[1].decode()):
            return '(VName "%s")' % o[1].decode()
        k = repr(o)
        if k not in self.ids:
            self.ids[k] = len(self.ids)
        return "(VTok %d%%N)" % self.ids[k]

    def rec(self, r):
        return "(@mkRec val %s %s %s)" % (
            cstr(r["name"]),
            clist(['(%s, (%s, %s))' % (cstr(n), cstr(t), self.tok(v)) for n, t, v in r["fields"]]),
            clist([self.tok(v) for v in r["res"]]))

    def recs(self, rs):
        return clist([self.rec(r) for r in rs])

    def desc(self, d):
        return clist(["(%s, %s)" % (cstr(n), cstr(t)) for n, t in d])

    def kw(self, kw):
        return clist(["(%s, %s)" % (cstr(k), self.tok(v)) for k, v in kw])

    def strs(self, l):
        return clist([cstr(s) for s in l])


def header(T):
    dfl = clist(["(%s, %s)" % (cstr(t), T.tok(default_of(t))) for t in sorted(set(TYPES))])
    return """From Coq Require Import List Bool String NArith.
Import ListNotations.
From FR Require Import Compose Gen_compose.
Open Scope string_scope.
Definition RES := gen_reserved.
Definition F := gen_facts.
Definition vver : val := %s.
Definition dflt (t : string) : val := match assoc t %s with Some v => v | None => VNone end.
Definition tsres : list val := [VNone; VNone; %s; vver].
Definition desc_eqb (a b : list (string * string)) : bool :=
  list_eqb (fun x y => String.eqb (fst x) (fst y) && String.eqb (snd x) (snd y)) a b.
Definition mk_group := @p_group_make val RES gen_group_attrs F.
Definition view := @p_group_view val RES dflt F.
Definition ogroup_ok (o : option (@group val)) (ok : bool) (ms : list (@rec val)) (v : @rec val) : bool :=
  match o with
  | Some g => ok && recs_eqb (gmembers g) ms && rec_eqb (view g) v
  | None => negb ok
  end.
Definition omembers_ok (o : option (list (@rec val))) (ok : bool) (ms : list (@rec val)) : bool :=
  match o with Some l => ok && recs_eqb l ms | None => negb ok end.
""" % (T.tok(VER), dfl, T.tok(NOW))


# ------------------------------------------------------------------------------------------------
# the oracle, written from the wording of the property (dictionaries)

def ref_merge(descs, replace):
    order = []
    for d in descs:
        for n, t in d:
            if n not in order:
                order.append(n)
    out = []
    for n in order:
        holders = [dict(d) for d in descs if n in dict(d)]
        out.append((n, (holders[-1] if replace else holders[0])[n]))
    return out


def ref_extend(recs, replace, name):
    order = []
    for r in recs:
        for n, t, v in r["fields"]:
            if n not in order:
                order.append(n)
    fields = []
    for n in order:
        holders = [r for r in recs if n in [f[0] for f in r["fields"]]]
        h = holders[-1] if replace else holders[0]
        fields.append([f for f in h["fields"] if f[0] == n][0])
    h = recs[-1] if replace else recs[0]
    return dict(name=name if name is not None else recs[0]["name"], fields=fields, res=list(h["res"][:3]) + [VER])


def ref_expand(r):
    tsf = [f for f in r["fields"] if f[1] == "datetime"]
    if not tsf:
        return [r]
    out = []
    for n, t, v in tsf:
        fields = [("ts", "datetime", v), ("ts_description", "string", str_obs(n))]
        fields += [f for f in r["fields"] if f[0] not in ("ts", "ts_description")]
        out.append(dict(name=r["name"], fields=fields, res=list(r["res"][:3]) + [VER]))   # the original's metadata
    return out


RESERVED = ["_source", "_classification", "_generated", "_version"]


def slots(r):
    return [f[0] for f in r["fields"]] + RESERVED


def ref_group_view(name, members):
    e = ref_extend(members, False, name)
    return dict(name=name, fields=e["fields"], res=list(members[0]["res"]))


def set_slot(r, k, v):
    fields = [(n, t, v if n == k else ov) for n, t, ov in r["fields"]]
    res = [v if RESERVED[i] == k else ov for i, ov in enumerate(r["res"])]
    return dict(name=r["name"], fields=fields, res=res)


def ref_group_set(members, k, v):
    out = []
    done = False
    for m in members:
        if not done and k in slots(m):
            out.append(set_slot(m, k, v))
            done = True
        else:
            out.append(m)
    return out


def ref_replace(r, kw):
    """kw: list of (name, converted value).  None = ValueError"""
    if any(k not in slots(r) for k, _ in kw):
        return None
    out = r
    for k, v in kw:
        out = set_slot(out, k, v)
    out = dict(out)
    out["res"] = list(out["res"][:3]) + [VER]
    return out


def ref_group_replace(members, kw):
    if any(all(k not in slots(m) for m in members) for k, _ in kw):
        return None
    out = []
    for i, m in enumerate(members):
        mine = [(k, v) for k, v in kw if k in slots(m) and all(k not in slots(p) for p in members[:i])]
        out.append(ref_replace(m, mine))
    return out


def ref_project(r, fields, exclude):
    if not fields and not exclude:
        return r
    byname = {f[0]: f for f in r["fields"]}
    if fields:
        fl = [byname[n] for n in fields if n not in exclude and n in byname]
    else:
        fl = [f for f in r["fields"] if f[0] not in exclude]
    return dict(name=r["name"], fields=fl, res=list(r["res"][:3]) + [VER])


def ref_init_from(desc_name, desc, r, defaults):
    byname = {f[0]: f for f in r["fields"]}
    fl = [(n, t, byname[n][2] if n in byname else defaults[t]) for n, t in desc]
    return dict(name=desc_name, fields=fl, res=list(r["res"][:3]) + [VER])


# ------------------------------------------------------------------------------------------------
# generation

PREUSE = ["get_all_fields", "definition", "group", "asdict", "extend", "merge", "getfields", "fields", "pack", "jsonpack",
          "expand", "rewrite", "repr", "init_from_record"]


class CaseGen:
    def __init__(self, rnd):
        self.rnd = rnd
        self.made = []        # (descriptor object, declared (type, name) tuples)
        self.history = []     # what the descriptors/records were used for BEFORE the operation under test

    def fields(self, lo=0, hi=5, force_ts=None, extra=()):
        rnd = self.rnd
        k = rnd.randint(lo, hi)
        pool = NAMES + list(extra) * 2
        names = rnd.sample(pool, min(k, len(pool)))
        names = list(dict.fromkeys(names))
        out = [(rnd.choice(TYPES), n) for n in names]
        if force_ts is not None:
            # 0..3 datetime fields at any position, the rest of other types
            out = [(t if t != "datetime" else "string", n) for t, n in out]
            idx = rnd.sample(range(len(out)), min(force_ts, len(out)))
            out = [("datetime", n) if i in idx else (t, n) for i, (t, n) in enumerate(out)]
        return out

    def descriptor(self, **kw):
        from flow.record import RecordDescriptor
        fl = self.fields(**kw)
        d = RecordDescriptor(self.rnd.choice(RECNAMES), fl)
        self.made.append((d, list(fl)))
        return d

    def record(self, d, preuse=True):
        rnd = self.rnd
        kw = {n: (self.listval(t[:-2]) if t.endswith("[]") else recgen.value_sample(rnd, t)) for t, n in d.get_field_tuples()}
        r = d(_source=rnd.choice([None, "src", "host1"]), _classification=rnd.choice([None, "secret"]),
              _generated=rnd.choice(GENS), **kw)
        if preuse and rnd.random() < 0.5:
            for _ in range(rnd.randint(1, 3)):
                self.use(d, r, rnd.choice(PREUSE))
        return r

    def use(self, d, r, op):
        """something else happens to the descriptor / record first (a history); none of it may change the record or what
        the descriptor reports"""
        from flow.record import GroupedRecord, extend_record, iter_timestamped_records
        from flow.record.base import merge_record_descriptors
        self.history.append("%s on %s%r" % (op, d.name, list(d.get_field_tuples())))
        try:
            if op == "get_all_fields":
                d.get_all_fields()
            elif op == "definition":
                d.definition()
            elif op == "group":
                GroupedRecord("pre/g", [r])._asdict()
            elif op == "asdict":
                r._asdict()
            elif op == "extend":
                extend_record(r, [r])
            elif op == "merge":
                merge_record_descriptors((d, d))
            elif op == "getfields":
                d.getfields("datetime")
            elif op == "fields":
                list(d.fields)
            elif op == "pack":
                from flow.record.packer import RecordPacker
                RecordPacker().pack(r)
            elif op == "jsonpack":
                from flow.record.jsonpacker import JsonRecordPacker
                JsonRecordPacker().pack(r)
            elif op == "expand":
                list(iter_timestamped_records(r))
            elif op == "rewrite":
                from flow.record.stream import RecordFieldRewriter
                RecordFieldRewriter(exclude=["zz"]).rewrite(r)
            elif op == "repr":
                repr(r)
            elif op == "init_from_record":
                d.init_from_record(r)
        except Exception:  # noqa -- what these calls themselves do is the subject of other checks
            pass

    def check_descriptors(self, what):
        """no operation changes what a descriptor reports: fields / get_field_tuples / getfields(t) / get_all_fields equal
        the DECLARED field tuples"""
        for d, decl in self.made:
            got_fields = [(f.typename, n) for n, f in d.fields.items()]
            by_type = {}
            for t, n in decl:
                by_type.setdefault(t, []).append(n)
            problems = []
            if got_fields != decl:
                problems.append("descriptor.fields = %r" % (got_fields,))
            if list(d.get_field_tuples()) != decl:
                problems.append("get_field_tuples() = %r" % (list(d.get_field_tuples()),))
            for t in sorted(set(by_type) | {"datetime", "string", "varint"}):
                gf = [f.name for f in d.getfields(t)]
                if gf != by_type.get(t, []):
                    problems.append("getfields(%r) = %r" % (t, gf))
            allf = list(d.get_all_fields())
            if allf != [n for _, n in decl] + [k for k, _ in RES_TYPES]:
                problems.append("get_all_fields() = %r" % (allf,))
            if problems:
                raise Bad("after %s the descriptor %s declared as %r reports %s" % (what, d.name, decl, "; ".join(problems)),
                          dict(declared=repr(decl), problems=problems))

    def listval(self, et):
        rnd = self.rnd
        if rnd.random() < 0.15:
            return None
        out = []
        for _ in range(rnd.randrange(3)):
            v = recgen.value_sample(rnd, et)
            if v is not None:
                out.append(v)
        return out

    def newvalue(self, typename):
        rnd = self.rnd
        for _ in range(20):
            v = self.listval(typename[:-2]) if typename.endswith("[]") else recgen.value_sample(rnd, typename)
            if v is not None:
                return v
        return None


class Bad(Exception):
    def __init__(self, what, detail):
        super().__init__(what)
        self.what = what
        self.detail = detail


def describe(r):
    return "%s%r" % (r["name"], [(t, n) for n, t, _ in r["fields"]])


def same(a, b):
    return a == b


def check_unchanged(before, objs, what):
    after = [obs(o) for o in objs]
    if after != before:
        raise Bad("%s modified one of its input records" % what, dict(before=repr(before), after=repr(after)))


def type_of_slot(members, k):
    for m in members:
        for n, t, _ in m["fields"]:
            if n == k:
                return t
    return {"_source": "string", "_classification": "string", "_generated": "datetime", "_version": "varint"}.get(k)


# Each case function returns (list of Coq bool terms, canonical case description, nontrivial) and raises Bad when the
# implementation's result differs from the oracle.

def repeated_descriptors(g):
    """a sequence of 3-5 descriptors drawn from 2-3 distinct ones that declare a shared field name with DIFFERENT types, so
    that a record TYPE recurs after another one (A, B, A ...); a repeat is the same descriptor object or an equal
    descriptor built again"""
    from flow.record import RecordDescriptor
    rnd = g.rnd
    shared = rnd.choice(["key", "a", "value"])
    types = rnd.sample(["string", "varint", "bytes", "float", "datetime", "string[]", "uri"], 3)
    base = []
    for i in range(rnd.randint(2, 3)):
        fl = g.fields(lo=0, hi=3)
        fl = [(t, n) for t, n in fl if n != shared]
        fl.insert(rnd.randint(0, len(fl)), (types[i], shared))
        d = RecordDescriptor(rnd.choice(["rep/a", "rep/b", "t/a"]) if i else "rep/a", fl)
        g.made.append((d, list(fl)))
        base.append(d)
    order = [0, 1, 0] + [rnd.randrange(len(base)) for _ in range(rnd.randint(0, 2))]
    if rnd.random() < 0.5:
        rnd.shuffle(order)
    out = []
    for i in order:
        d = base[i]
        if rnd.random() < 0.4:      # an equal descriptor, built again
            d = RecordDescriptor(d.name, list(d.get_field_tuples()))
            g.made.append((d, [tuple(x) for x in d.get_field_tuples()]))
        out.append(d)
    return out


def case_merge(g, T):
    from flow.record.base import merge_record_descriptors
    rnd = g.rnd
    descs = repeated_descriptors(g) if rnd.random() < 0.3 else [g.descriptor() for _ in range(rnd.randint(1, 4))]
    replace = rnd.random() < 0.5
    name = rnd.choice([None, None, "new/name"])
    out = merge_record_descriptors(tuple(descs), replace, name)
    din = [[(n, t) for t, n in d.get_field_tuples()] for d in descs]
    dout = [(n, t) for t, n in out.get_field_tuples()]
    want = ref_merge(din, replace)
    wname = name if name is not None else descs[0].name
    canon = ("merge", replace, name, tuple(tuple(d) for d in din))
    if dout != want or out.name != wname:
        raise Bad("merge_record_descriptors(%r, replace=%r, name=%r) gave %s %r, the precedence rules give %s %r" % (
            [(d.name, d.get_field_tuples()) for d in descs], replace, name, out.name, dout, wname, want),
            dict(got=repr(dout), want=repr(want)))
    ds = clist([T.desc(d) for d in din])
    terms = ["desc_eqb (p_merge_descs F %s %s) %s && desc_eqb (ref_merge %s %s) %s" % (
        cbool(replace), ds, T.desc(dout), cbool(replace), ds, T.desc(dout))]
    overlap = len({n for d in din for n, _ in d}) < sum(len(d) for d in din)
    return terms, canon, overlap


def case_extend(g, T):
    from flow.record import extend_record
    rnd = g.rnd
    replace = rnd.random() < 0.5
    mode = rnd.random()
    if mode < 0.25:
        recs = [g.record(d) for d in repeated_descriptors(g)]       # a record TYPE recurs later in the list
    elif mode < 0.45:
        # 2-3 records share a field; the record that wins the precedence (first; last with replace) holds None for it,
        # the others hold a value: None must win
        from flow.record import RecordDescriptor
        shared = rnd.choice(["key", "a", "value"])
        n = rnd.choice([2, 2, 3])
        winner = n - 1 if replace else 0
        recs = []
        for i in range(n):
            t = rnd.choice(["string", "varint", "datetime", "float", "bytes", "uri"]) if rnd.random() < 0.5 else "string"
            fl = [(tt, nn) for tt, nn in g.fields(lo=0, hi=3) if nn != shared]
            fl.insert(rnd.randint(0, len(fl)), (t, shared))
            d = RecordDescriptor(rnd.choice(RECNAMES), fl)
            g.made.append((d, list(fl)))
            r = g.record(d, preuse=False)
            setattr(r, shared, None if i == winner else g.newvalue(t))
            if rnd.random() < 0.5:          # the same for a reserved slot
                r._source = None if i == winner else "src%d" % i
            recs.append(r)
    else:
        recs = [g.record(g.descriptor()) for _ in range(rnd.randint(1, 4))]
    name = rnd.choice([None, None, "new/name"])
    before = [obs(r) for r in recs]
    try:
        out = obs(extend_record(recs[0], recs[1:], replace=replace, name=name))
        err = None
    except Exception as e:  # noqa
        out, err = None, "%s: %s" % (type(e).__name__, e)
    want = ref_extend(before, replace, name)
    canon = ("extend", replace, name, repr(before))
    what = "extend_record(%s, replace=%r, name=%r)" % ([describe(r) for r in before], replace, name)
    if out != want:
        raise Bad("%s gave %s, the precedence rules give %s" % (what, err or repr(out), repr(want)), dict(got=repr(out), want=repr(want), error=err))
    check_unchanged(before, recs, what)
    nm = "None" if name is None else "(Some %s)" % cstr(name)
    args = "%s %s %s %s" % (cbool(replace), nm, T.rec(before[0]), T.recs(before[1:]))
    terms = ["orec_eqb (p_extend RES vver dflt F %s) (Some %s) && rec_eqb (ref_extend RES vver %s) %s" % (args, T.rec(out), args, T.rec(out))]
    names = [n for r in before for n, _, _ in r["fields"]]
    return terms, canon, len(set(names)) < len(names)


def case_expand(g, T):
    from flow.record import iter_timestamped_records
    rnd = g.rnd
    mode = rnd.random()
    if mode < 0.3:
        # the record type itself has fields called ts / ts_description: in the first two positions with the very types of
        # the timestamp record, swapped, later, only one of them, with other types; plus further datetime fields
        from flow.record import RecordDescriptor
        lay = rnd.choice([[("datetime", "ts"), ("string", "ts_description")], [("datetime", "ts"), ("string", "ts_description")],
                          [("string", "ts_description"), ("datetime", "ts")], [("datetime", "ts")], [("string", "ts_description")],
                          [("string", "ts"), ("datetime", "ts_description")], [("varint", "ts"), ("string", "ts_description")],
                          [("datetime", "ts"), ("datetime", "ts_description")]])
        rest = [(t, n) for t, n in g.fields(lo=0, hi=4, force_ts=rnd.randint(0, 2)) if n not in ("ts", "ts_description")]
        pos = 0 if rnd.random() < 0.6 else rnd.randint(0, len(rest))
        fl = rest[:pos] + lay + rest[pos:]
        d = RecordDescriptor(rnd.choice(RECNAMES), fl)
        g.made.append((d, list(fl)))
        r = g.record(d)
    elif mode < 0.45:
        # the OUTPUT of an expansion is expanded again
        first = g.record(g.descriptor(lo=1, hi=5, force_ts=rnd.randint(1, 3)))
        outs0 = list(iter_timestamped_records(first))
        r = rnd.choice(outs0)
    else:
        r = g.record(g.descriptor(lo=0, hi=6, force_ts=rnd.randint(0, 3)))
    before = obs(r)
    what = "iter_timestamped_records(%s)%s" % (describe(before), " (itself an output of iter_timestamped_records)" if 0.3 <= mode < 0.45 else "")
    try:
        outs = list(iter_timestamped_records(r))
        err = None
    except Exception as e:  # noqa
        outs, err = None, "%s: %s" % (type(e).__name__, e)
    want = ref_expand(before)
    got = None
    if outs is not None:
        if len(outs) == 1 and outs[0] is r:
            got = [before]
        else:
            got = [obs(o) for o in outs]
    if got != want:
        raise Bad("%s yielded %s, expected one record per datetime field with ts = the original value of that field and the "
                  "original record's _source/_classification/_generated: %s" % (
            what, err or repr(got), repr(want)), dict(got=repr(got), want=repr(want), error=err, record=repr(before)))
    check_unchanged([before], [r], what)
    terms = ["orecs_eqb (p_iter_timestamped RES vver VName dflt gen_ts tsres F gen_ts_extends_previous %s) (Some %s) && recs_eqb (ref_expand RES vver VName gen_ts %s) %s" % (
        T.rec(before), T.recs(got), T.rec(before), T.recs(got))]
    nts = len([f for f in before["fields"] if f[1] == "datetime"])
    special = any(f[0] in ("ts", "ts_description") for f in before["fields"])
    return terms, ("expand", repr(before)), nts >= 1 and (nts >= 2 or special)


def build_group(g, depth=0):
    """-> (python GroupedRecord, name, args) ; args: records or nested (group, name, args) triples.  Member fields may be
    called like one of GroupedRecord's own attributes, also inside nested groups."""
    from flow.record import GroupedRecord
    rnd = g.rnd
    name = rnd.choice(["grp/x", "g", "grp/y"])
    args = []
    for _ in range(rnd.randint(1 if depth else 2, 3)):
        if depth < 2 and rnd.random() < 0.25:
            args.append(build_group(g, depth + 1))
        else:
            args.append(g.record(g.descriptor(lo=0, hi=4, extra=GROUP_ATTRS)))
    try:
        py = GroupedRecord(name, [a[0] if isinstance(a, tuple) else a for a in args])
    except Exception as e:  # noqa
        raise Bad("GroupedRecord(%r, %s) raised %s: %s" % (name, [describe(obs(m)) for m in group_members(args)], type(e).__name__, e),
                  dict(error=repr(e)))
    return py, name, args


def probe_known(ctx):
    """member fields called like an attribute of the group object: the nested-group case (repaired by 9fb63bd) must hold,
    plain attribute access is a listed finding"""
    from flow.record import GroupedRecord, RecordDescriptor
    kf = {f["id"]: f for f in core.known_for("C15")}
    A = RecordDescriptor("probe/user", [("string", "name"), ("varint", "uid")])
    inner = GroupedRecord("grp/i", [A(name="alice", uid=1, _generated=GENS[0])])
    outer = GroupedRecord("grp/o", [inner])
    got = outer._asdict().get("name")
    if got != "alice":
        ctx.violation("GroupedRecord('grp/o', [GroupedRecord('grp/i', [probe/user(name='alice', uid=1)])])._asdict()['name'] is %r, "
                      "expected the member's value 'alice' (the flat view of a nested group is that of the flattened members)" % (got,),
                      dict(kind="group-attribute-probe", finding="nested-group-attribute-name", got=repr(got)))
        return
    g = GroupedRecord("grp/p", [A(name="alice", uid=1, _generated=GENS[0])])
    fid = "C15-group-attribute-shadows-member-field"
    got = getattr(g, "name")
    if got == "alice":
        ctx.notes.append("known finding %s no longer reproduces" % fid)
    elif got == "grp/p" and fid in kf:
        ctx.known_finding(fid, kf[fid]["what"])
    else:
        ctx.violation("GroupedRecord('grp/p', [probe/user(name='alice')]).name is %r, expected the member's value 'alice'" % (got,),
                      dict(kind="group-attribute-probe", finding=fid, got=repr(got)))


def group_members(args):
    out = []
    for a in args:
        if isinstance(a, tuple):
            out += group_members(a[2])
        else:
            out.append(a)
    return out


def group_term(T, name, args):
    items = []
    for a in args:
        if isinstance(a, tuple):
            items.append("AGrp %s" % group_term(T, a[1], a[2]))
        else:
            items.append("ARec %s" % T.rec(obs(a)))
    return "(mk_group %s %s)" % (cstr(name), clist(items))


def case_group(g, T):
    rnd = g.rnd
    py, name, args = build_group(g)
    members = group_members(args)
    mobs = [obs(m) for m in members]
    gterm = group_term(T, name, args)
    what = "GroupedRecord(%r, %s)" % (name, [describe(m) for m in mobs])
    if [id(m) for m in py.records] != [id(m) for m in members]:
        raise Bad("%s does not hold the flattened members in order" % what, dict(members=repr(mobs)))
    try:
        view = obs(py)
        err = None
    except Exception as e:  # noqa
        view, err = None, "%s: %s" % (type(e).__name__, e)
    want = ref_group_view(name, mobs)
    if view != want:
        raise Bad("%s exposes %s, the union of the members' fields with the first member winning is %s" % (what, err or repr(view), repr(want)),
                  dict(got=repr(view), want=repr(want), error=err))
    check_unchanged(mobs, members, what)
    terms = ["rec_eqb (view %s) %s && recs_eqb (gmembers %s) %s && rec_eqb (ref_group_view RES dflt %s %s) %s" % (
        gterm, T.rec(view), gterm, T.recs(mobs), cstr(name), T.recs(mobs), T.rec(view))]
    shadow = len({f[0] for m in mobs for f in m["fields"]}) < sum(len(m["fields"]) for m in mobs)
    # set through the group
    allslots = [f[0] for f in view["fields"]] + RESERVED[:3]
    k = rnd.choice(allslots)
    t = type_of_slot(mobs, k)
    v = g.newvalue(t)
    if v is not None:
        cv = converted(t, v)
        setattr(py, k, v)
        after = [obs(m) for m in members]
        wanta = ref_group_set(mobs, k, cv)
        if after != wanta:
            raise Bad("setting %r through %s changed the members to %s, expected only the first member having it to change: %s" % (
                k, what, repr(after), repr(wanta)), dict(got=repr(after), want=repr(wanta), slot=k))
        got_back = obs_value(t, py._asdict()[k] if k in GROUP_ATTRS else getattr(py, k))
        if got_back != cv:
            raise Bad("reading %r back through %s gives %s after setting %s" % (k, what, repr(got_back), repr(cv)), dict(slot=k))
        terms.append("recs_eqb (gmembers (group_set RES %s %s %s)) %s" % (gterm, cstr(k), T.tok(cv), T.recs(after)))
    return terms, ("group", name, repr(mobs), k), shadow


def make_kw(g, members_obs, allow_unknown=True):
    """keyword arguments for _replace: 0-3 names (fields of the members, reserved, unknown), python values and their
    converted observations"""
    rnd = g.rnd
    pool = sorted({f[0] for m in members_obs for f in m["fields"]}) + ["_source", "_classification", "_generated", "_version"]
    if allow_unknown:
        pool += ["zz", "unknown_field"]
    kw = {}
    okw = []
    for k in rnd.sample(pool, min(len(pool), rnd.choice([0, 1, 1, 2, 2, 3]))):
        t = type_of_slot(members_obs, k)
        if t is None:
            v, cv = "u", str_obs("u")
        elif k == "_version":
            v, cv = 7, VER
        else:
            v = g.newvalue(t)
            if v is None:
                continue
            cv = converted(t, v)
        kw[k] = v
        okw.append((k, cv))
    return kw, okw


def case_group_replace(g, T):
    py, name, args = build_group(g)
    members = group_members(args)
    mobs = [obs(m) for m in members]
    gterm = group_term(T, name, args)
    kw, okw = make_kw(g, mobs)
    what = "GroupedRecord(%r, %s)._replace(%s)" % (name, [describe(m) for m in mobs], ", ".join(sorted(kw)))
    try:
        new = py._replace(**kw)
        got = [obs(m) for m in new.records]
        gview = obs(new)
        err = None
    except ValueError as e:
        got, gview, err = None, None, "ValueError: %s" % e
    except Exception as e:  # noqa
        got, gview, err = "raised", None, "%s: %s" % (type(e).__name__, e)
    want = ref_group_replace(mobs, okw)
    if got != want:
        raise Bad("%s gave members %s, expected every member to keep its own values except the named fields (in the first member "
                  "having them): %s" % (what, err or repr(got), "ValueError" if want is None else repr(want)),
                  dict(got=repr(got), want=repr(want), error=err, members=repr(mobs), kw=repr(okw)))
    if want is not None:
        wview = ref_group_view(name, want)
        if gview != wview:
            raise Bad("%s: the new group exposes %s, expected %s" % (what, repr(gview), repr(wview)), dict(got=repr(gview), want=repr(wview)))
    check_unchanged(mobs, members, what)
    ok = want is not None
    terms = ["ogroup_ok (p_group_replace RES vver dflt gen_group_attrs F %s %s) %s %s %s && omembers_ok (ref_group_replace RES vver %s %s) %s %s" % (
        gterm, T.kw(okw), cbool(ok), T.recs(got or []), T.rec(gview) if ok else T.rec(mobs[0]),
        T.recs(mobs), T.kw(okw), cbool(ok), T.recs(got or []))]
    shadow = len({f[0] for m in mobs for f in m["fields"]}) < sum(len(m["fields"]) for m in mobs)
    return terms, ("greplace", name, repr(mobs), repr(okw)), shadow and bool(okw)


def case_rec_replace(g, T):
    r = g.record(g.descriptor())
    before = obs(r)
    kw, okw = make_kw(g, [before])
    what = "%s._replace(%s)" % (describe(before), ", ".join(sorted(kw)))
    try:
        got = obs(r._replace(**kw))
        err = None
    except ValueError as e:
        got, err = None, "ValueError: %s" % e
    except Exception as e:  # noqa
        got, err = "raised", "%s: %s" % (type(e).__name__, e)
    want = ref_replace(before, okw)
    if got != want:
        raise Bad("%s gave %s, expected only the named fields to change: %s" % (what, err or repr(got), "ValueError" if want is None else repr(want)),
                  dict(got=repr(got), want=repr(want), error=err))
    check_unchanged([before], [r], what)
    o = "(Some %s)" % T.rec(got) if got is not None else "None"
    terms = ["orec_eqb (p_rec_replace RES vver dflt F %s %s) %s && orec_eqb (ref_replace RES vver %s %s) %s" % (
        T.rec(before), T.kw(okw), o, T.rec(before), T.kw(okw), o)]
    return terms, ("rreplace", repr(before), repr(okw)), bool(okw)


def case_rewrite(g, T):
    from flow.record.stream import RecordFieldRewriter
    rnd = g.rnd
    if rnd.random() < 0.15:
        py, name, args = build_group(g)
        r = py
        members = group_members(args)
        rterm = "(view %s)" % group_term(T, name, args)
    else:
        r = g.record(g.descriptor(lo=0, hi=6))
        members = [r]
        rterm = None
    before = obs(r)
    mbefore = [obs(m) for m in members]
    if rterm is None:
        rterm = T.rec(before)
    pool = [f[0] for f in before["fields"]] + ["zz", "nope", "_source", "_generated", "_version"] + NAMES
    fields = [rnd.choice(pool) for _ in range(rnd.choice([0, 0, 1, 2, 3, 4]))]
    if rnd.random() < 0.8:
        fields = list(dict.fromkeys(fields))
    exclude = [rnd.choice(pool) for _ in range(rnd.choice([0, 0, 1, 2, 3]))]
    what = "RecordFieldRewriter(fields=%r, exclude=%r).rewrite(%s)" % (fields, exclude, describe(before))
    try:
        out = RecordFieldRewriter(fields=fields or None, exclude=exclude or None).rewrite(r)
        got = obs(out)
        err = None
    except Exception as e:  # noqa
        out, got, err = None, None, "%s: %s" % (type(e).__name__, e)
    want = ref_project(before, fields, exclude)
    if got != want:
        raise Bad("%s gave %s, expected %s" % (what, err or repr(got), repr(want)), dict(got=repr(got), want=repr(want), error=err))
    if not fields and not exclude and out is not r:
        raise Bad("%s did not return the record itself" % what, {})
    check_unchanged(mbefore, members, what)
    terms = ["orec_eqb (p_rewrite RES vver dflt F %s %s %s) (Some %s) && rec_eqb (ref_project RES vver %s %s %s) %s" % (
        rterm, T.strs(fields), T.strs(exclude), T.rec(got), rterm, T.strs(fields), T.strs(exclude), T.rec(got))]
    return terms, ("rewrite", repr(before), tuple(fields), tuple(exclude)), bool(fields or exclude)


def case_init(g, T, defaults):
    from flow.record import RecordDescriptor
    rnd = g.rnd
    r = g.record(g.descriptor(lo=0, hi=5))
    before = obs(r)
    # target descriptor: some of r's fields (same types, any order) plus fields r does not have
    mine = [(t, n) for n, t, _ in before["fields"]]
    rnd.shuffle(mine)
    keep = mine[: rnd.randint(0, len(mine))]
    extra = [(rnd.choice(TYPES), n) for n in rnd.sample([n for n in NAMES if n not in [f[0] for f in before["fields"]]], rnd.randint(0, 2))]
    tf = keep + extra
    rnd.shuffle(tf)
    D = RecordDescriptor(rnd.choice(RECNAMES), tf)
    what = "RecordDescriptor(%r, %r).init_from_record(%s)" % (D.name, tf, describe(before))
    try:
        got = obs(D.init_from_record(r))
        err = None
    except Exception as e:  # noqa
        got, err = None, "%s: %s" % (type(e).__name__, e)
    dsc = [(n, t) for t, n in tf]
    want = ref_init_from(D.name, dsc, before, defaults)
    if got != want:
        raise Bad("%s gave %s, expected %s" % (what, err or repr(got), repr(want)), dict(got=repr(got), want=repr(want), error=err))
    unknown = [f[0] for f in before["fields"] if f[0] not in [n for n, _ in dsc]]
    try:
        D.init_from_record(r, raise_unknown=True)
        raised = False
    except TypeError:
        raised = True
    if raised != bool(unknown):
        raise Bad("%s with raise_unknown=True %s although the record has %s unknown fields" % (
            what, "raised" if raised else "did not raise", "these" if unknown else "no"), dict(unknown=unknown))
    check_unchanged([before], [r], what)
    terms = ["orec_eqb (p_init_from_dict RES vver dflt F %s %s (keys (asdict RES %s)) (rec_get RES %s)) (Some %s)" % (
        cstr(D.name), T.desc(dsc), T.rec(before), T.rec(before), T.rec(got))]
    return terms, ("init", repr(before), tuple(tf)), bool(unknown or extra)


def case_asdict(g, T):
    """the flat view through _asdict(), _asdict(fields=), _asdict(exclude=) and both, for groups and plain records"""
    rnd = g.rnd
    if rnd.random() < 0.75:
        x, name, args = build_group(g)
        members = group_members(args)
    else:
        x = g.record(g.descriptor(lo=0, hi=5, extra=GROUP_ATTRS))
        members = [x]
    mobs = [obs(m) for m in members]
    view = obs(x) if len(members) != 1 or x is not members[0] else mobs[0]
    want_view = ref_group_view(view["name"], mobs) if x is not members[0] else mobs[0]
    if view != want_view:
        raise Bad("%s exposes %s through _asdict(), expected %s" % (describe(view), repr(view), repr(want_view)), dict(got=repr(view), want=repr(want_view)))
    val = {n: (t, v) for n, t, v in view["fields"]}
    for i, (k, t) in enumerate(RES_TYPES):
        val[k] = (t, view["res"][i])
    order = [f[0] for f in view["fields"]] + [k for k, _ in RES_TYPES]
    pool = order + ["zz", "nope"] + GROUP_ATTRS
    F = [rnd.choice(pool) for _ in range(rnd.randint(1, 5))]
    X = [rnd.choice(pool) for _ in range(rnd.randint(1, 3))]
    what0 = "%s(%s)" % ("GroupedRecord" if x is not members[0] else "record", [describe(m) for m in mobs])
    for fields, exclude in ((None, None), (F, None), (None, X), (F, X), ([], X), (F, [])):
        what = "%s._asdict(fields=%r, exclude=%r)" % (what0, fields, exclude)
        ex = exclude or []
        if fields:
            want_keys = list(dict.fromkeys(k for k in fields if k in val and k not in ex))
        else:
            want_keys = [k for k in order if k not in ex]
        try:
            ad = x._asdict(fields=fields, exclude=exclude)
            got_keys = list(ad.keys())
            got = {k: obs_value(val[k][0], ad[k]) for k in got_keys if k in val}
            err = None
        except Exception as e:  # noqa
            got_keys, got, err = None, None, "%s: %s" % (type(e).__name__, e)
        ordered = bool(fields) or x is members[0]
        want = {k: val[k][1] for k in want_keys}
        if err or (got_keys != want_keys if ordered else sorted(got_keys) != sorted(want_keys)) or got != want:
            raise Bad("%s gave %s, the flat view restricted to the requested names is %s" % (
                what, err or repr([(k, got.get(k)) for k in got_keys]), repr([(k, want[k]) for k in want_keys])),
                dict(got=repr(got), want=repr(want), error=err, fields=fields, exclude=exclude))
    check_unchanged(mobs, members, what0 + "._asdict(...)")
    special = any(f[0] in GROUP_ATTRS for m in mobs for f in m["fields"])
    return [], ("asdict", repr(mobs), tuple(F), tuple(X)), special or len(members) > 1


# ---- descriptors whose identifier input (name, then field name + typename of every field) coincides, by construction
def colliding_pair(g):
    """-> (name, fields_a, fields_b): different definitions with the same concatenation"""
    from flow.record import RecordDescriptor
    rnd = g.rnd
    stem = rnd.choice(["a", "x", "val", "f1"])
    other_t = rnd.choice(["varint", "boolean", "datetime", "float", "bytes", "string", "uri"])
    k = rnd.randrange(5)
    if k == 0:
        fa, fb = [("string", stem + "w")], [("wstring", stem)]
    elif k == 1:
        fa, fb = [("string[]", stem + "w")], [("wstring[]", stem)]
    elif k == 2:
        fa, fb = [("stringlist", stem), (other_t, "b")], [("string", stem), (other_t, "listb")]
    elif k == 3:
        fa, fb = [(other_t, stem), ("string", "b")], [("string", stem + other_t + "b")]
    else:
        fa, fb = [("datetime", stem), ("string", "cw")], [("datetime", stem), ("wstring", "c")]
    # common neighbours (same on both sides)
    pre = [(rnd.choice(["varint", "datetime", "string"]), n) for n in rnd.sample(["p", "q"], rnd.randint(0, 2))]
    post = [(rnd.choice(["varint", "datetime", "string"]), n) for n in rnd.sample(["y", "z"], rnd.randint(0, 1))]
    fa, fb = pre + fa + post, pre + fb + post
    name = rnd.choice(["coll/extra", "t/a"])
    if RecordDescriptor.calc_descriptor_hash(name, tuple(fa)) != RecordDescriptor.calc_descriptor_hash(name, tuple(fb)):
        raise Bad("the constructed descriptors %r / %r no longer share their identifier (the hash input changed)" % (fa, fb), {})
    if rnd.random() < 0.5:
        fa, fb = fb, fa
    return name, fa, fb


def sample_value(g, t):
    if t == "stringlist":
        return [recgen.text_sample(g.rnd, False) for _ in range(g.rnd.randrange(3))]
    return g.listval(t[:-2]) if t.endswith("[]") else recgen.value_sample(g.rnd, t)


def case_collide(g, T):
    """the same operation with the same partners, first on a record of one definition, then on a record of a DIFFERENT
    definition that shares the first one's identifier (descriptor-keyed caches must tell them apart)"""
    from flow.record import GroupedRecord, RecordDescriptor, extend_record, iter_timestamped_records
    from flow.record.base import merge_record_descriptors
    from flow.record.stream import RecordFieldRewriter
    rnd = g.rnd
    name, fa, fb = colliding_pair(g)
    recs = []
    for fl in (fa, fb):
        d = RecordDescriptor(name, fl)
        g.made.append((d, list(fl)))
        if d.get_field_tuples() != tuple(fl):
            raise Bad("RecordDescriptor(%r, %r).get_field_tuples() = %r" % (name, fl, d.get_field_tuples()), {})
        recs.append(d(_source=rnd.choice([None, "src"]), _generated=rnd.choice(GENS), **{n: sample_value(g, t) for t, n in fl}))
    partners = [g.record(g.descriptor(lo=0, hi=3), preuse=False) for _ in range(rnd.randint(0, 2))]
    pobs = [obs(p) for p in partners]
    pos = rnd.randint(0, len(partners))
    op = rnd.choice(["merge", "extend", "extend", "expand", "rewrite", "group"])
    replace = rnd.random() < 0.5
    newname = rnd.choice([None, "new/name"])
    rw_fields = rnd.sample([n for _, n in fa + fb] + ["p", "zz"], rnd.randint(0, 3))
    rw_excl = rnd.sample([n for _, n in fa + fb] + ["q"], rnd.randint(0 if rw_fields else 1, 2))
    rw = RecordFieldRewriter(fields=rw_fields or None, exclude=rw_excl or None)       # ONE rewriter: its cache is per instance
    for r in recs:
        ro = obs(r)
        seq = partners[:pos] + [r] + partners[pos:]
        sobs = pobs[:pos] + [ro] + pobs[pos:]
        what = "%s with %s (right after the same call with a record of %r)" % (op, [describe(o) for o in sobs], fa if r is recs[1] else None)
        try:
            if op == "merge":
                out = merge_record_descriptors(tuple(x._desc for x in seq), replace, newname)
                got = (out.name, [(n, t) for t, n in out.get_field_tuples()])
                want = (newname if newname is not None else seq[0]._desc.name,
                        ref_merge([[(n, t) for n, t, _ in o["fields"]] for o in sobs], replace))
            elif op == "extend":
                got = obs(extend_record(seq[0], seq[1:], replace=replace, name=newname))
                want = ref_extend(sobs, replace, newname)
            elif op == "expand":
                got = [obs(o) for o in iter_timestamped_records(r)]
                want = ref_expand(ro)
            elif op == "rewrite":
                got = obs(rw.rewrite(r))
                want = ref_project(ro, rw_fields, rw_excl)
            else:
                grp = GroupedRecord("grp/c", seq)
                got = obs(grp)
                want = ref_group_view("grp/c", sobs)
        except Bad:
            raise
        except Exception as e:  # noqa
            got, want = "raised %s: %s" % (type(e).__name__, e), None
        if got != want or want is None:
            raise Bad("%s gave %s, expected %s" % (what, repr(got), repr(want)),
                      dict(operation=op, fields_a=fa, fields_b=fb, replace=replace, name=newname, got=repr(got), want=repr(want)))
        check_unchanged(sobs, seq, what)
    if recs[0]._desc == recs[1]._desc or not (recs[0]._desc != recs[1]._desc):
        demo = ""
        try:
            extend_record(recs[0], [], name="coll/demo")
            second = obs(extend_record(recs[1], [], name="coll/demo"))
            wsecond = ref_extend([obs(recs[1])], False, "coll/demo")
            if second != wsecond:
                demo = "; e.g. extend_record(<record of the second>, [], name='coll/demo') right after the same call for the first gave %s, expected %s" % (
                    repr(second), repr(wsecond))
        except Exception as e:  # noqa
            demo = "; extend_record raised %s: %s" % (type(e).__name__, e)
        raise Bad("RecordDescriptor(%r, %r) == RecordDescriptor(%r, %r): descriptors of different definitions compare equal, so the "
                  "descriptor-keyed caches (merge_record_descriptors / extend_record / RecordFieldRewriter) hand one's result to the other%s" % (
                      name, fa, name, fb, demo), dict(fields_a=fa, fields_b=fb))
    return [], ("collide", op, name, tuple(fa), tuple(fb), replace, newname, repr(pobs), pos), True


KINDS = [("collide", case_collide, 250), ("asdict", case_asdict, 300), ("merge", case_merge, 250), ("extend", case_extend, 450), ("expand", case_expand, 350), ("group", case_group, 300),
         ("greplace", case_group_replace, 350), ("rreplace", case_rec_replace, 150), ("rewrite", case_rewrite, 400),
         ("init", case_init, 150)]


def run_case(kind, fn, seed, i, T, defaults):
    rnd = random.Random("%d:%s:%d" % (seed, kind, i))
    g = CaseGen(rnd)
    try:
        out = fn(g, T, defaults) if kind == "init" else fn(g, T)
        g.check_descriptors("the %s case #%d" % (kind, i))
        return out
    except Bad as b:
        if g.history:
            b.what += " [history: before the operation, %s]" % "; ".join(g.history)
            b.detail = dict(b.detail, history=list(g.history))
        raise
    except Exception as e:  # noqa -- an exception outside the guarded calls (constructing or observing a composition)
        import traceback
        tb = traceback.extract_tb(e.__traceback__)
        where = ["%s:%d %s" % (f.filename.rsplit("/", 1)[-1], f.lineno, f.name) for f in tb][-4:]
        raise Bad("composition case %s #%d (seed %d) raised %s: %s at %s" % (kind, i, seed, type(e).__name__, e, where),
                  dict(error=repr(e), where=where))


def fixed_cases():
    """the inputs of the two repaired defects, always run"""
    from flow.record import GroupedRecord, RecordDescriptor, iter_timestamped_records
    A = RecordDescriptor("t/a", [("datetime", "a"), ("string", "x"), ("datetime", "ts")])
    r = A(a=pydt.datetime(2001, 1, 1, tzinfo=UTC), x="xx", ts=pydt.datetime(2002, 2, 2, tzinfo=UTC), _generated=GENS[0],
          _source="host1", _classification="secret")
    before = obs(r)
    what = ("iter_timestamped_records(t/a(datetime a=2001-01-01, string x, datetime ts=2002-02-02, _source='host1', "
            "_classification='secret', _generated=2020-01-02))")
    try:
        got = [obs(o) for o in iter_timestamped_records(r)]
    except Exception as e:  # noqa
        raise Bad("%s raised %s: %s" % (what, type(e).__name__, e), dict(fixed="expand-ts-named-field", error=repr(e)))
    want = ref_expand(before)
    if got != want:
        tsvals = [dict((f[0], f[2]) for f in o["fields"]).get("ts") for o in got]
        raise Bad("%s yielded records with ts = %s, fields %s and reserved slots %s; expected one record per datetime field with "
                  "ts = that field's ORIGINAL value (a's, then ts's) followed by the original fields a, x, and the original "
                  "record's _source/_classification/_generated" % (
                      what, repr(tsvals), [[f[0] for f in o["fields"]] for o in got], [o["res"][:3] for o in got]),
                  dict(fixed="expand-ts-named-field", got=repr(got), want=repr(want)))
    D1 = RecordDescriptor("m/a", [("string", "x"), ("varint", "p")])
    D2 = RecordDescriptor("m/b", [("string", "x"), ("string", "z")])
    m1, m2 = D1(x="ax", p=1, _generated=GENS[0]), D2(x="bx", z="bz", _generated=GENS[1])
    mobs = [obs(m1), obs(m2)]
    what = "GroupedRecord('grp/x', [m/a(x='ax', p=1), m/b(x='bx', z='bz')])._replace(z='new')"
    try:
        new = GroupedRecord("grp/x", [m1, m2])._replace(z="new")
        got = [obs(m) for m in new.records]
    except Exception as e:  # noqa
        raise Bad("%s raised %s: %s" % (what, type(e).__name__, e), dict(fixed="group-replace-shadowed", error=repr(e)))
    want = ref_group_replace(mobs, [("z", str_obs("new"))])
    if got != want:
        raise Bad("%s gave members %s, expected m/b to keep x='bx' and only z to change" % (
            what, [[(f[0], f[2]) for f in m["fields"]] for m in got]),
            dict(fixed="group-replace-shadowed", got=repr(got), want=repr(want)))


def search(ctx, reason):
    """the proof/translator broke: look for a concrete failing composition on the implementation"""
    T = Tokens()
    try:
        defaults = {t: default_of(t) for t in set(TYPES)}
        fixed_cases()
        nv = len(ctx.violations)
        probe_known(ctx)
        if len(ctx.violations) > nv:
            return True
        for kind, fn, n in KINDS:
            for i in range(n):
                try:
                    run_case(kind, fn, ctx.seed, i, T, defaults)
                except Bad as b:
                    b.detail = dict(b.detail, op=kind, index=i)
                    raise
    except Bad as b:
        ctx.violation("%s; failing input: %s" % (reason, b.what), dict(b.detail, kind="composition", reason=reason, what=b.what))
        return True
    except Exception:  # noqa
        return False
    return False


def run(ctx):
    ctx.coverage["rule"] = (
        "generated compositions over a pool of 8 field names (incl. ts, ts_description) x 11 field types: merge / extend of 1-4 "
        "records (with/without replace and name=), per-timestamp expansion of records with 0-3 datetime fields at any position, "
        "grouped records of 1-3 members incl. nested groups (view, get/set through the group, _replace), Record._replace with known/"
        "reserved/unknown names, RecordFieldRewriter over fields/exclude lists (unknown, reserved, duplicate names; records and "
        "groups), init_from_record; merge/extend also over lists in which a record TYPE recurs (A, B, A ...; same descriptor object or an equal "
        "one built again) with conflicting types of a shared field; expansion also over record types that themselves have fields ts / "
        "ts_description (first two positions with the timestamp record's own types, swapped, later, one of them, other types) and over "
        "OUTPUTS of the expansion; the flat view through _asdict() / _asdict(fields=) / _asdict(exclude=) / both, with member fields "
        "called like the group object's own attributes (name, records, descriptors, flat_fields, fieldname_to_record; only in groups "
        "without nested groups). Histories: with probability 1/2 every generated record/descriptor is first used by 1-3 other "
        "operations (get_all_fields, definition, grouping, _asdict, extend, merge, getfields, fields, packers, expansion, rewriter, "
        "repr, init_from_record) and after every case each descriptor must still report exactly its declared fields (fields, "
        "get_field_tuples, getfields(t), get_all_fields). distinct = distinct (operation, observed inputs, parameters); non-trivial = overlapping field "
        "names across the inputs / >= 2 timestamp fields or a field called ts/ts_description / shadowed member fields with a "
        "non-empty replacement / a non-empty projection. Collisions: pairs of DIFFERENT descriptors of one name whose identifier input "
        "(field name + typename concatenation) coincides by construction (string/wstring, string[]/wstring[], stringlist/string+list, "
        "two fields/one field) are put through the same merge / extend / expansion / one rewriter / grouping with the same partners "
        "one after the other in one process")
    ok = core.standard_proof_stage(ctx, ["props/C15.vo"], "C15", THEOREMS, search_fn=search, gens=["gen_compose"])
    ctx.assumptions += [
        "values are opaque to the composition code: the model moves tokens; a token is the canonical deep observation of the value "
        "(recgen.obs_value, unset typed lists/digests observed as the type's empty default); new values handed to setattr/_replace are "
        "observed after the field type's own conversion (conversion is C05's subject; only convertible values are generated)",
        "records are always built with _generated given; all four reserved slots of every output are compared (_version re-stamped)",
        "descriptors are duplicate-free (duplicate field names inside one descriptor are C06's known finding)",
        "CPython's OrderedDict / ChainMap / dict.pop / keyword-argument semantics are modelled by od_set, chain_get, pop, "
        "init_from_dict in coq/model/Compose.v and validated by the correspondence",
        "functools.lru_cache on merge_record_descriptors / record_descriptor_for_fields is transparent (keyed by descriptor value)",
    ]
    if not ok:
        return
    correspondence(ctx)


def correspondence(ctx):
    probe_known(ctx)
    if ctx.violations:
        return
    T = Tokens()
    defaults = {t: default_of(t) for t in set(TYPES)}
    scale = 1 if ctx.tier == "quick" else 8
    terms, metas = [], []
    sampled = set()
    try:
        fixed_cases()
    except Bad as b:
        ctx.violation(b.what, dict(b.detail, kind="composition", what=b.what))
        return
    for kind, fn, n in KINDS:
        for i in range(n * scale):
            try:
                ts, canon, nontrivial = run_case(kind, fn, ctx.seed, i, T, defaults)
            except Bad as b:
                ctx.violation(b.what, dict(b.detail, kind="composition", op=kind, index=i, what=b.what))
                return
            ctx.count_case(canon, nontrivial=nontrivial)
            for t in ts:
                terms.append(t)
                metas.append((kind, i))
            if nontrivial and kind not in sampled and kind in ("extend", "expand", "greplace", "rewrite", "group", "merge"):
                sampled.add(kind)
                ctx.sample(dict(op=kind, index=i, case=repr(canon)[:600]))
    failing, err = core.eval_bool_cases(ctx, header(T), terms, shard_size=200, name="c15")
    if err:
        ctx.violation("correspondence shards did not evaluate: " + err[:300], dict(kind="coq-eval", log=err), no_input=True)
        return
    ctx.coverage["traces_validated_against_impl"] = len(terms) - len(failing)
    if failing:
        kind, i = metas[failing[0]]
        ctx.violation(
            "model/Compose.v (model or reference evaluated in Coq) and the implementation disagree on %d of %d cases, first: %s #%d "
            "(the Python oracle accepts the implementation's result on that case)" % (len(failing), len(terms), kind, i),
            dict(kind="correspondence", correspondence="C15 compositions vs model/Compose.v", op=kind, index=i,
                 term=terms[failing[0]][:3000], failing=[list(metas[j]) for j in failing[:20]]), no_input=True)


def replay(obj):
    if obj.get("kind") == "composition" and "op" in obj:
        T = Tokens()
        defaults = {t: default_of(t) for t in set(TYPES)}
        fn = dict((k, f) for k, f, _ in KINDS)[obj["op"]]
        try:
            run_case(obj["op"], fn, obj["seed"], obj["index"], T, defaults)
        except Bad as b:
            print("replay %s #%d: %s" % (obj["op"], obj["index"], b.what[:600]))
            return 1
        print("replay %s #%d: holds" % (obj["op"], obj["index"]))
        return 0
    if obj.get("kind") == "composition":
        try:
            fixed_cases()
            T = Tokens()
            defaults = {t: default_of(t) for t in set(TYPES)}
            for kind, fn, n in KINDS:
                for i in range(n):
                    run_case(kind, fn, obj["seed"], i, T, defaults)
        except Bad as b:
            print("replay: %s" % b.what[:600])
            return 1
        print("replay: holds")
        return 0
    print("replay of kind %s: re-run ./check C15" % obj.get("kind"))
    return 2
