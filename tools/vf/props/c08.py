"""C08 -- comparisons on a field the record lacks are false and never raise.

proof:   coq/props/C08.v  (theorems about model/Cmp.v instantiated with the GENERATED sentinel table)
tie:     (T) gen/Gen_selector.v regenerated from selector.py each run, (C) the whole finite grammar
         (operator x position x other operand x boolean context x engine) is evaluated by the
         implementation and by the model inside Coq and compared case by case.
"""
from __future__ import annotations

import datetime as _pydt
import io
import itertools
import os
import random
import tempfile

from vf import core
from vf.coqlit import cbool, clist

THEOREMS = [
    "C08_generated_table_all_false", "C08_generated_guards", "C08_generated_comparators",
    "C08_interpreted_missing_comparison_false", "C08_compiled_missing_comparison_false_partial",
    "C08_compiled_refuted_notin_list", "C08_compiled_refuted_notin_missing", "C08_compiled_refuted_in_text",
    "C08_compiled_refuted_in_seq_with_missing", "C08_refuted_ne_custom_eq_left",
    "C08_contexts", "C08_helpers_skip", "C08_filter_mixed_stream",
]

OPS = [("Eq", "=="), ("NotEq", "!="), ("Lt", "<"), ("LtE", "<="), ("Gt", ">"), ("GtE", ">="), ("In_", "in"), ("NotIn", "not in")]
CTXS = [("Bare", "{e}"), ("CNot", "not ({e})"), ("CAndTrue", "({e}) and True"), ("COrFalse", "({e}) or False"),
        ("CTrueAnd", "True and ({e})")]


def make_record():
    from flow.record import RecordDescriptor
    D = RecordDescriptor("test/c08", [
        ("varint", "num"), ("string", "s"), ("net.ipaddress", "ip"), ("net.ipnetwork", "netw"), ("string[]", "lst"),
        ("datetime", "dt"), ("path", "p"), ("command", "cmd"), ("digest", "dg"), ("bytes", "b"), ("float", "f"),
        ("boolean", "bo"), ("uri", "u"), ("uint16", "u16"), ("varint", "unset"), ("stringlist", "sl"),
        ("varint[]", "il"),
        # degenerate values of the field types (empty / zero / the other flavour): what they answer the sentinel may differ
        ("path", "pe"), ("path", "wp"), ("path", "wpe"), ("string", "se"), ("varint", "z"), ("bytes", "be"), ("string[]", "le"),
        ("digest", "dge"), ("filesize", "fs"), ("unix_file_mode", "mode"), ("command", "wcmd"), ("float", "fz"), ("boolean", "bf"),
        ("net.ipaddress", "ip6"),
    ])
    from flow.record.fieldtypes import command as _command, path as _path
    r = D(num=5, s="abc", ip="10.0.0.1", netw="10.0.0.0/8", lst=["a", "b"],
          dt=_pydt.datetime(2020, 1, 2, 3, 4, 5, tzinfo=_pydt.timezone.utc), p="/tmp/x", cmd="ls -l",
          dg=("d41d8cd98f00b204e9800998ecf8427e", None, None), b=b"xyz", f=1.5, bo=True, u="http://a/b", u16=7,
          sl=["q"], il=[1, 2], pe="", wp=_path.from_windows("C:\\a\\b"), wpe=_path.from_windows(""), se="", z=0, be=b"", le=[],
          fs=0, mode=0o644, wcmd=_command.from_windows("cmd.exe /c x"), fz=0.0, bf=False, ip6="::1", _source="hostB/x", _generated=_pydt.datetime(2020, 1, 1, tzinfo=_pydt.timezone.utc))
    return D, r


# other operands: (expression text, how to obtain the python value from the record)
OTHERS = [
    ("1", lambda r: 1), ("0", lambda r: 0), ("'abc'", lambda r: "abc"), ("''", lambda r: ""), ("1.5", lambda r: 1.5),
    ("None", lambda r: None), ("True", lambda r: True), ("b'xy'", lambda r: b"xy"),
    ("[1, 2]", lambda r: [1, 2]), ("[]", lambda r: []), ("(1, 'a')", lambda r: (1, "a")), ("[None]", lambda r: [None]),
    ("[[1], 'x']", lambda r: [[1], "x"]),
    ("r.num", lambda r: r.num), ("r.s", lambda r: r.s), ("r.ip", lambda r: r.ip), ("r.netw", lambda r: r.netw),
    ("r.lst", lambda r: r.lst), ("r.dt", lambda r: r.dt), ("r.p", lambda r: r.p), ("r.cmd", lambda r: r.cmd),
    ("r.dg", lambda r: r.dg), ("r.b", lambda r: r.b), ("r.f", lambda r: r.f), ("r.bo", lambda r: r.bo),
    ("r.u", lambda r: r.u), ("r.u16", lambda r: r.u16), ("r.unset", lambda r: r.unset), ("r.sl", lambda r: r.sl),
    ("r.il", lambda r: r.il), ("r.yy", "MISSING"), ("(r.yy, 1)", "SEQ_WITH_MISSING"), ("[1, r.yy]", "SEQ_WITH_MISSING2"),
    ("[r.ip, 2]", lambda r: [r.ip, 2]),
    ("r.pe", lambda r: r.pe), ("r.wp", lambda r: r.wp), ("r.wpe", lambda r: r.wpe), ("r.se", lambda r: r.se), ("r.z", lambda r: r.z),
    ("r.be", lambda r: r.be), ("r.le", lambda r: r.le), ("r.dge", lambda r: r.dge), ("r.fs", lambda r: r.fs),
    ("r.mode", lambda r: r.mode), ("r.wcmd", lambda r: r.wcmd), ("r.fz", lambda r: r.fz), ("r.bf", lambda r: r.bf),
    ("r.ip6", lambda r: r.ip6),
]


def probe_method(v, name, sentinel):
    fn = getattr(type(v), name, None)
    if fn is None:
        return "NotImpl"
    try:
        res = fn(v, sentinel)
    except Exception:
        return "Raises"
    if res is NotImplemented:
        return "NotImpl"
    return "(Ret %s)" % cbool(bool(res))


def probe_other(v, sentinel, depth=0):
    """Observation of the other operand: what ITS methods answer when handed the sentinel."""
    eq = probe_method(v, "__eq__", sentinel)
    ne = probe_method(v, "__ne__", sentinel)
    ords = {probe_method(v, n, sentinel) for n in ("__lt__", "__le__", "__gt__", "__ge__")}
    ordr = ords.pop() if len(ords) == 1 else "Raises"
    if type(v) in (list, tuple) or (isinstance(v, list) and type(v).__contains__ is list.__contains__):
        elems = []
        for e in v:
            if e is sentinel:
                elems.append("ESent")
            else:
                elems.append("(EOther %s)" % probe_other(e, sentinel, depth + 1))
        cont = "(CSeq %s)" % clist(elems)
        kind = "seq_with_missing" if any(e is sentinel for e in v) else "seq"
    else:
        c = probe_method(v, "__contains__", sentinel)
        if getattr(type(v), "__contains__", None) is None:
            # no __contains__: `in` falls back to iteration; none of the operands here are iterable
            # non-sequences except via __iter__ -> probe by really running it
            try:
                res = sentinel in v
                c = "(Ret %s)" % cbool(bool(res))
            except Exception:
                c = "Raises"
        cont = "(CRes %s)" % c
        kind = {"Raises": "raises", "NotImpl": "raises"}.get(c, "custom_contains")
    term = "(Other %s %s %s %s %s)" % (eq, ne, ordr, cbool(v is None), cont)
    if depth == 0:
        return term, dict(eq=eq, ne=ne, ord=ordr, cont=kind)
    return term


def outcome_of(fn):
    try:
        v = fn()
    except TypeError as e:
        return ("TypeError", "NoneType" in str(e))
    except Exception as e:  # noqa
        return ("Err", type(e).__name__)
    return ("Val", bool(v))


def coq_res(o):
    if o[0] == "Val":
        return "(RVal %s)" % cbool(o[1])
    if o[0] == "TypeError":
        return "(RTypeError %s)" % cbool(o[1])
    return "RErr"


HEADER = """From Coq Require Import List Bool String.
Import ListNotations.
From FR Require Import Cmp Gen_selector.
Definition res_same (a b : res) : bool :=
  match a, b with
  | RVal x, RVal y => Bool.eqb x y
  | RTypeError _, RTypeError _ => true
  | RErr, RErr => true
  | _, _ => false
  end.
Definition run (interpreted : bool) (op : cmpop) (sd : side) (c : bctx) (a : operand) (impl : res) : bool :=
  let l := fst (place sd a) in let r := snd (place sd a) in
  res_same impl
    (in_ctx interpreted c
      (if interpreted then interp_cmp none_object guard_in guard_notin op l r else compiled_cmp none_object op l r)).
"""


def known_class(kf, case):
    """Does a listed known finding cover this failing case (same class AND same wrong outcome)?"""
    for f in kf:
        m = f.get("match", {})
        if all((case.get(k) in v) if isinstance(v, list) else (case.get(k) == v) for k, v in m.items()):
            return f
    return None


def enumerate_grammar(ctx, kf):
    from flow.record.selector import NONE_OBJECT, CompiledSelector, Selector
    D, r = make_record()
    cases = []      # coq terms
    metas = []
    # the missing operand is spelled as a field the record lacks, or as an attribute of one (r.parent.name on a record
    # without `parent`): both evaluate to the sentinel, so the model term is the same
    for (opname, optxt), side, (oexpr, ofn), (cname, cfmt), engine, miss in itertools.product(
            OPS, ("SLeft", "SRight"), OTHERS, CTXS, ("interpreted", "compiled"), ("r.zz", "r.zz.sub")):
        if ofn == "MISSING":
            oterm, oinfo = "OSent", dict(eq="-", ne="-", ord="-", cont="missing")
        elif isinstance(ofn, str):
            # a sequence literal containing a missing field
            elems = "[ESent; EOther (Other NotImpl NotImpl NotImpl false (CRes Raises))]" if ofn == "SEQ_WITH_MISSING" \
                else "[EOther (Other NotImpl NotImpl NotImpl false (CRes Raises)); ESent]"
            oterm = "(OOth (Other NotImpl NotImpl NotImpl false (CSeq %s)))" % elems
            oinfo = dict(eq="NotImpl", ne="NotImpl", ord="NotImpl", cont="seq_with_missing")
        else:
            t, oinfo = probe_other(ofn(r), NONE_OBJECT)
            oterm = "(OOth %s)" % t
        e = "%s %s %s" % (miss, optxt, oexpr) if side == "SLeft" else "%s %s %s" % (oexpr, optxt, miss)
        full = cfmt.format(e=e)
        if engine == "interpreted":
            out = outcome_of(lambda: Selector(full).match(r))
        else:
            out = outcome_of(lambda: CompiledSelector(full).match(r))
        expected = ("Val", cname == "CNot")
        meta = dict(expr=full, engine=engine, op=opname, side=side, ctx=cname, other=oexpr, cont=oinfo["cont"],
                    other_eq=oinfo["eq"], other_ne=oinfo["ne"], outcome=list(out), holds=(out == expected))
        metas.append(meta)
        cases.append("run %s %s %s %s %s %s" % (cbool(engine == "interpreted"), opname, side, cname, oterm, coq_res(out)))
        ctx.count_case((opname, side, oexpr, cname, engine, miss), nontrivial=True)
    return D, r, cases, metas


def stream_checks(ctx, kf):
    """Heterogeneous streams through readers and rdump: output = records that have the field and
    satisfy the condition; nothing aborts."""
    from flow.record import GroupedRecord, RecordDescriptor, RecordReader, RecordWriter
    from flow.record.selector import CompiledSelector, Selector
    from flow.record.tools import rdump
    rnd = random.Random(ctx.seed)
    A = RecordDescriptor("mix/a", [("varint", "n"), ("string", "s")])
    B = RecordDescriptor("mix/b", [("string", "s"), ("varint", "m")])
    C = RecordDescriptor("mix/c", [("string", "other")])
    ts = _pydt.datetime(2021, 1, 1, tzinfo=_pydt.timezone.utc)
    n_streams = 6 if ctx.tier == "quick" else 40
    sels = [("r.n %s %d", "n"), ("%d %s r.n", "n"), ("r.m %s %d", "m")]
    ops = ["==", "!=", "<", "<=", ">", ">="]
    pyop = {"==": lambda a, b: a == b, "!=": lambda a, b: a != b, "<": lambda a, b: a < b, "<=": lambda a, b: a <= b,
            ">": lambda a, b: a > b, ">=": lambda a, b: a >= b}
    tmpd = tempfile.mkdtemp(prefix="c08.", dir=str(ctx.work))
    bad = 0
    for si in range(n_streams):
        recs = []
        # grouped records all share ONE class (GroupedRecord) whatever their members are, so "this class lacks the
        # field" learnt from one group must not be applied to the next: streams mix groups with and without the field
        kinds = list("agGbcGg") if si == 0 else [rnd.choice("abcgG") for _ in range(rnd.randint(4, 12))]
        for k in kinds:
            if k == "a":
                recs.append(A(n=rnd.randint(0, 9), s="x", _generated=ts))
            elif k == "b":
                recs.append(B(s="y", m=rnd.randint(0, 9), _generated=ts))
            elif k == "g":
                recs.append(GroupedRecord("mix/grp", [C(other="g", _generated=ts), B(s="y", m=rnd.randint(0, 9), _generated=ts)]))
            elif k == "G":
                recs.append(GroupedRecord("mix/grp", [C(other="G", _generated=ts), A(n=rnd.randint(0, 9), s="x", _generated=ts)]))
            else:
                recs.append(C(other="z", _generated=ts))
        path = os.path.join(tmpd, "s%d.records" % si)
        with RecordWriter(path) as w:
            for x in recs:
                w.write(x)
        for (fmt, fld), op in itertools.product(sels, ops):
            lit = rnd.randint(0, 9)
            if fmt.startswith("%d"):
                text = fmt % (lit, op)
                want = [x for x in recs if hasattr(x, fld) and getattr(x, fld) is not None and pyop[op](lit, getattr(x, fld))]
            else:
                text = fmt % (op, lit)
                want = [x for x in recs if hasattr(x, fld) and getattr(x, fld) is not None and pyop[op](getattr(x, fld), lit)]
            want_obs = [(x._desc.name, x._pack()) for x in want]
            for eng, selobj in (("text", text), ("interpreted", Selector(text)), ("compiled", CompiledSelector(text))):
                try:
                    with RecordReader(path, selector=selobj) as rd:
                        got = [(x._desc.name, x._pack()) for x in rd]
                    err = None
                except Exception as e:  # noqa
                    got, err = None, "%s: %s" % (type(e).__name__, e)
                ctx.count_case(("stream", si, text, eng))
                if got != want_obs:
                    bad += 1
                    ctx.violation(
                        "filtering a mixed stream with %r (%s) gave %s, expected %d records" % (text, eng, err or len(got), len(want)),
                        dict(kind="stream-filter", selector=text, engine=eng, records=[repr(x) for x in recs],
                             got=repr(got), want=repr(want_obs), error=err))
                    return
            # through rdump (default compiled, -n interpreted), two sources; output as a stream file
            for flag in ([], ["-n"]):
                outp = os.path.join(tmpd, "out.records")
                try:
                    # ... with a source that cannot be opened between them: it is skipped, nothing of the others is dropped
                    missing = os.path.join(tmpd, "no-such-source.records")
                    import logging
                    logging.disable(logging.CRITICAL)         # the "cannot open" message of the skipped source
                    try:
                        rdump.main([path, missing, path, "-s", text, "-w", outp] + flag)
                    finally:
                        logging.disable(logging.NOTSET)
                    with RecordReader(outp) as rd:
                        got = [(x._desc.name, x._pack()) for x in rd]
                    err = None
                except BaseException as e:  # noqa
                    got, err = None, "%s: %s" % (type(e).__name__, e)
                ctx.count_case(("rdump", si, text, tuple(flag)))
                if got != want_obs + want_obs:
                    ctx.violation(
                        "rdump -s %r %s over two mixed sources (and a missing one between them) wrote %s, expected %d records" % (text, flag, err or len(got), 2 * len(want)),
                        dict(kind="rdump-filter", selector=text, flags=flag, records=[repr(x) for x in recs], error=err))
                    return
    ctx.notes.append("mixed-stream filtering: %d streams x %d selectors x {text,interpreted,compiled,rdump,rdump -n}" % (n_streams, len(sels) * len(ops)))


INTERPRETED_ONLY = [("Type.string not in r.zz", False), ("r.zz not in Type.string", False), ("Type.varint not in r.zz", False)]


def helper_checks(ctx):
    from flow.record.selector import CompiledSelector, Selector
    D, r = make_record()
    for e, want in INTERPRETED_ONLY:
        out = outcome_of(lambda: Selector(e).match(r))
        ctx.count_case(("typed-notin", e))
        if out != ("Val", want):
            ctx.violation("typed matcher against a missing field: %s (interpreted) -> %s, expected %s" % (e, out, want),
                          dict(kind="helper", expr=e, engine="interpreted", outcome=list(out), expected=want))
            return
    exprs = [
        ("field_equals(r, ['zz', 's'], ['ABC'])", True), ("field_equals(r, ['zz'], ['abc'])", False),
        ("field_equals(r, ['zz', 'yy', 's'], ['abc'], nocase=False)", True),
        ("field_contains(r, ['zz', 's'], ['b'])", True), ("field_contains(r, ['zz'], ['b'])", False),
        ("field_contains(r, ['zz', 's'], ['abc'], word_boundary=True)", True),
        ("field_regex(r, ['zz', 's'], 'a.c')", True), ("field_regex(r, ['zz'], '.*')", False),
        ("has_field(r, 'zz')", False), ("has_field(r, 's')", True),
        ("field_equals(r, ['s', 'zz'], ['nomatch'])", False),
        # the record argument itself is a field the record lacks (a nested record some record types do not have)
        ("field_equals(r.zz, ['name'], ['init'])", False), ("field_contains(r.zz, ['s'], ['b'])", False),
        ("field_regex(r.zz, ['s'], '.')", False), ("field_equals(r.zz.yy, ['a'], ['b'])", False),
        ("has_field(r.zz, 'a')", False), ("field_equals(r.zz, ['name'], ['init']) or r.s == 'abc'", True),
        # typed field matchers against a missing field, in every position
        ("Type.string in r.zz", False), ("Type.string == r.zz", False), ("Type.string != r.zz", False),
        ("r.zz in Type.string", False), ("r.zz == Type.string", False), ("Type.varint < r.zz", False), ("r.zz >= Type.varint", False),
        ("Type.string.zz == 'a'", False), ("Type.uri.filename in r.zz", False), ("'abc' in Type.string", True),
        ("r.zz in Type.string or r.s == 'abc'", True),
        # a WANTED string that is a field the record lacks matches nothing (and does not raise)
        ("field_equals(r, ['s'], [r.zz])", False), ("field_equals(r, ['s'], ['abc', r.zz])", True),
        ("field_equals(r, ['s'], [r.zz], nocase=False)", False), ("field_contains(r, ['s'], [r.zz])", False),
        ("field_contains(r, ['s'], ['b', r.zz])", True), ("field_contains(r, ['s'], [r.zz], word_boundary=True)", False),
        ("field_equals(r, ['zz', 's'], [r.yy, r.zz])", False),
        # a missing field read inside a generator expression, and missing fields named like Python builtins
        ("any(r.zz == p for p in (80, 443))", False), ("r.s == 'abc' and any(r.zz >= lo for lo in (1,))", False),
        ("all(r.zz != p for p in (1, 2))", False), ("any(p == r.zz for p in r.lst)", False),
        ("r.id == 7", False), ("r.type in (1, 2)", False), ("r.len < 3 or r.s == 'abc'", True), ("r.str == 'x' or r.print != 1", False),
        ("any(r.hash == c for c in r.s)", False),
        # reserved fields are fields every record has: never skipped
        ("field_contains(r, ['_source'], ['hostB/'])", True), ("field_equals(r, ['zz', '_source'], ['HOSTB/X'])", True),
        ("field_regex(r, ['_source', 'zz'], '^host')", True), ("field_equals(r, ['_version'], [1], nocase=False)", True),
    ]
    for e, want in exprs:
        for eng, cls in (("interpreted", Selector), ("compiled", CompiledSelector)):
            out = outcome_of(lambda: cls(e).match(r))
            ctx.count_case(("helper", e, eng))
            if out != ("Val", want):
                ctx.violation("helper on missing field: %s (%s) -> %s, expected %s" % (e, eng, out, want),
                              dict(kind="helper", expr=e, engine=eng, outcome=list(out), expected=want))
                return


def search(ctx, reason):
    """The proof/translator broke: look for a concrete failing comparison on the implementation."""
    kf = core.known_for("C08")
    try:
        D, r, cases, metas = enumerate_grammar(ctx, kf)
    except Exception as e:  # noqa
        return False
    for m in metas:
        if not m["holds"] and not known_class(kf, m):
            ctx.violation("%s; failing input: %s on %s engine -> %s" % (reason, m["expr"], m["engine"], m["outcome"]),
                          dict(kind="comparison", reason=reason, **m, record=repr(r)))
            return True
    helper_checks(ctx)
    if not ctx.violations:
        stream_checks(ctx, kf)
    return bool(ctx.violations)


def run(ctx):
    kf = core.known_for("C08")
    ctx.coverage["rule"] = (
        "exhaustive finite grammar: 8 comparison operators x 2 positions of the missing operand x %d other operands "
        "(literals of each kind, fields of each type incl. their degenerate values - empty / zero / the windows flavour -, "
        "lists/tuples, None, another missing field, sequences holding a missing field) x 5 boolean contexts x 2 engines; plus mixed-type streams through RecordReader/rdump and the "
        "helper functions. distinct = distinct (operator, position, other operand, context, engine) tuple; every case "
        "is non-trivial (it has a missing operand)" % len(OTHERS))
    ok = core.standard_proof_stage(ctx, ["props/C08.vo"], "C08", THEOREMS, search_fn=search, gens=["gen_selector"])
    ctx.assumptions += [
        "the other operand is observed through what its own __eq__/__ne__/__lt__../__contains__ answer for the sentinel "
        "(probed on the real objects); CPython's rich-comparison dispatch is modelled in coq/model/Cmp.v and validated "
        "by this exhaustive enumeration",
    ]
    if not ok:
        return
    D, r, cases, metas = enumerate_grammar(ctx, kf)
    ctx.coverage["exhaustive"] = True
    failing, err = core.eval_bool_cases(ctx, HEADER, cases, shard_size=600, name="c08")
    if err:
        ctx.violation("correspondence shards did not evaluate: " + err[:200], dict(kind="coq-eval", log=err), no_input=True)
        return
    ctx.coverage["traces_validated_against_impl"] = len(cases) - len(failing)
    # 1. property on the implementation
    reported = False
    for m in metas:
        if m["holds"]:
            continue
        f = known_class(kf, m)
        if f:
            ctx.known_finding(f["id"], f["what"])
        elif not reported:
            reported = True
            ctx.violation("comparison with a missing field is not False: %s on the %s engine -> %s" % (m["expr"], m["engine"], m["outcome"]),
                          dict(kind="comparison", **m, record=repr(r)))
    # 2. model = implementation on every case
    if failing and not reported:
        # the correspondence broke: look for a concrete failing input among the helper and stream checks first
        helper_checks(ctx)
        if not ctx.violations:
            stream_checks(ctx, kf)
        if ctx.violations:
            return
        m = metas[failing[0]]
        ctx.violation("model/Cmp.v and the implementation disagree on %d of %d cases, first: %s (%s engine) impl=%s; "
                      "the property itself holds on that case" % (len(failing), len(cases), m["expr"], m["engine"], m["outcome"]),
                      dict(kind="correspondence", correspondence="C08 grammar vs model/Cmp.v", first=m,
                           failing=[metas[i]["expr"] + " @" + metas[i]["engine"] for i in failing[:20]]), no_input=True)
    for m in metas[:: max(1, len(metas) // 5)]:
        ctx.sample(dict(expr=m["expr"], engine=m["engine"], outcome=m["outcome"]))
    if ctx.violations:
        return
    helper_checks(ctx)
    stream_checks(ctx, kf)


def replay(obj):
    from flow.record.selector import CompiledSelector, Selector
    D, r = make_record()
    if obj.get("kind") in ("comparison", "helper"):
        e = obj["expr"]
        cls = Selector if obj["engine"] == "interpreted" else CompiledSelector
        out = outcome_of(lambda: cls(e).match(r))
        print("replay %s on %s engine -> %s" % (e, obj["engine"], out))
        exp = ("Val", obj.get("ctx") == "CNot") if obj["kind"] == "comparison" else ("Val", obj["expected"])
        return 0 if out == exp else 1
    print("replay of kind %s: re-run ./check C08" % obj.get("kind"))
    return 2
