"""C03 -- Every record is decoded with the descriptor it was written with.

proof:  coq/props/C03.v (descriptor frames precede the item frame and are exactly the unregistered descriptors, nested
        and group members included; a visited descriptor is registered; read-back carries the own descriptor; writers
        are independent; identifier coincidence witnesses with and without the descriptor-comparing guard)
tie:    (T) gen/Gen_packer.v (guard shape, registry is instance state, hash input order); (C) write histories over a
        descriptor pool with same-name / identifier-coincident / nested / grouped descriptors on 1-3 interleaved writers,
        binary and JSON lines: frame/line event sequences checked on the implementation, bytes compared with the model.
"""
from __future__ import annotations

import datetime as pydt
import io
import itertools
import json
import os
import random
import struct
import warnings

import msgpack

from vf import core, recgen
from vf import streamcases as sc

THEOREMS = ["C03_generated_guard_compares_descriptor", "C03_generated_registry_is_per_writer", "C03_generated_hash_input_order",
            "C03_descriptor_frames_precede", "C03_registered_after_visit", "C03_decoded_with_own_descriptor",
            "C03_writers_independent", "C03_hash_input_not_injective", "C03_colliding_identifiers_roundtrip",
            "C03_refuted_identifier_only_guard"]

T0 = pydt.datetime(2021, 3, 4, 5, 6, 7, tzinfo=pydt.timezone.utc)


def pool():
    from flow.record import GroupedRecord, RecordDescriptor
    A = RecordDescriptor("t/a", [("string", "s"), ("varint", "n")])
    A2 = RecordDescriptor("t/a", [("string", "s")])                                  # same name, other fields
    C1 = RecordDescriptor("t/c", [("stringlist", "a"), ("string", "b")])             # identifiers coincide
    C2 = RecordDescriptor("t/c", [("string", "a"), ("string", "listb")])
    N = RecordDescriptor("t/n", [("record", "r"), ("record[]", "rs"), ("varint", "k")])
    Z = RecordDescriptor("t/z", [])                                                   # a type without fields of its own
    # (harness precondition about the hash input only; that C1 and C2 are DIFFERENT descriptors for the library is part
    # of what the histories below test: a descriptor comparison that confuses them loses C2's definition frame)
    assert C1.identifier == C2.identifier
    mk = {
        "A": lambda i: A(s="a%d" % i, n=i, _generated=T0),
        "A2": lambda i: A2(s="b%d" % i, _generated=T0),
        "C1": lambda i: C1(a=["x%d" % i], b="y", _generated=T0),
        "C2": lambda i: C2(a="p%d" % i, listb="q", _generated=T0),
        "N_A": lambda i: N(r=A(s="in", n=i, _generated=T0), rs=[A2(s="l", _generated=T0)], k=i, _generated=T0),
        "N_C2": lambda i: N(r=C2(a="z", listb="w", _generated=T0), rs=[], k=i, _generated=T0),
        "G": lambda i: GroupedRecord("grp/x", [A(s="g", n=i, _generated=T0), C2(a="u", listb="v", _generated=T0)]),
        "G_N": lambda i: GroupedRecord("grp/y", [N(r=A2(s="d", _generated=T0), rs=[], k=i, _generated=T0), A(s="h", n=i, _generated=T0)]),
        "Z": lambda i: Z(_generated=T0, _source="z%d" % i),
        "N_Z": lambda i: N(r=Z(_generated=T0), rs=[Z(_generated=T0), A(s="nz", n=i, _generated=T0)], k=i, _generated=T0),
        "G_C1": lambda i: GroupedRecord("grp/w", [A2(s="gc", _generated=T0), C1(a=["m%d" % i], b="n", _generated=T0)]),
        # two members whose types share a NAME but not their fields (two versions of one type in a group)
        "G_AA2": lambda i: GroupedRecord("grp/z", [A(s="v1", n=i, _generated=T0), A2(s="v2", _generated=T0)]),
        "G_A2A": lambda i: GroupedRecord("grp/z", [A2(s="w2", _generated=T0), A(s="w1", n=i, _generated=T0), A2(s="w3", _generated=T0)]),
    }
    return mk


def walk_frames(data):
    """Independent frame walker: [(kind, payload)] with kind in header/desc/rec/group."""
    out = []
    pos = 0
    while pos + 4 <= len(data):
        n = struct.unpack(">I", data[pos:pos + 4])[0]
        body = data[pos + 4:pos + 4 + n]
        pos += 4 + n
        v = msgpack.unpackb(body, raw=False, strict_map_key=False, ext_hook=lambda c, d: msgpack.ExtType(c, d), unicode_errors="surrogateescape")
        if isinstance(v, bytes):
            out.append(("header", v))
            continue
        sub, payload = msgpack.unpackb(v.data, raw=False, strict_map_key=False, ext_hook=lambda c, d: msgpack.ExtType(c, d), unicode_errors="surrogateescape")
        out.append(({1: "rec", 2: "desc", 0x12: "group"}.get(sub, "other"), payload))
    return out


def idents_in(payload, kind):
    """identifiers used by a record / grouped payload, nested records included, in order."""
    found = []

    def scan(v):
        if isinstance(v, msgpack.ExtType):
            sub, p = msgpack.unpackb(v.data, raw=False, strict_map_key=False, ext_hook=lambda c, d: msgpack.ExtType(c, d), unicode_errors="surrogateescape")
            if sub == 1:
                found.append(tuple(p[0]))
                for x in p[1]:
                    scan(x)
        elif isinstance(v, (list, tuple)):
            for x in v:
                scan(x)
    if kind == "rec":
        found.append(tuple(payload[0]))
        for x in payload[1]:
            scan(x)
    else:
        for ident, vals in payload[1]:
            found.append(tuple(ident))
        for ident, vals in payload[1]:
            for x in vals:
                scan(x)
    return found


def descs_used(item):
    """(identifier, name, fields) of every descriptor an item needs, nested and members included."""
    from flow.record import GroupedRecord, Record
    out = []

    def rec(r):
        out.append((tuple(r._desc.identifier), r._desc.name, tuple(r._desc.get_field_tuples())))
        for t, n in r._desc.get_field_tuples():
            v = getattr(r, n)
            if t == "record" and v is not None:
                rec(v)
            elif t == "record[]" and v:
                for x in v:
                    rec(x)
    if isinstance(item, GroupedRecord):
        for m in item.records:
            out.append((tuple(m._desc.identifier), m._desc.name, tuple(m._desc.get_field_tuples())))
        for m in item.records:
            for t, n in m._desc.get_field_tuples():
                v = getattr(m, n)
                if t == "record" and v is not None:
                    rec(v)
                elif t == "record[]" and v:
                    for x in v:
                        rec(x)
    else:
        rec(item)
    return out


def check_binary_stream(ctx, data, items, label):
    """descriptor frame before first use; registered descriptor under each used identifier = the record's own."""
    frames = walk_frames(data)
    reg = {}
    it = iter(items)
    for kind, payload in frames:
        if kind == "desc":
            name, fields = payload
            h = None
            reg_key = name
            fields_t = tuple((t, n) for t, n in fields)
            from flow.record import RecordDescriptor
            ident = tuple(RecordDescriptor(name, [tuple(f) for f in fields]).identifier)
            reg[ident] = (name, fields_t)
        elif kind in ("rec", "group"):
            item = next(it)
            used = descs_used(item)
            got = idents_in(payload, kind)
            if [u[0] for u in used] != [tuple(g) for g in got]:
                return "frame uses identifiers %r, the written item needs %r" % (got, [u[0] for u in used])
            for ident, name, fields in used:
                if ident not in reg:
                    return "record frame uses %r before any descriptor frame for it" % (ident,)
                if reg[ident] != (name, fields):
                    return "identifier %r is registered as %r when a record of %r is written" % (ident, reg[ident], (name, fields))
    if next(it, None) is not None:
        return "fewer record frames than records written"
    return None


def check_json_lines(text, items):
    reg = {}
    it = iter(items)
    for line in text.splitlines():
        o = json.loads(line)
        if o.get("_type") == "recorddescriptor":
            name, fields = o["_data"]
            from flow.record import RecordDescriptor
            d = RecordDescriptor(name, [tuple(f) for f in fields])
            reg[tuple(d.identifier)] = (name, tuple(tuple(f) for f in fields))
        elif o.get("_type") == "record":
            item = next(it)
            ident = tuple(o["_recorddescriptor"])
            own = (item._desc.name, tuple(item._desc.get_field_tuples()))
            if ident not in reg:
                return "record line uses %r before any descriptor line" % (ident,)
            if reg[ident] != own:
                return "identifier %r is registered as %r when a record of %r is written" % (ident, reg[ident], own)
    return None


def run_history(ctx, mk, hist, nwriters, workdir):
    """hist: list of (writer index, kind).  Returns an error string or None; also the per-writer streams."""
    from flow.record import GroupedRecord, RecordReader, RecordStreamWriter, RecordWriter
    bufs = [io.BytesIO() for _ in range(nwriters)]
    ws = [RecordStreamWriter(b) for b in bufs]
    jpaths = [os.path.join(workdir, "w%d.jsonl" % i) for i in range(nwriters)]
    jws = [RecordWriter(p) for p in jpaths]
    per = [[] for _ in range(nwriters)]
    for i, (w, kind) in enumerate(hist):
        item = mk[kind](i)
        per[w].append(item)
        ws[w].write(item)
        if not isinstance(item, GroupedRecord) and not kind.startswith("N"):
            jws[w].write(item)
    datas = [b.getvalue() for b in bufs]
    for w in ws:
        w.fp = None
    for jw in jws:
        jw.close()
    for w in range(nwriters):
        if not per[w]:
            continue
        err = check_binary_stream(ctx, datas[w], per[w], "writer %d" % w)
        if err:
            return "binary writer %d: %s" % (w, err), datas, per
        try:
            rb = sc.read_stream_items(datas[w])
        except Exception as e:  # noqa
            return "binary writer %d: reading the stream back raised %s: %s" % (w, type(e).__name__, e), datas, per
        a = [recgen.canon(recgen.obs_item(x, True)) for x in per[w]]
        b = [recgen.canon(recgen.obs_item(x, True)) for x in rb]
        if a != b:
            return "binary writer %d: read back differs (descriptor or values)" % w, datas, per
        # the definitions a reader has taken in stay with it: the same stream consumed in two passes (the first loop left
        # after one record) yields the same records with the same descriptors
        if len(per[w]) > 1:
            try:
                rb2 = sc.read_stream_items_two_pass(datas[w])
            except Exception as e:  # noqa
                return ("binary writer %d: reading the stream in two passes (first loop left after one record, a second loop over the "
                        "same reader) raised %s: %s" % (w, type(e).__name__, e)), datas, per
            if [recgen.canon(recgen.obs_item(x, True)) for x in rb2] != a:
                return "binary writer %d: read back in two passes differs (descriptor or values)" % w, datas, per
        # alone = interleaved
        alone = sc.write_stream_bytes(per[w])
        if alone != datas[w]:
            return "binary writer %d wrote other bytes interleaved with other writers than alone" % w, datas, per
        jitems = [x for x, (ww, kind) in zip([mk[k](i) for i, (_, k) in enumerate(hist)], hist)
                  if ww == w and not kind.startswith("N") and not kind.startswith("G")]
        text = open(jpaths[w]).read()
        err = check_json_lines(text, jitems)
        if err:
            return "JSON writer %d: %s" % (w, err), datas, per
        try:
            with warnings.catch_warnings():
                warnings.simplefilter("ignore")
                jrb = list(RecordReader(jpaths[w]))
            ja = [(x._desc.name, tuple(x._desc.get_field_tuples()), x._pack()[1][:-1]) for x in jitems]
            jb = [(x._desc.name, tuple(x._desc.get_field_tuples()), x._pack()[1][:-1]) for x in jrb]
            if ja != jb:
                return "JSON writer %d: read back differs (descriptor or values)" % w, datas, per
        except Exception as e:  # noqa
            return "JSON writer %d: reading back raised %s: %s" % (w, type(e).__name__, e), datas, per
    return None, datas, per


def histories(ctx, mk):
    kinds = list(mk)
    rnd = random.Random(ctx.seed)
    maxlen = 2 if ctx.tier == "quick" else 3
    for n in range(1, maxlen + 1):
        for combo in itertools.product(kinds, repeat=n):
            yield 1, [(0, k) for k in combo], True
    if maxlen < 3:
        # every history of length 3 over the identifier-coincident family (plain, nested, as group members): a shortcut taken
        # for "the same type as just before" must not survive a descriptor change made by the item in between
        family = [k for k in ("C1", "C2", "G", "G_C1", "N_C2") if k in mk]
        for combo in itertools.product(family, repeat=3):
            yield 1, [(0, k) for k in combo], True
    for _ in range(60 if ctx.tier == "quick" else 600):
        nw = rnd.choice([1, 2, 3])
        yield nw, [(rnd.randrange(nw), rnd.choice(kinds)) for _ in range(rnd.randrange(2, 9))], False


def explore(ctx, report=True):
    mk = pool()
    terms = []
    metas = []
    workdir = str(ctx.work)
    for nw, hist, exhaustive in histories(ctx, mk):
        ctx.count_case(tuple(hist), nontrivial=len({k for _, k in hist}) >= 2)
        err, datas, per = run_history(ctx, mk, hist, nw, workdir)
        if err:
            if report:
                ctx.violation("history %r on %d writer(s): %s" % (hist, nw, err),
                              dict(kind="history", history=hist, writers=nw, error=err,
                                   streams=[d.hex()[:3000] for d in datas]))
            return None, None, True
        for w in range(nw):
            if per[w] and len(terms) < (160 if ctx.tier == "quick" else 1500):
                obs = [recgen.obs_item(x) for x in per[w]]
                terms.append(sc.render_case(obs, datas[w], None, kind="write_ok"))
                metas.append((hist, w))
    return terms, metas, False


def search(ctx, reason):
    _, _, found = explore(ctx, report=True)
    return found


def run(ctx):
    ctx.coverage["rule"] = (
        "write histories over a pool of 8 item kinds (same-name/different-field descriptors, identifier-coincident "
        "descriptors, nested record / record[] holders, grouped records incl. nested): exhaustive up to length 2 (quick) / 3 "
        "(thorough) on one writer, plus random histories of length 2-8 on 1-3 interleaved writers; binary stream and JSON "
        "lines. distinct = distinct history; non-trivial = at least two item kinds")
    ok = core.standard_proof_stage(ctx, ["props/C03.vo", "model/Observe.vo"], "C03", THEOREMS, search_fn=search, gens=["gen_packer"])
    ctx.assumptions += ["SHA-256 is an arbitrary function of the hash input in the theorems; lru_cache on class generation is not modelled",
                        "the JSON-lines side is checked on the implementation (descriptor line before use, own descriptor); its "
                        "registry model lives with C14"]
    if not ok:
        return
    terms, metas, found = explore(ctx)
    if found:
        return
    shard = max(1, (len(terms) + 15) // 16)
    failing, err = core.eval_bool_cases(ctx, sc.HEADER, terms, shard_size=shard, name="c03", timeout=900)
    if err:
        ctx.violation("correspondence shards did not evaluate: " + err[:300], dict(kind="coq-eval", log=err), no_input=True)
        return
    ctx.coverage["traces_validated_against_impl"] = len(terms) - len(failing)
    if failing:
        hist, w = metas[failing[0]]
        ctx.violation("model writer (coq/model/Stream.v) and implementation produce different bytes on %d of %d writer streams, first: "
                      "history %r writer %d; the property held on all of them" % (len(failing), len(terms), hist, w),
                      dict(kind="correspondence", correspondence="C03 writer bytes vs coq/model/Stream.v", history=hist, writer=w), no_input=True)
        return
    for hist, w in metas[:: max(1, len(metas) // 5)]:
        ctx.sample(dict(history=hist, writer=w))


def replay(obj):
    ctx = core.Ctx("C03", "quick", obj.get("seed", 0))
    mk = pool()
    err, _, _ = run_history(ctx, mk, [tuple(x) for x in obj["history"]], obj["writers"], str(ctx.work))
    print("replay history %r -> %s" % (obj["history"], err))
    import shutil
    shutil.rmtree(ctx.work, ignore_errors=True)
    return 1 if err else 0
