"""C01 -- Record stream round-trip preserves every record exactly.

proof:  coq/props/C01.v  (C01_stream_roundtrip: for every hash function, nesting bound and item sequence
        satisfying the executable side conditions, read (write items) = items; field/envelope lemmas)
tie:    (T) gen/Gen_packer.v regenerated from packer.py/base.py/net/ip.py each run (sub-type numbers, magic,
        version, guard shape, IPv6 representation) -- the theorems are instantiated with it;
        (C) generated record sequences go through the implementation (stream writer/reader on file objects and
        the path-based writer/reader with every codec); the Coq model must produce byte-for-byte the same stream
        and read it back to the same observation, evaluated inside Coq.
"""
from __future__ import annotations

import datetime as pydt
import io
import contextlib
import os
import random
import warnings

from vf import core, recgen
from vf import streamcases as sc

THEOREMS = ["C01_generated_cfg_good", "C01_generated_pack_is_config_free", "C01_stream_roundtrip", "C01_field_roundtrip", "C01_envelope_roundtrip",
            "C01_hypotheses_satisfiable", "C01_sample_reads_back", "C01_refuted_version_restamped",
            "C01_refuted_nested_list_becomes_tuple", "C01_refuted_small_ipv6_as_integer",
            "C01_generated_ip6_small_packed", "C01_appended_streams", "C01_appended_sample_reads_back"]

HYP_HEADER = sc.HEADER + """
From FR Require Import Values_proofs Roundtrip_proofs.
Definition hyp_ok (tbl : list (desc * Z)) (items : list item) : bool :=
  stream_okb the_cfg (hash_lookup tbl) DEPTH [] items.
"""

UTC = pydt.timezone.utc
T0 = pydt.datetime(2022, 2, 2, 2, 2, 2, tzinfo=UTC)


def finding_probes():
    """(finding id, what, builder) -- each builder returns (written_item, expectation) and is replayed on the
    implementation every run."""
    from flow.record import RecordDescriptor

    def noncanonical_surrogates():
        D = RecordDescriptor("probe/s", [("string", "s")])
        return D(s="\udcc3\udca9", _generated=T0)

    def version_assigned():
        D = RecordDescriptor("probe/v", [("varint", "n")])
        r = D(n=1, _generated=T0)
        r._version = 5
        return r

    def nested_list_in_stringlist():
        D = RecordDescriptor("probe/sl", [("stringlist", "l")])
        return D(l=[["a", "b"]], _generated=T0)

    def dynamic_path():
        from flow.record.fieldtypes import path
        D = RecordDescriptor("probe/dyn", [("dynamic", "d")])
        return D(d=path.from_posix("/p"), _generated=T0)

    def generated_unset():
        D = RecordDescriptor("probe/g", [("varint", "n")])
        r = D(n=1, _generated=T0)
        r._generated = None
        return r

    return [
        ("C01-noncanonical-surrogate-pair", noncanonical_surrogates),
        ("C01-version-restamped", version_assigned),
        ("C01-nested-list-in-legacy-list", nested_list_in_stringlist),
        ("C01-dynamic-holding-path", dynamic_path),
        ("C01-generated-none", generated_unset),
    ]


def deep_equal(written, readback):
    """The property's identity, on the implementation: same kinds and values slot by slot."""
    a = [recgen.canon(recgen.obs_item(x, True)) for x in written]
    b = [recgen.canon(recgen.obs_item(x, True)) for x in readback]
    return a == b, a, b


def first_difference(a, b, path="item"):
    if type(a) != type(b):
        return "%s: %r vs %r" % (path, a, b)
    if isinstance(a, (list, tuple)):
        if len(a) != len(b):
            return "%s: length %d vs %d" % (path, len(a), len(b))
        for i, (x, y) in enumerate(zip(a, b)):
            d = first_difference(x, y, "%s[%d]" % (path, i))
            if d:
                return d
        return None
    return None if a == b else "%s: %r vs %r" % (path, a, b)


def path_roundtrip(ctx, items, ext, stream_bytes):
    """RecordWriter/RecordReader on a path with the given extension; returns (readback items, decompressed bytes)."""
    from flow.record import RecordReader, RecordWriter
    p = os.path.join(str(ctx.work), "rt%s" % ext)
    with RecordWriter(p) as w:
        for it in items:
            w.write(it)
    with warnings.catch_warnings():
        warnings.simplefilter("ignore")
        with RecordReader(p) as rd:
            rb = list(rd)
    raw = open(p, "rb").read()
    if ext.endswith(".gz"):
        import gzip
        raw = gzip.decompress(raw)
    elif ext.endswith(".bz2"):
        import bz2
        raw = bz2.decompress(raw)
    elif ext.endswith(".lz4"):
        import lz4.frame
        raw = lz4.frame.decompress(raw)
    elif ext.endswith(".zst"):
        import zstandard
        raw = zstandard.ZstdDecompressor().decompressobj().decompress(raw)
    os.unlink(p)
    return rb, raw


def raw_form(x):
    """A plain Python value that the element type of a typed list converts back to exactly x (or None when there is no
    such form for this value): what an application appends to / stores in a typed list behind the field type's back."""
    import datetime as pydt

    from flow.record import fieldtypes as ft
    from flow.record.fieldtypes.net import ip as ftip
    t = type(x)
    try:
        if isinstance(x, ft.digest):
            raw = (x.md5, x.sha1, x.sha256)
        elif isinstance(x, ft.datetime):
            raw = pydt.datetime(x.year, x.month, x.day, x.hour, x.minute, x.second, x.microsecond, tzinfo=x.tzinfo, fold=x.fold)
        elif isinstance(x, ft.path):
            raw = str(x)
        elif isinstance(x, (ftip.ipaddress, ftip.ipnetwork)):
            raw = str(x)
        elif isinstance(x, bool) or t.__name__ == "boolean":
            raw = bool(x)
        elif isinstance(x, int):
            raw = int(x)
        elif isinstance(x, float):
            raw = float(x)
        elif isinstance(x, str):
            raw = str.__str__(x) if type(x) is not str else None
            raw = "".join(raw) if raw is not None else None
        elif isinstance(x, bytes):
            raw = bytes(x)
        else:
            return None
        if raw is None or type(raw) is t:
            return None
        back = t(raw) if not isinstance(x, ft.path) else ft.path(raw)
        if type(back) is not t or repr(back) != repr(x) or (back != x and not isinstance(x, ft.digest)):
            return None
        return raw
    except Exception:  # noqa
        return None


def stage_raw(item):
    """Replaces, IN PLACE, the elements of every typed list the item holds (nested and grouped records included) by their
    raw forms; returns how many elements were replaced."""
    from flow.record import GroupedRecord, Record
    n = 0
    if isinstance(item, GroupedRecord):
        return sum(stage_raw(m) for m in item.records)
    if not isinstance(item, Record):
        return 0
    for name in item.__slots__:
        try:
            v = getattr(item, name)
        except AttributeError:
            continue
        if isinstance(v, Record):
            n += stage_raw(v)
        elif isinstance(v, list) and getattr(type(v), "__type__", None) is not None:
            for j, e in enumerate(list(v)):
                if isinstance(e, Record):
                    n += stage_raw(e)
                    continue
                raw = raw_form(e)
                if raw is not None:
                    list.__setitem__(v, j, raw)
                    n += 1
    return n


def generate_cases(ctx, n, check_paths=True):
    from flow.record.base import ignore_fields_for_comparison
    rnd = random.Random(ctx.seed)
    out = []
    exts = [".records", ".records.gz", ".records.bz2", ".records.lz4", ".records.zst"]
    for i in range(n):
        state = rnd.getstate()
        g = recgen.Gen(rnd, legacy=(i % 6 == 0))
        try:
            items = g.items(rnd.choice([1, 1, 2, 3, 4]))
        except recgen.DescriptorMismatch as e:
            out.append(dict(index=i, items=[], obs=[], error="DescriptorMismatch: %s" % e))
            continue
        # in a quarter of the cases the records that are WRITTEN are twins of the generated ones whose typed lists hold
        # raw, unconverted elements (an application appended to / assigned into the list after construction): what is
        # written and read back is the value the field type makes of them, i.e. the generated records
        to_write, staged = items, 0
        if i % 4 == 1:
            after = rnd.getstate()
            rnd.setstate(state)
            try:
                twins = recgen.Gen(rnd, legacy=(i % 6 == 0)).items(rnd.choice([1, 1, 2, 3, 4]))
            except recgen.DescriptorMismatch:
                twins = None
            if rnd.getstate() == after and twins is not None and len(twins) == len(items):
                staged = sum(stage_raw(t) for t in twins)
                if staged:
                    to_write = twins
            rnd.setstate(after)
        try:
            obs = [recgen.obs_item(x) for x in items]
        except recgen.Unobservable as e:
            # a constructed record holding a value that is not of its declared kind: C05's business; skip here
            ctx.notes.append("skipped unobservable generated record: %s" % e)
            continue
        case = dict(index=i, items=items, obs=obs, raw_staged=staged)
        # process configuration that must not leak into what is written: the ignored-fields set of record comparison
        # (FLOW_RECORD_IGNORE / set_ignored_fields_for_comparison) is non-empty in a third of the cases
        ignored = None
        if i % 3 == 2:
            try:
                declared = [n for _, n in items[0]._desc.get_field_tuples()]
            except Exception:  # noqa
                declared = []
            ignored = {"_generated"} if i % 2 else set(["_generated", "_source"] + declared[:1])
        case["ignored_fields"] = sorted(ignored) if ignored else None
        scope = ignore_fields_for_comparison(ignored) if ignored else contextlib.nullcontext()
        with scope:
            try:
                data = sc.write_stream_bytes(to_write)
                rb = sc.read_stream_items(data)
                case.update(data=data, rb=rb, rbo=[recgen.obs_item(x, True) for x in rb])
            except Exception as e:  # noqa
                case["error"] = "%s: %s" % (type(e).__name__, e)
            if check_paths and "error" not in case:
                ext = exts[i % len(exts)]
                try:
                    prb, raw = path_roundtrip(ctx, to_write, ext, case["data"])
                    case.update(ext=ext, path_rb=prb, path_raw=raw)
                except Exception as e:  # noqa
                    case["path_error"] = "%s via %s: %s" % (type(e).__name__, ext, e)
        out.append(case)
    return out


def staged_note(cs):
    if not cs.get("raw_staged"):
        return ""
    return (" (the written records are twins of the listed ones whose typed lists hold %d raw, unconverted elements - str for path / "
            "address, int, hex tuple for digest ... - put there behind the field type's back with list.__setitem__)" % cs["raw_staged"])


def check_property(ctx, cases):
    """The property on the implementation. Returns True when a violation was reported."""
    for cs in cases:
        items = cs["items"]
        nontrivial = any(v[0] != "none" for o in cs["obs"] for v in (o[3][:-4] if o[0] == "rec" else [("x",)]))
        ctx.count_case(cs["obs"], nontrivial=nontrivial)
        if "error" in cs:
            ctx.violation("writing/reading a generated sequence raised %s%s" % (cs["error"], staged_note(cs)),
                          dict(kind="roundtrip-raises", case=cs["index"], ignored_fields_for_comparison=cs.get("ignored_fields"), items=[repr(x) for x in items],
                               raw_staged_list_elements=cs.get("raw_staged", 0), error=cs["error"]))
            return True
        ok, a, b = deep_equal(items, cs["rb"])
        if not ok:
            ctx.violation("stream round trip changed a record%s%s: %s" % (staged_note(cs), " (written while the ignored-fields set of record comparison was %s)" % cs["ignored_fields"] if cs.get("ignored_fields") else "", first_difference(a, b)),
                          dict(kind="roundtrip", case=cs["index"], ignored_fields_for_comparison=cs.get("ignored_fields"), items=[repr(x) for x in items],
                               readback=[repr(x) for x in cs["rb"]], difference=first_difference(a, b)))
            return True
        if "path_error" in cs:
            ctx.violation("path-based round trip raised %s" % cs["path_error"],
                          dict(kind="path-roundtrip-raises", case=cs["index"], items=[repr(x) for x in items], error=cs["path_error"]))
            return True
        if "path_rb" in cs:
            ok, a, b = deep_equal(items, cs["path_rb"])
            if not ok or cs["path_raw"] != cs["data"]:
                ctx.violation("path-based round trip (%s) differs: %s" % (cs["ext"], first_difference(a, b) or "file bytes differ from the file-object stream"),
                              dict(kind="path-roundtrip", case=cs["index"], ext=cs["ext"], items=[repr(x) for x in items],
                                   difference=first_difference(a, b)))
                return True
    return False


def appended_stream_cases(ctx, cases):
    """Two record streams one after the other in one file (cat a.records b.records, a second writer appending to the file
    of a first): the reader skips the second header, takes the repeated / changed definitions as they come and yields
    every record of both parts.  Returns (violation reported?, Coq terms read_ok for the concatenations)."""
    terms = []
    good = [cs for cs in cases if "error" not in cs and cs.get("items")]
    for a, b in zip(good[0::3], good[1::3]):
        data = a["data"] + b["data"]
        items = a["items"] + b["items"]
        ctx.count_case(("appended", a["index"], b["index"]))
        try:
            rb = sc.read_stream_items(data)
            okeq, x, y = deep_equal(items, rb)
            problem = None if okeq else "records read back differ: %s" % first_difference(x, y)
        except Exception as e:  # noqa
            problem = "reading raised %s: %s" % (type(e).__name__, e)
        if problem:
            ctx.violation("two streams written one after the other into one file (%d + %d records): %s" % (len(a["items"]), len(b["items"]), problem),
                          dict(kind="appended-streams", first=[repr(i) for i in a["items"]], second=[repr(i) for i in b["items"]],
                               stream_hex=data.hex()[:6000], problem=problem))
            return True, terms
        rbo = a["rbo"] + b["rbo"]
        terms.append(sc.render_case(rbo, data, rbo, kind="read_ok"))
    return False, terms


def replay_findings(ctx):
    kf = {f["id"]: f for f in core.known_for("C01")}
    for fid, build in finding_probes():
        try:
            r = build()
            data = sc.write_stream_bytes([r])
            rb = sc.read_stream_items(data)
            ok, a, b = deep_equal([r], rb)
            failed = not ok
            detail = first_difference(a, b)
        except Exception as e:  # noqa
            failed, detail = True, "%s: %s" % (type(e).__name__, e)
        ctx.count_case(("finding", fid))
        if failed:
            if fid in kf:
                ctx.known_finding(fid, kf[fid]["what"])
            else:
                ctx.violation("probe %s fails and is not a listed finding: %s" % (fid, detail), dict(kind="probe", probe=fid, detail=detail))
        elif fid in kf:
            ctx.notes.append("listed finding %s no longer reproduces" % fid)


def refused_write_cases(ctx):
    """A record the writer REFUSES (packing its values raises) while the application carries on: every record whose write
    succeeded must still read back, in order and unchanged - in particular when the refused record was the first of its
    type, or of a type nested in / grouped with later ones.  Returns True when a violation was reported."""
    from flow.record import GroupedRecord, RecordDescriptor
    P = RecordDescriptor("refuse/p", [("uint16[]", "ports"), ("string", "s")])
    Q = RecordDescriptor("refuse/q", [("string", "t")])
    H = RecordDescriptor("refuse/h", [("record", "r"), ("varint", "k")])

    def good(i):
        return P(ports=[1, i], s="g%d" % i, _generated=T0)

    def poisoned(i):
        r = P(ports=[1], s="bad%d" % i, _generated=T0)
        r.ports.append(70000 + i)          # a raw out-of-range element appended behind the field type's back
        return r
    q = lambda i: Q(t="q%d" % i, _generated=T0)   # noqa: E731
    scenarios = {
        "first-of-type-refused": [poisoned(0), good(1), good(2)],
        "refused-between": [good(0), poisoned(1), good(2), q(3)],
        "refused-nested-first": [H(r=poisoned(0), k=0, _generated=T0), good(1), H(r=good(2), k=2, _generated=T0)],
        "refused-group-member-first": [GroupedRecord("refuse/g", [q(0), poisoned(1)]), good(2), q(3)],
        "two-refused": [poisoned(0), poisoned(1), good(2)],
        "other-type-then-refused-first": [q(0), poisoned(1), good(2), q(3), good(4)],
    }
    for name, items in scenarios.items():
        ctx.count_case(("refused-write", name))
        data, ok, errors = sc.write_stream_bytes_tolerant(items)
        if not errors:
            ctx.notes.append("refused-write scenario %s: no write was refused (the poisoned record was accepted)" % name)
            continue
        written = [items[i] for i in ok]
        try:
            rb = sc.read_stream_items(data)
            okeq, a, b = deep_equal(written, rb)
            problem = None if okeq else "records read back differ from the records whose write succeeded: %s" % first_difference(a, b)
        except Exception as e:  # noqa
            problem = "reading back raised %s: %s" % (type(e).__name__, e)
        if problem:
            ctx.violation("after a refused write (%s; %s) the application carried on: %s" % (name, errors[0][1][:80], problem),
                          dict(kind="refused-write", scenario=name, items=[repr(x)[:200] for x in items], refused=errors, problem=problem))
            return True
    return False


def rewrite_after_mutation_cases(ctx):
    """ONE record object written (and compared / hashed), then changed IN PLACE through the mutable values it holds (the
    argument list of a command, a typed list, a dict inside a dictlist), then written again: every write stores what the
    record holds at that moment.  Returns True when a violation was reported."""
    from flow.record import GroupedRecord, RecordDescriptor
    from flow.record.fieldtypes import command
    D = RecordDescriptor("mut/rec", [("command", "cmd"), ("command[]", "cmds"), ("string[]", "tags"), ("varint[]", "nums"),
                                     ("stringlist", "sl"), ("dictlist", "dl"), ("path", "p"), ("string", "s"), ("digest", "dg")])
    H = RecordDescriptor("mut/holder", [("record", "r"), ("string", "t")])

    def fresh():
        return D(cmd="ls -l /tmp", cmds=["cat /x", "echo a b"], tags=["a"], nums=[1, 2], sl=["x"], dl=[{"k": 1}], p="/a", s="s",
                 dg=("d41d8cd98f00b204e9800998ecf8427e", None, "e3b0c442" * 8), _generated=T0)

    def mutate(r, step):
        st = type(r.tags[0]) if r.tags else str
        if step == 0:
            r.cmd.args.append("--extra")
        elif step == 1:
            r.cmd.args[0] = "-a"
        elif step == 2:
            r.cmds[1].args.append("c")
        elif step == 3:
            r.tags.append(st("b"))
        elif step == 4:
            r.nums[0] = type(r.nums[1])(99)
        elif step == 5:
            r.sl.append("y")
        elif step == 6:
            r.dl[0]["k"] = 2
        elif step == 7:
            r.cmds.append(command("uname -a"))
        elif step == 8:
            del r.tags[0]
        elif step == 9:
            r.dg.sha256 = None          # a hash withdrawn in place: what is written afterwards must not carry it any more
        elif step == 10:
            r.dg.md5 = None
            r.dg.sha1 = "da39a3ee5e6b4b0d3255bfef95601890afd80709"

    wrappers = {"plain": lambda r: r, "nested": lambda r: H(r=r, t="h", _generated=T0),
                "grouped": lambda r: GroupedRecord("mut/grp", [r, H(r=None, t="g", _generated=T0)])}
    for wname, wrap in wrappers.items():
        for touch in ("none", "hash", "eq", "pack"):
            r = fresh()
            outer = wrap(r)
            written_obs, chunks = [], []
            try:
                from flow.record import RecordStreamWriter
                import io as _io
                buf = _io.BytesIO()
                w = RecordStreamWriter(buf)
                for step in range(-1, 11):
                    if step >= 0:
                        mutate(r, step)
                    written_obs.append(recgen.canon(recgen.obs_item(outer, True)))
                    w.write(outer)
                    if touch == "hash":
                        hash(outer)
                    elif touch == "eq":
                        outer == wrap(fresh())
                    elif touch == "pack":
                        r._pack()
                data = buf.getvalue()
                w.fp = None
                rb = [recgen.canon(recgen.obs_item(x, True)) for x in sc.read_stream_items(data)]
                problem = None if rb == written_obs else "write #%d stored other values than the record held when it was written" % next(
                    (i for i, (a, b) in enumerate(zip(written_obs, rb)) if a != b), min(len(rb), len(written_obs)))
            except Exception as e:  # noqa
                problem = "%s: %s" % (type(e).__name__, e)
            ctx.count_case(("rewrite-after-mutation", wname, touch))
            if problem:
                ctx.violation("one record (%s, touched by %s between writes) written, changed in place, written again: %s" % (wname, touch, problem),
                              dict(kind="rewrite-after-mutation", wrapper=wname, touch=touch, problem=problem,
                                   steps="cmd.args.append / cmd.args[0]= / cmds[1].args.append / tags.append / nums[0]= / sl.append / "
                                         "dl[0][k]= / cmds.append / del tags[0] / dg.sha256=None / dg.md5=None, dg.sha1=.."))
                return True
    return False


def fresh_process_smoke(ctx):
    """One record of every serialisable field type (plus keyword-named fields, nested and grouped records) written and read
    in a CHILD interpreter that imports only what a user script imports, compared with the same scenario in-process: an
    import-order dependence or module-level state left behind by the harness' own imports cannot hide a failure.
    Returns True when a violation was reported."""
    import json
    import subprocess
    import sys
    from vf import smoke_stream
    wd = str(ctx.work)
    script = os.path.join(os.path.dirname(os.path.abspath(smoke_stream.__file__)), "smoke_stream.py")
    env = dict(os.environ, PYTHONPATH=str(core.REPO), PYTHONHASHSEED="0")
    p = subprocess.run([sys.executable, "-W", "ignore", script, wd], env=env, cwd=wd, stdout=subprocess.PIPE, stderr=subprocess.PIPE, text=True, timeout=300)
    ctx.count_case(("fresh-process-smoke",))
    if p.returncode != 0:
        ctx.violation("the stream smoke scenario fails in a fresh interpreter that imports only flow.record: %s" % p.stderr.strip().splitlines()[-1:],
                      dict(kind="fresh-process", script="tools/vf/smoke_stream.py", stderr=p.stderr[-3000:]))
        return True
    child = json.loads(p.stdout)
    with warnings.catch_warnings():
        warnings.simplefilter("ignore")
        here = json.loads(json.dumps(smoke_stream.scenario(wd), sort_keys=True))
    problems = []
    for who, d in (("child", child), ("in-process", here)):
        if d["stream_readback"] != d["written"]:
            problems.append("%s: the low-level stream reads back other records than written" % who)
        for k, v in d.items():
            if k.startswith("path.records") and v != d["written"][:2]:
                problems.append("%s: %s reads back %s" % (who, k, str(v)[:200]))
    for k in sorted(set(child) | set(here)):
        if child.get(k) != here.get(k):
            problems.append("child and in-process run differ in %s: %s vs %s" % (k, str(child.get(k))[:200], str(here.get(k))[:200]))
    if problems:
        ctx.violation("stream smoke scenario (one record of every field type, keyword fields, nested, grouped): " + problems[0],
                      dict(kind="fresh-process", script="tools/vf/smoke_stream.py", problems=problems[:10]))
        return True
    return False


def search(ctx, reason):
    cases = generate_cases(ctx, 150, check_paths=False)
    if check_property(ctx, cases):
        return True
    if appended_stream_cases(ctx, cases)[0] or refused_write_cases(ctx) or rewrite_after_mutation_cases(ctx):
        return True
    # descriptor-registry histories (same-name / identifier-coincident / nested / grouped descriptors): a record decoded
    # with another descriptor is a round-trip failure too
    from vf.props import c03
    _, _, found = c03.explore(ctx, report=True)
    return found


def run(ctx):
    ctx.coverage["rule"] = (
        "seeded record sequences (1-4 items; descriptors over every serialisable whitelisted type in scalar and list form, "
        "nested record / record[] fields, grouped records, keyword-named fields, legacy list types in 1/6 of the cases; values "
        "from boundary tables: ints around 2^7..2^64 and beyond, msgpack length classes, surrogate escapes, float bit patterns, "
        "offsets with seconds, IANA zones with folds/gaps, both path/command flavours, both address families) through "
        "RecordStreamWriter/Reader on BytesIO and RecordWriter/RecordReader on paths (none/gz/bz2/lz4/zst); in a quarter of the cases "
        "the written records are twins whose typed lists hold raw unconverted elements; every third pair of cases is also read as "
        "ONE file holding the two streams one after the other (appended streams). distinct = distinct "
        "deep observation of the written sequence; non-trivial = at least one declared field is not None")
    n = 96 if ctx.tier == "quick" else 1200
    ok = core.standard_proof_stage(ctx, ["props/C01.vo", "model/Observe.vo"], "C01", THEOREMS, search_fn=search, gens=["gen_packer"])
    ctx.assumptions += [
        "text is identified with its UTF-8/surrogateescape encoding (CPython codec is an environment hypothesis; non-canonical "
        "surrogate pairs are the known finding C01-noncanonical-surrogate-pair)",
        "msgpack-python's byte-level behaviour is modelled (coq/model/Msgpack.v) and validated byte-exactly on every case",
        "pathlib normalisation, ipaddress parsing, a2b_hex/b2a_hex and datetime.isoformat/fromisoformat are environment "
        "behaviour: values are observed in their packed form, timestamps by (wall clock fields, UTC offset)",
        "SHA-256 is an arbitrary function in the theorems (HASH parameter); the implementation's hashes are supplied as a table",
        "legacy untyped payloads (stringlist/dictlist/dynamic) are outside the theorem's typed fragment: correspondence only",
    ]
    if not ok:
        return
    cases = generate_cases(ctx, n)
    if check_property(ctx, cases):
        return
    found, appended_terms = appended_stream_cases(ctx, cases)
    if found:
        return
    replay_findings(ctx)
    if fresh_process_smoke(ctx) or refused_write_cases(ctx) or rewrite_after_mutation_cases(ctx):
        return
    # descriptor-registry histories (same-name / identifier-coincident / nested / grouped descriptors on 1-3 writers): a record
    # decoded with another descriptor is a round-trip failure too
    from vf.props import c03
    _, _, found = c03.explore(ctx, report=True)
    if found:
        return
    # model = implementation, inside Coq
    terms = [sc.render_case(cs["obs"], cs["data"], cs["rbo"]) for cs in cases] + appended_terms
    shard = max(1, (len(terms) + 15) // 16)
    failing, err = core.eval_bool_cases(ctx, sc.HEADER, terms, shard_size=shard, name="c01", timeout=900)
    if err:
        ctx.violation("correspondence shards did not evaluate: " + err[:300], dict(kind="coq-eval", log=err), no_input=True)
        return
    ctx.coverage["traces_validated_against_impl"] = len(terms) - len(failing)
    if failing:
        cs = cases[failing[0]] if failing[0] < len(cases) else dict(index="appended-%d" % (failing[0] - len(cases)), items=[], data=b"")
        ctx.violation(
            "model (coq/model/Stream.v) and implementation disagree on %d of %d sequences (bytes written or records read back); "
            "the round-trip property itself held on all of them" % (len(failing), len(terms)),
            dict(kind="correspondence", correspondence="C01 stream bytes/readback vs coq/model/Stream.v",
                 first_case=cs["index"], items=[repr(x) for x in cs["items"]], stream_hex=cs["data"].hex()[:4000]), no_input=True)
        return
    # how many generated sequences satisfy the theorem's hypotheses (non-vacuity, measured)
    hyp_terms = []
    for cs in cases:
        descs = []
        for o in cs["obs"]:
            recgen.descs_of(o, descs)
        hyp_terms.append("(hyp_ok %s [%s])" % (recgen.coq_hash_table(descs), "; ".join(recgen.coq_item(o) for o in cs["obs"])))
    outside, err = core.eval_bool_cases(ctx, HYP_HEADER, hyp_terms, shard_size=shard, name="c01h", timeout=900)
    if err:
        ctx.notes.append("hypothesis-coverage evaluation failed: " + err[:200])
    else:
        ctx.coverage["cases_inside_theorem_hypotheses"] = len(hyp_terms) - len(outside)
        ctx.coverage["cases_outside_theorem_hypotheses"] = len(outside)
    for cs in cases[:3]:
        ctx.sample(dict(items=[repr(x)[:300] for x in cs["items"]], stream_bytes=len(cs["data"])))


def replay(obj):
    print("replay: re-run ./check C01 with VERIF_SEED=%s (case %s): %s" % (obj.get("seed"), obj.get("case"), obj.get("what")))
    return 2
