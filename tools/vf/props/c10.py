"""C10 -- reading with a selector equals filtering afterwards; matching is pure.

proof:   coq/props/C10.v (theorems about model/Filter.v instantiated with the GENERATED shapes of the five readers'
         filter loops and the GENERATED reset/reuse/copy facts of the two selector engines, gen/Gen_filter.v)
tie:     (T) gen/Gen_filter.v is regenerated from stream.py, the four adapters and selector.py on every run and the
         property theorems are instantiated with it (`reflexivity`/`eq_refl` on the facts);
         (C) record sequences x selectors (as text, Selector, CompiledSelector, recompiled Selector) x the five readers
         are run on the implementation: what the reader yields WITH the selector is compared (deep observation, order
         and multiplicity) with what it yields WITHOUT, filtered afterwards; every record is observed before and after
         match(); the per-record results in file order, in a shuffled order and on a fresh selector object per record
         must be identical; the model's iter_reader is evaluated inside Coq on the decoded-object list and the observed
         per-record results and compared with the indices the implementation yielded.
"""
from __future__ import annotations

import datetime as _dt
import json
import os
import random
import shutil

from vf import core, recgen
from vf.coqlit import cbool, clist

THEOREMS = [
    "C10_generated_shapes_ok", "C10_generated_matcher_ok", "C10_generated_no_record_writes",
    "C10_filter", "C10_filter_reachable", "C10_filter_total", "C10_filter_raising_prefix", "C10_no_selector_yields_all",
    "C10_filter_sqlite_tables", "C10_yielded_object_is_tested_object", "C10_match_history_independent",
    "C10_filter_interpreted", "C10_compiled_ns_not_shared", "C10_filter_compiled", "C10_make_selector",
    "C10_refuted_unguarded_site", "C10_refuted_break_on_nonmatch", "C10_refuted_tests_other_object",
    "C10_refuted_namespace_updated_in_place", "C10_refuted_compiled_ns_shared", "C10_hyp_satisfiable",
]

UTC = _dt.timezone.utc
GEN_TS = _dt.datetime(2021, 1, 1, tzinfo=UTC)

READERS = [
    # short, Coq kind, uri scheme, extension
    ("stream", "KStream", "", ".records"),
    ("json", "KJson", "jsonfile://", ".json"),
    ("avro", "KAvro", "avro://", ".avro"),
    ("csv", "KCsv", "csvfile://", ".csv"),
    ("sqlite", "KSqlite", "sqlite://", ".db"),
]

# (selector text, shape label, engines: "both" | "compiled")
SELECTORS = [
    # simple comparisons
    ("r.n == 1", "cmp-eq", "both"), ("r.n != 1", "cmp-ne", "both"), ("r.n > 1", "cmp-gt", "both"),
    ("r.n <= 2", "cmp-le", "both"), ("r.s == 'a'", "cmp-str", "both"), ("r.f < 2.0", "cmp-float", "both"),
    ("1 < r.n < 3", "cmp-chain", "both"), ("r.s == '1'", "cmp-str-digit", "both"),
    # and / or / not
    ("r.n == 1 and r.s == 'a'", "and", "both"), ("r.n == 1 or r.s == 'x'", "or", "both"),
    ("not r.n == 1", "not", "both"), ("not (r.n == 1 or r.m == 3)", "not-or-missing", "both"),
    ("r.n > 0 and (r.s == 'a' or r.s == 'A') and not r.n == 3", "and-or-not", "both"),
    # in / not in
    ("r.s in ['a', 'x']", "in-list", "both"), ("r.n not in [1, 2]", "notin-list", "both"),
    ("'x' in r.sl", "in-field-list", "both"), ("'b' in r.s", "in-field-text", "both"),
    # helper functions
    ("field_contains(r, ['s'], ['x'])", "helper-contains", "both"),
    ("field_contains(r, ['sl', 's'], ['x'], nocase=False)", "helper-contains-list-field", "both"), ("lower(r.s) == 'a'", "helper-lower", "both"),
    ("upper(r.s) == 'A'", "helper-upper", "both"), ("field_equals(r, ['s', 'other'], ['a', 'z'])", "helper-equals", "both"),
    ("field_regex(r, ['s'], '^a')", "helper-regex", "both"), ("has_field(r, 'm')", "helper-has-field", "both"),
    ("name(r) == 'c10/b'", "helper-name", "both"), ("'c10/a' in names(r)", "helper-names", "both"),
    ("field_contains(r, ['s', 'other'], ['A'], nocase=False)", "helper-contains-kw", "both"),
    # typed matchers
    ("Type.string == 'x'", "type-eq", "both"), ("Type.varint > 1", "type-gt", "both"),
    ("'a' in Type.string", "type-in", "both"), ("Type.string == 'a' or Type.varint == 3", "type-or", "both"),
    ("Type.string == 'z'", "type-eq-z", "both"), ("'z' in Type.string", "type-in-z", "both"), ("Type.varint == 3", "type-eq-varint", "both"),
    ("Type.uri.filename == 'b'", "type-attr", "both"), ("field_contains(r, Type.string, ['z'])", "type-as-field-list", "both"),
    ("Type.string != 'a'", "type-ne", "both"),
    # generator expressions over list fields
    ("any(x == 1 for x in r.il)", "any-gen", "both"), ("all(x > 0 for x in r.il)", "all-gen", "both"),
    ("any(e == 'x' for e in r.sl)", "any-gen-str", "both"),
    ("any(x == 1 for x in r.il) or any(y == 'x' for y in r.sl)", "any-gen-two-vars", "both"),
    ("any(x == r.n for x in r.il)", "any-gen-uses-record", "both"),
    ("any(x > 1 for x in r.il if x != 3)", "any-gen-if", "both"),
    ("any(x == 1 for x in r.il) and any(x == 2 for x in r.il)", "any-gen-same-var-twice", "both"),
    ("any(c == 'x' for c in r.s)", "any-gen-over-text", "both"),
    # fields(<type>): the field list of the descriptor of the record BEING matched (descriptors of one input differ)
    ("field_contains(r, (f.name for f in fields('string')), ['a', 'z'])", "fields-helper-arg-gen", "both"),
    ("field_equals(r, (f.name for f in fields('string')), ['x', 'z'])", "fields-helper-arg-gen-equals", "both"),
    ("any(f.name == 'other' for f in fields('string'))", "fields-any-gen", "both"),
    ("any(f.name == 'm' for f in fields('varint'))", "fields-any-gen-varint", "both"),
    ("all(f.name != 's' for f in fields(string))", "fields-dynamic-typename", "both"),
    ("field_regex(r, (f.name for f in fields('string')), '^[aA]$') or any(g.name == 'n' for g in fields('varint'))", "fields-two-uses", "both"),
    ("name(r) == 'c10/c' or 'c10/b' in names(r)", "name-names", "both"),
    ("Type.string == 'z' or Type.string == 'a'", "type-string-across-descriptors", "both"),
    ("Type.varint == 3 and not Type.string == 'a'", "type-varint-string", "both"),
    # fields of a nested record whose descriptor differs from record to record
    ("r.sub.n == 1", "nested-eq", "both"), ("r.sub.other == 'z' or r.sub.m == 3", "nested-or", "both"),
    ("r.sub.s in ['a', 'x'] and r.k > 0", "nested-in-and", "both"), ("any(x == 1 for x in r.sub.il)", "nested-gen", "both"),
    # fields some records lack
    ("r.m == 3", "missing-eq", "both"), ("r.other == 'z'", "missing-other", "both"), ("r.zz == 1", "missing-everywhere", "both"),
    ("r.m > 1 or r.n > 1", "missing-or", "both"), ("r.zz != 1", "missing-ne", "both"),
    # constants / degenerate
    ("True", "const-true", "both"), ("False", "const-false", "both"), ("", "empty", "both"), ("r.s", "truthiness", "both"),
    # a selector that raises on every record, one that raises on some
    ("r.n + 'a' == 1", "raises-typeerror", "both"), ("len(r.s) == 1", "disallowed-call", "both"),
    # compiled engine only (plain Python): a name bound while evaluating must not survive the call
    ("(r.n == 1 and (upper := lower) and False) or upper(r.s) == 'A'", "walrus-rebinds-helper", "compiled"),
    ("(r.n == 2 and (seen := 1) and False) or has_field(r, 's')", "walrus-new-name", "compiled"),
]

FORMS = ["text", "interpreted", "compiled", "recompiled"]

# atoms for the seeded random compositions ({v} = a generator variable, made distinct per occurrence)
ATOMS = [
    ("r.n == 1", "cmp"), ("r.n > 1", "cmp"), ("r.s == 'a'", "cmp"), ("r.s != 'x'", "cmp"), ("r.m == 3", "missing"),
    ("r.zz == 1", "missing"), ("r.s in ['a', 'x']", "in"), ("'x' in r.sl", "in"), ("r.n not in [0, 3]", "in"),
    ("lower(r.s) == 'a'", "helper"), ("field_contains(r, ['s'], ['x'])", "helper"), ("has_field(r, 'other')", "helper"),
    ("Type.string == 'x'", "type"), ("Type.varint > 1", "type"),
    ("any({v} == 1 for {v} in r.il)", "gen"), ("all({v} != 'b' for {v} in r.sl)", "gen"), ("True", "const"),
]


def random_selectors(seed, k):
    """k seeded compositions of the atoms with and / or / not (depth <= 3) -> [(text, shape label, 'both')]"""
    rnd = random.Random("c10sel:%d" % seed)
    out = []
    for _ in range(k):
        counter = [0]

        def build(depth):
            c = rnd.random()
            if depth == 0 or c < 0.3:
                t, cat = rnd.choice(ATOMS)
                counter[0] += 1
                return t.replace("{v}", "v%d" % counter[0]), cat
            if c < 0.45:
                t, sh = build(depth - 1)
                return "not (%s)" % t, "not(%s)" % sh
            op = rnd.choice(["and", "or"])
            parts = [build(depth - 1) for _ in range(rnd.choice([2, 2, 3]))]
            return "(" + (" %s " % op).join(t for t, _ in parts) + ")", "%s(%s)" % (op, ",".join(sh for _, sh in parts))
        t, sh = build(3)
        out.append((t, "rand:" + sh, "both"))
    return out


def selectors_for(ctx_seed, tier):
    return SELECTORS + random_selectors(ctx_seed, 10 if tier == "quick" else 40)


# ------------------------------------------------------------------------------------------
# inputs

def _descs():
    from flow.record import RecordDescriptor
    return dict(
        A=RecordDescriptor("c10/a", [("varint", "n"), ("string", "s"), ("varint[]", "il"), ("string[]", "sl"), ("float", "f"),
                                     ("boolean", "b"), ("datetime", "ts"), ("bytes", "raw"), ("net.ipaddress", "ip"),
                                     ("path", "p"), ("uint16", "u")]),
        B=RecordDescriptor("c10/b", [("string", "s"), ("varint", "m"), ("string[]", "sl")]),
        C=RecordDescriptor("c10/c", [("string", "other"), ("varint", "n")]),
        AVRO=RecordDescriptor("c10/a", [("varint", "n"), ("string", "s"), ("float", "f"), ("boolean", "b"), ("datetime", "ts"),
                                        ("bytes", "raw"), ("uint16", "u"), ("string", "other")]),
        CSV=RecordDescriptor("c10/a", [("varint", "n"), ("string", "s"), ("string", "other"), ("varint", "m")]),
        SA=RecordDescriptor("c10/a", [("varint", "n"), ("string", "s"), ("float", "f"), ("bytes", "raw"), ("datetime", "ts"),
                                      ("string[]", "sl"), ("boolean", "b")]),
    )


S_VALUES = ["a", "A", "x", "abc", "xa", "1", "b", None, "x y"]
N_VALUES = [0, 1, 2, 3, 1, 2, None]


def _vals(rnd, names):
    out = {}
    for k in names:
        if k in ("n", "m"):
            out[k] = rnd.choice(N_VALUES)
        elif k in ("s", "other"):
            out[k] = rnd.choice(S_VALUES if k == "s" else ["z", "a", "A", None])
        elif k == "il":
            out[k] = rnd.choice([[1], [2, 3], [], [1, 2], [3], None, [0, 1, 3]])
        elif k == "sl":
            out[k] = rnd.choice([["x"], ["a", "x"], [], ["b"], None, ["xa", "c"]])
        elif k == "f":
            out[k] = rnd.choice([1.5, 2.5, 0.0, None, -1.0])
        elif k == "b":
            out[k] = rnd.choice([True, False, None])
        elif k == "ts":
            out[k] = rnd.choice([None, _dt.datetime(2020, 5, 6, 7, 8, 9, tzinfo=UTC), _dt.datetime(1999, 1, 1, tzinfo=UTC)])
        elif k == "raw":
            out[k] = rnd.choice([b"x", b"\x00\xff", None, b""])
        elif k == "ip":
            out[k] = rnd.choice(["10.0.0.1", "2001:db8::1", None])
        elif k == "p":
            out[k] = rnd.choice(["/tmp/x", "a/b", None])
        elif k == "u":
            out[k] = rnd.choice([0, 7, 65535, None])
        elif k == "link":
            out[k] = rnd.choice(["http://h/a/b", "http://h/x", None, "file:///z"])
    return out


def make_sequence(reader, seed, idx, tier):
    """-> dict(records=[Record,...], plain=[(position, json text)], random=bool)"""
    rnd = random.Random("c10:%d:%s:%d" % (seed, reader, idx))
    D = _descs()
    n = rnd.randint(6, 14)
    recs = []
    plain = []
    if reader == "stream" and idx % 3 == 1:
        # grouped records of differing member composition (all instances of ONE class, GroupedRecord) and records
        # with a nested `record` field holding records of differing descriptors: each compared field is first
        # lacking and later present, and the other way round, so anything a selector object remembers per class or
        # per attribute name shows up as history dependence
        from flow.record import GroupedRecord, RecordDescriptor
        N = RecordDescriptor("c10/nest", [("record", "sub"), ("varint", "k")])
        # a "newer version" of a record type: SAME name, other fields (anything remembered per type NAME goes wrong)
        D = dict(D)
        D["X"] = RecordDescriptor("c10/a", [("varint", "n"), ("string", "s"), ("string", "other"), ("uri", "link")])
        D["Y"] = RecordDescriptor("c10/b", [("string", "s"), ("varint", "m"), ("string", "other"), ("varint", "n")])

        def mk(k):
            d = D[k]
            return d(_generated=GEN_TS, **_vals(rnd, [f for _, f in d.get_field_tuples()]))

        def grp(ks):
            return GroupedRecord("c10/grp", [mk(k) for k in ks])

        def nest(k):
            return N(sub=(mk(k) if k else None), k=rnd.choice([0, 1, 2]), _generated=GEN_TS)
        rounds = []
        for _ in range(2):
            block = [grp("B"), grp("C"), grp("A"), grp("BC"), grp("CA"), grp("X"), grp("YC"), nest("B"), nest("C"), nest("A"), nest("X"),
                     nest(None), mk("A"), mk("B"), mk("C"), mk("X"), mk("Y"), mk("X"), mk("Y")]
            rnd.shuffle(block)
            rounds += block
        # both orders of every (lacking, having) pair are present: the second round repeats all compositions
        return dict(records=rounds, plain=[], random=False)
    if reader == "stream" and idx % 3 == 2:
        # arbitrary descriptors / values of every field type, grouped records included
        g = recgen.Gen(rnd, legacy=True, nested=True)
        recs = g.items(rnd.randint(5, 10))
        return dict(records=recs, plain=[], random=True)
    for _ in range(n):
        if reader in ("stream", "json"):
            k = rnd.choice("AAABBC")
        elif reader == "sqlite":
            k = rnd.choice(["SA", "SA", "SA", "B", "B", "C"])
        elif reader == "avro":
            k = "AVRO"
        else:
            k = "CSV"
        d = D[k]
        recs.append(d(_generated=GEN_TS, **_vals(rnd, [f for _, f in d.get_field_tuples()])))
    if reader == "json":
        for _ in range(rnd.randint(1, 4)):
            obj = rnd.choice([{"s": "x", "n": 1}, {"s": "a"}, {"n": 2, "other": "z"}, {"s": "A", "n": 3, "m": 3}, {}, {"s": "xa", "k": 1.5}])
            # a plain object without "_generated" would be stamped with the time of reading (never compare "now")
            obj = dict(obj, _generated="2021-01-01T00:00:00+00:00")
            plain.append((rnd.randint(0, n), json.dumps(obj)))
    return dict(records=recs, plain=plain, random=False)


def write_input(reader, path, seq):
    from flow.record import RecordWriter
    scheme = dict((r[0], r[2]) for r in READERS)[reader]
    if os.path.exists(path):
        os.unlink(path)
    w = RecordWriter(scheme + path)
    try:
        for r in seq["records"]:
            w.write(r)
        w.flush()
    finally:
        w.close()
    if reader == "json" and seq["plain"]:
        lines = open(path).read().split("\n")
        assert lines[-1] == ""
        lines = lines[:-1]
        # insert plain objects at record positions (position counted in records; a descriptor line stays before its record)
        rec_line_idx = [i for i, ln in enumerate(lines) if '"_type": "recorddescriptor"' not in ln]
        inserts = {}
        for pos, text in seq["plain"]:
            at = rec_line_idx[pos] if pos < len(rec_line_idx) else len(lines)
            # never between a descriptor line and the record it precedes
            while at > 0 and '"_type": "recorddescriptor"' in lines[at - 1]:
                at -= 1
            inserts.setdefault(at, []).append(text)
        out = []
        for i, ln in enumerate(lines + [None]):
            out += inserts.get(i, [])
            if ln is not None:
                out.append(ln)
        open(path, "w").write("\n".join(out) + "\n")
    return scheme + path


def decoded_items(reader, path, nbase):
    """The list of decoded objects the reader's loop sees, as Coq items: record index in yield order."""
    if reader == "stream":
        from flow.record import RecordDescriptor
        from flow.record.stream import RECORDSTREAM_MAGIC, RecordStreamReader
        items = []
        k = 0
        with open(path, "rb") as fp:
            rs = RecordStreamReader(fp)
            while True:
                try:
                    obj = rs.read()
                except EOFError:
                    break
                if isinstance(obj, RecordDescriptor):
                    rs.packer.register(obj)
                    items.append("IDesc")
                elif obj == RECORDSTREAM_MAGIC:
                    items.append("IDesc")
                else:
                    items.append("IRec %d" % k)
                    k += 1
        return items
    if reader == "json":
        from flow.record import JsonRecordPacker, Record, RecordDescriptor
        pk = JsonRecordPacker()
        items = []
        k = 0
        for line in open(path):
            obj = pk.unpack(line)
            if isinstance(obj, Record):
                items.append("IRec %d" % k)
                k += 1
            elif isinstance(obj, RecordDescriptor):
                items.append("IDesc")
            else:
                items.append("IPlain %d" % k)
                k += 1
        return items
    return ["IRec %d" % k for k in range(nbase)]


def read_all(uri, selector=None, use_selector=False):
    from flow.record import RecordReader
    out, err = [], None
    rd = None
    try:
        try:
            rd = RecordReader(uri, selector=selector) if use_selector else RecordReader(uri)
            for r in rd:
                out.append(r)
        except Exception as e:  # noqa
            err = type(e).__name__
    finally:
        try:
            if rd is not None:
                rd.close()
        except Exception:  # noqa
            pass
    return out, err


def obs(r):
    return recgen.canon(recgen.obs_item(r))


def make_form(text, form):
    """-> (what is handed to the reader, the selector object used for matching directly [None = no selector])"""
    from flow.record.selector import CompiledSelector, Selector, make_selector
    if form == "text":
        return text, make_selector(text)
    if form == "interpreted":
        return Selector(text), Selector(text)
    if form == "compiled":
        return CompiledSelector(text), CompiledSelector(text)
    if form == "recompiled":
        return make_selector(Selector(text), force_compiled=True), make_selector(Selector(text), force_compiled=True)
    raise ValueError(form)


def outcome(selobj, rec):
    if selobj is None:
        return ("V", True)
    try:
        return ("V", bool(selobj.match(rec)))
    except Exception as e:  # noqa
        return ("E", type(e).__name__)


import operator as _operator

# selector text -> (field type, attribute path, operator(value, constant), constant)
TYPE_ORACLES = {
    "Type.string == 'x'": ("string", [], _operator.eq, "x"), "Type.string == 'z'": ("string", [], _operator.eq, "z"),
    "Type.string != 'a'": ("string", [], _operator.ne, "a"), "Type.varint > 1": ("varint", [], _operator.gt, 1),
    "Type.varint == 3": ("varint", [], _operator.eq, 3), "'a' in Type.string": ("string", [], _operator.contains, "a"),
    "'z' in Type.string": ("string", [], _operator.contains, "z"), "Type.uri.filename == 'b'": ("uri", ["filename"], _operator.eq, "b"),
}
_MISSING = object()


def type_truth(rec, ftype, attrs, op, const):
    """What `Type.<ftype>[.attrs] <op> const` means for THIS record: some value of a field of that type -- by the
    record's own descriptor -- or of a nested record satisfies the comparison.  Independent of the selector module."""
    for t, name in rec._desc.get_field_tuples():
        if t != ftype:
            continue
        obj = getattr(rec, name, _MISSING)
        for a in attrs:
            if obj is _MISSING:
                break
            obj = _MISSING if obj is None else getattr(obj, a, _MISSING)
        if obj is _MISSING:
            continue
        if op(obj, const):
            return True
    for t, name in rec._desc.get_field_tuples():
        if t == "record":
            sub = getattr(rec, name)
            if sub is not None and type_truth(sub, ftype, attrs, op, const):
                return True
        elif t == "record[]":
            for sub in getattr(rec, name) or []:
                if type_truth(sub, ftype, attrs, op, const):
                    return True
    return False


def type_outcome(text, rec):
    ftype, attrs, op, const = TYPE_ORACLES[text]
    try:
        return ("V", bool(type_truth(rec, ftype, attrs, op, const)))
    except Exception as e:  # noqa
        return ("E", type(e).__name__)


def reverse_outcomes(p, pairs):
    """In ANOTHER process: read the input without selector and match the records in REVERSE order, each on a brand-new
    selector object -> {(text, form): [outcome per record, in file order]}.  State kept anywhere in the process (module
    level caches) sees the record types in the opposite order of first use."""
    import subprocess
    import sys
    req = json.dumps(dict(uri=p.uri, pairs=[[t, f] for t, f in pairs]))
    r = subprocess.run([sys.executable, "-c", "from vf.props import c10; c10._reverse_main()"], input=req, capture_output=True,
                       text=True, env=core.env_for_repo(), timeout=600)
    if r.returncode != 0:
        raise RuntimeError("reverse-order process failed: " + r.stderr[-400:])
    out = json.loads(r.stdout)
    return {(t, f): [tuple(o) for o in lst] for t, f, lst in out}


def _reverse_main():
    import sys
    req = json.loads(sys.stdin.read())
    base, err = read_all(req["uri"])
    res = []
    for text, form in reversed(req["pairs"]):
        outs = [None] * len(base)
        for i in reversed(range(len(base))):
            _, s1 = make_form(text, form)
            outs[i] = list(outcome(s1, base[i]))
        res.append([text, form, outs])
    sys.stdout.write(json.dumps(res))


def forms_for(engines):
    return FORMS if engines == "both" else ["compiled", "recompiled"]


# ------------------------------------------------------------------------------------------
# one case = (reader, sequence, selector text, form)

class Prepared:
    """a written input with its unfiltered reading"""

    def __init__(self, reader, idx, seq, uri, path):
        self.reader, self.idx, self.seq, self.uri, self.path = reader, idx, seq, uri, path
        self.base, self.base_err = read_all(uri)
        self.base_obs = [obs(r) for r in self.base]
        again, again_err = read_all(uri)
        self.deterministic = (again_err == self.base_err and [obs(r) for r in again] == self.base_obs)
        self.items = decoded_items(reader, path, len(self.base))


def prepare(workdir, reader, seed, idx, tier):
    ext = dict((r[0], r[3]) for r in READERS)[reader]
    seq = make_sequence(reader, seed, idx, tier)
    path = os.path.join(workdir, "%s_%d%s" % (reader, idx, ext))
    uri = write_input(reader, path, seq)
    return Prepared(reader, idx, seq, uri, path)


def run_case(p, text, form, seed, rev=None):
    """-> dict(problem=None|str, detail=..., outcomes=[...], got_idx=[...], raised=bool, nontrivial=bool)"""
    res = dict(problem=None, detail=None)
    # 1. with the selector
    handed, _ = make_form(text, form)
    got, got_err = read_all(p.uri, selector=handed, use_selector=True)
    got_obs = [obs(r) for r in got]
    # 2. without, testing afterwards with ONE selector object of the same form, in file order (stop at the first raise)
    _, selobj = make_form(text, form)
    base2, base2_err = read_all(p.uri)
    seq_out = []
    want_obs, want_err = [], None
    for i, r in enumerate(base2):
        before = obs(r)
        o = outcome(selobj, r)
        after = obs(r)
        if before != after:
            res.update(problem="match() changed the record", detail=dict(index=i, before=repr(before), after=repr(after), outcome=list(o)))
            return res
        if before != p.base_obs[i]:
            res.update(problem="harness: two unfiltered readings differ", detail=dict(index=i))
            return res
        seq_out.append(o)
        if o[0] == "E":
            want_err = o[1]
            break
        if o[1]:
            want_obs.append(before)
    # 3. every record on a brand-new selector object; and in a shuffled order on one reused object (going on after a raise)
    fresh_out = []
    for r in base2:
        _, s1 = make_form(text, form)
        fresh_out.append(outcome(s1, r))
    order = list(range(len(base2)))
    random.Random("c10shuffle:%d:%s:%d:%s" % (seed, p.reader, p.idx, text)).shuffle(order)
    _, s2 = make_form(text, form)
    shuf_out = [None] * len(base2)
    for i in order:
        shuf_out[i] = outcome(s2, base2[i])
    _, s3 = make_form(text, form)
    again_out = [outcome(s3, r) for r in base2]          # file order, going on after a raise
    again2_out = [outcome(s3, r) for r in base2]         # the same object a second time over all records
    res.update(outcomes=fresh_out, want_idx=None)
    # ground truth that does not go through the selector module (a fresh selector object is no witness against
    # state shared by all selector objects of the process)
    if text in TYPE_ORACLES:
        for i, r in enumerate(base2):
            t = type_outcome(text, r)
            if t != fresh_out[i]:
                res.update(problem="match() depends on what was matched before",
                           detail=dict(index=i, from_the_records_own_descriptor=list(t), fresh_selector=list(fresh_out[i]),
                                       how="a brand-new selector object disagrees with the meaning of the Type matcher computed from the "
                                           "record's own descriptor (state shared between selector objects of the process)"))
                return res
    if rev is not None and (text, form) in rev:
        lst = rev[(text, form)]
        if lst != fresh_out:
            i = next((k for k in range(min(len(lst), len(fresh_out))) if lst[k] != fresh_out[k]), 0)
            res.update(problem="match() depends on what was matched before",
                       detail=dict(index=i, this_process=list(fresh_out[i]) if fresh_out else None, other_process=list(lst[i]) if lst else None,
                                   how="another process that matches the same records in reverse order (fresh selector object per record) "
                                       "gets another result"))
            return res
    for name, lst in (("in a shuffled order on one selector object", shuf_out), ("in file order on one selector object", again_out),
                      ("a second time on the same selector object", again2_out)):
        if lst != fresh_out:
            i = next(k for k in range(len(lst)) if lst[k] != fresh_out[k])
            res.update(problem="match() depends on what was matched before",
                       detail=dict(index=i, fresh_selector=list(fresh_out[i]), reused=list(lst[i]), how=name, order=order))
            return res
    if seq_out != fresh_out[:len(seq_out)]:
        i = next(k for k in range(len(seq_out)) if seq_out[k] != fresh_out[k])
        res.update(problem="match() depends on what was matched before",
                   detail=dict(index=i, fresh_selector=list(fresh_out[i]), reused=list(seq_out[i]), how="file order, first pass"))
        return res
    # 4. the property: same records, same order, same multiplicity; a raise at the same record
    if got_obs != want_obs or (got_err is None) != (want_err is None) or (got_err and got_err != want_err):
        res.update(problem="reading with the selector differs from filtering afterwards",
                   detail=dict(with_selector=dict(count=len(got_obs), error=got_err),
                               filtered_afterwards=dict(count=len(want_obs), error=want_err),
                               per_record=[list(o) for o in fresh_out]))
        return res
    # indices of the yielded records in the unfiltered reading (greedy subsequence embedding)
    idx, j = [], 0
    for o in got_obs:
        while j < len(p.base_obs) and not (p.base_obs[j] == o and fresh_out[j] == ("V", True)):
            j += 1
        if j == len(p.base_obs):
            res.update(problem="reading with the selector yields a record the unfiltered reading does not have (in order)",
                       detail=dict(position=len(idx)))
            return res
        idx.append(j)
        j += 1
    res.update(got_idx=idx, raised=got_err is not None)
    vals = [o for o in fresh_out]
    res["nontrivial"] = bool(got_err) or (any(o == ("V", True) for o in vals) and any(o == ("V", False) for o in vals))
    return res


def coq_case(kind, p, r):
    outs = []
    for o in r["outcomes"]:
        outs.append("E" if o[0] == "E" else ("T" if o[1] else "F"))
    return "chk %s %s %s %s %s %d" % (
        kind, clist("(%s)" % i for i in p.items), clist(outs), clist("%d" % i for i in r["got_idx"]), cbool(r["raised"]), len(p.base))


HEADER = """From Coq Require Import List Bool NArith.
Import ListNotations.
From FR Require Import Filter Gen_filter.
Open Scope N_scope.
Definition T : option bool := Some true.
Definition F : option bool := Some false.
Definition E : option bool := None.
Definition tbl_step (t : list (option bool)) (s : unit) (r : N) : unit * option bool := (s, nth (N.to_nat r) t None).
Fixpoint leqb (a b : list N) : bool :=
  match a, b with [] , [] => true | x :: a', y :: b' => N.eqb x y && leqb a' b' | _, _ => false end.
Definition oeqb (a b : list N * bool) : bool := leqb (fst a) (fst b) && Bool.eqb (snd a) (snd b).
Fixpoint upto (fuel : nat) (i : N) : list N := match fuel with O => [] | Datatypes.S f => i :: upto f (N.succ i) end.
(* the model's iteration with the observed per-record results = the indices the implementation yielded (and whether
   it raised); without selector = every record once, in order; and it is the post-filter of the latter *)
Definition chk (k : reader_kind) (items : list (item N)) (t : list (option bool)) (idx : list N) (raised : bool) (n : N) : bool :=
  oeqb (iter_reader (tbl_step t) k (Some tt) items) (idx, raised)
  && oeqb (iter_reader (tbl_step t) k None items) (upto (N.to_nat n) 0, false)
  && oeqb (post_filter (fun r => snd (tbl_step t tt r)) (upto (N.to_nat n) 0)) (idx, raised).
"""


def replay_obj(p, text, form, res, seed, tier, extra=None):
    d = dict(kind="filter", reader=p.reader, sequence=p.idx, selector=text, form=form, seed=seed, tier=tier,
             problem=res.get("problem"), detail=res.get("detail"),
             records=[repr(x) for x in p.base][:40], plain_lines=[t for _, t in p.seq["plain"]])
    if extra:
        d.update(extra)
    return d


def n_sequences(tier):
    return 3 if tier == "quick" else 20


def impl_pass(ctx, reason=None, collect=True):
    """Run every (reader, sequence, selector, form) on the implementation.  Reports the first failing input per
    problem class as a violation.  Returns (cases for Coq, metas, any_violation)."""
    workdir = str(ctx.work / "inputs")
    os.makedirs(workdir, exist_ok=True)
    cases, metas = [], []
    reported = set()
    exercised = {}
    for reader, kind, _, _ in READERS:
        for idx in range(n_sequences(ctx.tier)):
            try:
                p = prepare(workdir, reader, ctx.seed, idx, ctx.tier)
            except Exception as e:  # noqa  (e.g. csv.Sniffer cannot make sense of the content)
                ctx.notes.append("input %s/%d could not be written or read without selector: %s: %s" % (reader, idx, type(e).__name__, e))
                continue
            if p.base_err is not None or not p.base:
                ctx.notes.append("input %s/%d: unfiltered reading gave %d records, error %s -- skipped" % (reader, idx, len(p.base), p.base_err))
                continue
            if not p.deterministic:
                ctx.notes.append("input %s/%d: two unfiltered readings differ -- skipped" % (reader, idx))
                continue
            exercised[reader] = exercised.get(reader, 0) + 1
            sels = selectors_for(ctx.seed, ctx.tier)
            rev = None
            if reader == "stream":
                rev = reverse_outcomes(p, [(t, f) for t, _, e in sels for f in forms_for(e)])
            for text, label, engines in sels:
                for form in forms_for(engines):
                    r = run_case(p, text, form, ctx.seed, rev)
                    if r["problem"]:
                        ctx.count_case((reader, label, form, idx), nontrivial=True)
                        if r["problem"].startswith("harness"):
                            ctx.notes.append("%s/%d %r %s: %s" % (reader, idx, text, form, r["problem"]))
                            continue
                        key = r["problem"]
                        if key not in reported:
                            reported.add(key)
                            what = "%s: reader=%s selector=%r given as %s; %s" % (r["problem"], reader, text, form, json.dumps(r["detail"], default=repr)[:400])
                            if reason:
                                what = reason + "; failing input: " + what
                            ctx.violation(what, replay_obj(p, text, form, r, ctx.seed, ctx.tier, dict(reason=reason) if reason else None))
                        continue
                    ctx.count_case((reader, label, form), nontrivial=r["nontrivial"])
                    if collect:
                        cases.append(coq_case(kind, p, r))
                        metas.append(dict(reader=reader, sequence=idx, selector=text, form=form, yielded=r["got_idx"], raised=r["raised"],
                                          per_record=["E" if o[0] == "E" else ("T" if o[1] else "F") for o in r["outcomes"]],
                                          n_records=len(p.base), n_objects=len(p.items)))
    for reader, _, _, _ in READERS:
        if not exercised.get(reader):
            ctx.violation("the harness could not exercise the %s reader at all" % reader, dict(kind="harness", reader=reader), no_input=True)
            reported.add("harness")
    return cases, metas, bool(reported)


def make_selector_checks(ctx):
    """make_selector on the implementation: the object classes / identities the model's table states, and that the
    three forms of one expression select the same records of a sequence."""
    from flow.record.selector import CompiledSelector, Selector, make_selector
    s = Selector("r.n == 1")
    c = CompiledSelector("r.n == 1")
    checks = [
        (make_selector(None) is None, "None -> None"), (make_selector("") is None, "'' -> None"),
        (type(make_selector("r.n == 1")) is Selector, "text -> Selector"),
        (type(make_selector("r.n == 1", True)) is CompiledSelector, "text, forced -> CompiledSelector"),
        (make_selector(s) is s, "Selector -> itself"), (make_selector(c) is c, "CompiledSelector -> itself"),
        (make_selector(c, True) is c, "CompiledSelector, forced -> itself"),
        (type(make_selector(s, True)) is CompiledSelector and make_selector(s, True).expression == "r.n == 1", "Selector, forced -> recompiled text"),
    ]
    for ok, what in checks:
        ctx.count_case(("make_selector", what))
        if not ok:
            ctx.violation("make_selector: %s does not hold" % what, dict(kind="make_selector", what=what))
            return


def search(ctx, reason):
    """The proof / translator broke: look for a concrete failing input on the implementation."""
    try:
        _, _, found = impl_pass(ctx, reason=reason, collect=False)
    except Exception as e:  # noqa
        ctx.notes.append("search raised %s: %s" % (type(e).__name__, e))
        return False
    return found


def run(ctx):
    ctx.coverage["rule"] = (
        "case = (reader, record sequence, selector, form); readers: stream, jsonfile (incl. plain-JSON fallback lines), avro, "
        "csvfile, sqlite (several tables); sequences: seeded records over three descriptors (fields some records lack, unset "
        "values, list fields) plus arbitrary recgen records for the stream; %d selectors of the C07 grammar (comparisons, chained, "
        "and/or/not, in/not in, helper functions, typed matchers, any/all generator expressions incl. conditions and a reused "
        "variable, missing fields, constants, raising ones, walrus for the compiled engine) x forms text / Selector / "
        "CompiledSelector / Selector recompiled by make_selector(force_compiled); plus seeded random and/or/not compositions of atoms of each kind.  distinct = distinct (reader, selector shape, "
        "form); non-trivial = the selector keeps some and drops some records of the sequence, or raises" % len(SELECTORS))
    ok = core.standard_proof_stage(ctx, ["props/C10.vo"], "C10", THEOREMS, search_fn=search, gens=["gen_filter"])
    ctx.assumptions += [
        "the decoders (msgpack frames, JSON lines, Avro blocks, CSV rows, SQLite rows -> record) are primitives: a reader's loop "
        "is modelled over the list of decoded objects; that list is the same with and without selector (two readings of one "
        "file are compared on every case)",
        "the shape recogniser of tools/vf/factgen/c10.py (ast): guard form, tested name = yielded name and not rebound, "
        "non-match action, no other yield/break/return, reset/read/write sets of RecordContextMatcher, Selector.match and "
        "CompiledSelector.match statement shapes",
        "evaluation of a selector is a function of the namespace built for the call (interpreted: self.data rebuilt by "
        "matches(); compiled: a copy of self.ns) -- backed by the generated frame facts (every attribute evaluation reads is "
        "reset per call or constant after __init__) and validated by execution (file order / shuffled / fresh object)",
        "`match() does not change the record` is established by (T) selector.py stores through nothing but a method's own "
        "object (generated fact record_write_sites = []) and (C) deep observation of every record before and after every "
        "match() in both engines; side effects inside called library code (field type methods) are covered by execution only",
        "raising selectors: the theorems cover them (both settings stop at the same record with the same records before); "
        "the implementation is compared on the exception's class name",
    ]
    if not ok:
        return
    cases, metas, bad = impl_pass(ctx)
    if bad:
        return
    make_selector_checks(ctx)
    failing, err = core.eval_bool_cases(ctx, HEADER, cases, shard_size=300, name="c10")
    if err:
        ctx.violation("correspondence shards did not evaluate: " + err[:200], dict(kind="coq-eval", log=err), no_input=True)
        return
    ctx.coverage["traces_validated_against_impl"] = len(cases) - len(failing)
    if failing:
        m = metas[failing[0]]
        ctx.violation("model/Filter.v (iter_reader with the generated shapes) and the implementation disagree on %d of %d cases, "
                      "first: reader=%s selector=%r (%s); the property itself holds on that case" % (
                          len(failing), len(cases), m["reader"], m["selector"], m["form"]),
                      dict(kind="correspondence", correspondence="C10 iter_reader vs readers", first=m,
                           failing=[metas[i] for i in failing[:10]]), no_input=True)
    for m in metas[:: max(1, len(metas) // 6)]:
        ctx.sample(m)
    by_reader = {}
    for m in metas:
        by_reader[m["reader"]] = by_reader.get(m["reader"], 0) + 1
    ctx.coverage["cases_per_reader"] = by_reader
    ctx.coverage["raising_cases"] = sum(1 for m in metas if m["raised"])


class _Ctx:
    def __init__(self):
        self.work = core.WORK / ("C10.replay.%d" % os.getpid())
        self.work.mkdir(parents=True, exist_ok=True)


def replay(obj):
    if obj.get("kind") != "filter":
        print("replay of kind %s: re-run ./check C10" % obj.get("kind"))
        return 2
    c = _Ctx()
    try:
        p = prepare(str(c.work), obj["reader"], obj["seed"], obj["sequence"], obj.get("tier", "quick"))
        rev = reverse_outcomes(p, [(obj["selector"], obj["form"])]) if obj["reader"] == "stream" else None
        r = run_case(p, obj["selector"], obj["form"], obj["seed"], rev)
        print("replay reader=%s sequence=%d selector=%r form=%s" % (obj["reader"], obj["sequence"], obj["selector"], obj["form"]))
        for i, x in enumerate(p.base):
            print("  record %d: %r" % (i, x))
        if r["problem"]:
            print("replay: property FAILS: %s %s" % (r["problem"], json.dumps(r["detail"], default=repr)[:600]))
            return 1
        print("replay: holds now (yielded indices %s, raised=%s)" % (r["got_idx"], r["raised"]))
        return 0
    finally:
        shutil.rmtree(c.work, ignore_errors=True)
