"""C12 -- record equality and hashing obey the value-object contract.

proof:   coq/props/C12.v (theorems about model/Equality.v instantiated with the GENERATED facts of
         gen/Gen_equality.v: what == decides, totality, reflexivity, symmetry, hashability at any nesting, equal =>
         equal hash, the scoped override of the ignore set is undone)
tie:     (T) gen/Gen_equality.v is regenerated from flow/record/base.py on every run (tools/vf/factgen/c12.py),
         (C) generated records over all field types -- with an independently rebuilt copy, single-field variations,
         records of other descriptors, nested and grouped records -- are compared with ==, !=, hash(), set/dict
         membership under ignore configurations set through every mechanism; every observed result is compared
         with (1) the property's own oracle evaluated in Python on the field values and (2) the model evaluated
         inside Coq on the packed observation of the two records; plus a battery of packed VALUE pairs that
         validates the model of Python's == / hash agreement directly.
"""
from __future__ import annotations

import datetime as pydt
import json
import os
import random
import struct
import subprocess
import sys

from vf import core
from vf.coqlit import cbool, clist, cstr

THEOREMS = [
    "C12_generated_facts", "C12_generated_hash_freezes_deep", "C12_kept_spec", "C12_eq_spec",
    "C12_distinct_descriptors_unequal", "C12_coincidence_unequal", "C12_eq_spec_grouped", "C12_eq_total",
    "C12_ne_negates", "C12_eq_refl", "C12_eq_sym", "C12_freeze_total", "C12_hashable", "C12_eq_hash",
    "C12_scope_restored", "C12_scope_restored_every_exit", "C12_scope_restored_nested", "C12_nan", "C12_hyp_satisfiable",
]

UTC = pydt.timezone.utc
T0 = pydt.datetime(2023, 5, 6, 7, 8, 9, 123456, tzinfo=UTC)
ENV_VAR = "FLOW_RECORD_IGNORE"


class Boom(Exception):
    pass


class Unobservable(Exception):
    pass


# ------------------------------------------------------------------------------------------------------
# observing the implementation

def outcome(fn):
    try:
        return ("val", fn())
    except BaseException as e:  # noqa
        return ("exc", type(e).__name__, str(e)[:200])


def observe_pair(x, y):
    """everything the property talks about, for one ordered pair under the current ignore set"""
    o = dict(eq=outcome(lambda: x == y), rev=outcome(lambda: y == x), ne=outcome(lambda: x != y))
    from flow.record import Record
    hx = outcome(lambda: hash(x)) if isinstance(x, Record) else ("val", None)
    hy = outcome(lambda: hash(y)) if isinstance(y, Record) else ("val", None)
    o["hx"], o["hy"] = hx, hy
    if isinstance(x, Record) and isinstance(y, Record) and hx[0] == "val" and hy[0] == "val":
        o["inset"] = outcome(lambda: y in {x})
        o["dget"] = outcome(lambda: {x: 1}.get(y, 0) == 1)
    return o


def packed(v):
    from flow.record.base import FieldType
    return v._pack() if isinstance(v, FieldType) else v


# ------------------------------------------------------------------------------------------------------
# the property's oracle, evaluated on the field values (no use of Record.__eq__/_pack/__hash__)

def same_descriptor(x, y):
    return x._desc.name == y._desc.name and tuple(x._desc.get_field_tuples()) == tuple(y._desc.get_field_tuples())


def spec_val_eq(a, b, ign):
    from flow.record import Record
    if a is b and not isinstance(a, Record):
        return True                      # the very same object (CPython's container comparison; NaN)
    if isinstance(a, Record) or isinstance(b, Record):
        return isinstance(a, Record) and isinstance(b, Record) and spec_eq(a, b, ign)
    if isinstance(a, (list, tuple)) and isinstance(b, (list, tuple)):
        if isinstance(a, list) != isinstance(b, list):
            return False
        return len(a) == len(b) and all(spec_val_eq(p, q, ign) for p, q in zip(a, b))
    if isinstance(a, dict) and isinstance(b, dict):
        return len(a) == len(b) and all(k in b and spec_val_eq(v, b[k], ign) for k, v in a.items())
    return bool(a == b)


def spec_eq(x, y, ign):
    """same descriptor and equal field values, not counting the ignored fields"""
    from flow.record import GroupedRecord, Record
    if not (isinstance(x, Record) and isinstance(y, Record)):
        return False
    gx, gy = isinstance(x, GroupedRecord), isinstance(y, GroupedRecord)
    if gx or gy:
        return (gx and gy and x.name == y.name and len(x.records) == len(y.records)
                and all(spec_eq(p, q, ign) for p, q in zip(x.records, y.records)))
    if not same_descriptor(x, y):
        return False
    for k in x.__slots__:
        if k in ign:
            continue
        if not spec_val_eq(packed(getattr(x, k)), packed(getattr(y, k)), ign):
            return False
    return True


# ------------------------------------------------------------------------------------------------------
# packed observation -> Gallina literal of model/Equality.v's pval

def hx(b: bytes) -> str:
    """injective encoding of text / bytes content (only equality is used by the model); content longer than 64 bytes
    is carried as its length and SHA-256"""
    if len(b) > 64:
        import hashlib
        return '"#%d:%s"' % (len(b), hashlib.sha256(b).hexdigest())
    return '"%s"' % b.hex()


def float_bits(f) -> int:
    return struct.unpack(">Q", struct.pack(">d", float.__float__(f)))[0]


class Tokens:
    """identity tokens for float objects and tzinfo objects (objects are kept alive so ids stay unique)"""

    def __init__(self):
        self.tab = {}
        self.keep = []

    def tok(self, obj):
        k = id(obj)
        if k not in self.tab:
            self.tab[k] = len(self.tab) + 1
            self.keep.append(obj)
        return self.tab[k]


EPOCH = pydt.datetime(1, 1, 1)


def key_token(k):
    """injective token of a dict key's equality class (Python: 1 == True == 1.0 are the same key; str, bytes, None and
    tuples never equal one another)"""
    if k is None:
        return "n"
    if isinstance(k, (bool, int)):
        return "i%d" % int(k)
    if isinstance(k, float):
        if k != k:
            raise Unobservable("NaN as a dict key")
        if k in (float("inf"), float("-inf")) or k != int(k):
            return "f%d" % float_bits(k)
        return "i%d" % int(k)
    if isinstance(k, str):
        return "s" + k.encode("utf-8", "surrogatepass").hex()
    if isinstance(k, bytes):
        return "b" + k.hex()
    if isinstance(k, tuple):
        return "t(" + ",".join(key_token(x) for x in k) + ")"
    raise Unobservable("dict key of type %s" % type(k).__name__)


def lit_value(v, tk, descs):
    """Gallina literal of a packed value (a field value after FieldType._pack())"""
    from flow.record import GroupedRecord, Record
    if v is None:
        return "PNone"
    if isinstance(v, bool):
        return "(PBool %s)" % cbool(v)
    if isinstance(v, int):
        return "(PInt (%d)%%Z)" % int(v)
    if isinstance(v, float):
        return "(PFloat %d%%N %d%%Z)" % (float_bits(v), tk.tok(v))
    if isinstance(v, str):
        return "(PStr %s)" % hx(v.encode("utf-8", "surrogatepass"))
    if isinstance(v, (bytes, bytearray)):
        return "(PBytes %s)" % hx(bytes(v))
    if isinstance(v, pydt.datetime):
        if v.tzinfo is None or v.utcoffset() is None:
            raise Unobservable("naive datetime")
        naive = (pydt.datetime(v.year, v.month, v.day, v.hour, v.minute, v.second, v.microsecond) - EPOCH) // pydt.timedelta(microseconds=1)
        off = v.utcoffset() // pydt.timedelta(microseconds=1)
        exc = v.replace(fold=1 - v.fold).utcoffset() != v.utcoffset()
        return "(PDt (%d)%%Z (%d)%%Z %d%%Z %s)" % (naive, off, tk.tok(v.tzinfo), cbool(exc))
    if isinstance(v, GroupedRecord):
        return "(PGrp %s %s)" % (cstr(v.name), clist([lit_value(m, tk, descs) for m in v.records]))
    if isinstance(v, Record):
        d = v._desc
        fields = [(str(t), str(n)) for t, n in d.get_field_tuples()]
        from flow.record.base import RESERVED_FIELDS
        if list(v.__slots__) != [n for _, n in fields] + list(RESERVED_FIELDS):
            raise Unobservable("slots are not declared fields + reserved fields")
        descs[(d.name, tuple(fields))] = d.descriptor_hash
        vals = [lit_value(packed(getattr(v, k)), tk, descs) for k in v.__slots__]
        return "(PRec %s %s %s)" % (cstr(d.name), clist(["(%s, %s)" % (cstr(t), cstr(n)) for t, n in fields]), clist(vals))
    if isinstance(v, tuple):
        return "(PTuple %s)" % clist([lit_value(x, tk, descs) for x in v])
    if isinstance(v, list):
        return "(PList %s)" % clist([lit_value(x, tk, descs) for x in v])
    if isinstance(v, dict):
        return "(PDict %s)" % clist(["(%s, %s)" % (cstr(key_token(k)), lit_value(x, tk, descs)) for k, x in v.items()])
    raise Unobservable("value of type %s" % type(v).__name__)


def dkey(name, fields):
    return name + "|" + "".join("%s:%s," % (t, n) for t, n in fields)


SHARD_HEADER = """From Coq Require Import List Bool String ZArith NArith.
Import ListNotations.
From FR Require Import Equality Gen_equality.
Open Scope string_scope.
Definition dkey (n : string) (f : list (string * string)) : string :=
  n ++ "|" ++ String.concat "" (map (fun tn => fst tn ++ ":" ++ snd tn ++ ",") f).
"""

SHARD_DEFS = """
Definition Hobs (n : string) (f : list (string * string)) : Z :=
  match lookup (dkey n f) Htab with Some z => z | None => (-1)%Z end.
(* a == b as the model computes it must be what the implementation answered *)
Definition chk_eq (ign : list string) (a b : pval) (impl : bool) : bool :=
  match rec_eq facts_now Hobs ign a b with Some x => Bool.eqb x impl | None => false end.
Definition chk_ne (ign : list string) (a b : pval) (impl : bool) : bool :=
  match rec_ne facts_now Hobs ign a b with Some x => Bool.eqb x impl | None => false end.
(* both hashable, and when the model's hash keys are equal the implementation's hashes were equal *)
Definition chk_hash (ign : list string) (a b : pval) (impl_hash_equal : bool) : bool :=
  wf a && wf b && frozen (hkey facts_now Hobs ign a) && frozen (hkey facts_now Hobs ign b) &&
  implb (py_eq facts_now Hobs [] [] (hkey facts_now Hobs ign a) (hkey facts_now Hobs ign b)) impl_hash_equal.
(* packed values p, q: (p,) == (q,) in Python, and equal frozen values hash equally *)
Definition chk_val (a b : pval) (impl : bool) : bool := Bool.eqb (py_eq facts_now Hobs [] [] a b) impl.
Definition chk_valhash (a b : pval) (impl_hash_equal : bool) : bool :=
  let ka := freeze true true (dpack facts_now Hobs [] a) in let kb := freeze true true (dpack facts_now Hobs [] b) in
  frozen ka && frozen kb && implb (py_eq facts_now Hobs [] [] ka kb) impl_hash_equal.
"""


class Shard:
    def __init__(self):
        self.tk = Tokens()
        self.descs = {}
        self.defs = []        # (name, literal)
        self.names = {}       # id(obj) -> name
        self.keep = []
        self.cases = []       # (term, meta)
        self.size = 0

    def ref(self, obj):
        k = id(obj)
        if k not in self.names:
            lit = lit_value(obj, self.tk, self.descs)
            nm = "v%d" % len(self.defs)
            self.defs.append((nm, lit))
            self.names[k] = nm
            self.keep.append(obj)
            self.size += len(lit) + 30
        return self.names[k]

    def add(self, term, meta):
        self.cases.append((term, meta))
        self.size += len(term) + 4

    def text(self):
        t = SHARD_HEADER
        t += "Definition Htab : list (string * Z) := %s.\n" % clist(
            ["(%s, (%d)%%Z)" % (cstr(dkey(n, f)), h) for (n, f), h in self.descs.items()], sep=";\n  ")
        t += SHARD_DEFS
        for nm, lit in self.defs:
            t += "Definition %s : pval := %s.\n" % (nm, lit)
        t += "From FR Require Import CaseLib.\n"
        t += "Definition the_cases : list bool :=\n [ " + "\n ; ".join(c for c, _ in self.cases) + " ].\n"
        t += 'Goal True. idtac "@@failing". exact I. Qed.\nEval vm_compute in (failing the_cases).\n'
        return t


def cign(ign):
    return clist([cstr(s) for s in sorted(ign)])


# ------------------------------------------------------------------------------------------------------
# generators: blocks of pairs

def rebuild(rec, changes=None, desc=None, rename=None):
    """re-construct a plain record from its own field values (objects are shared with `rec`)"""
    kw = {}
    for k in rec.__slots__:
        if k == "_version":
            continue
        kw[(rename or {}).get(k, k)] = getattr(rec, k)
    kw.update(changes or {})
    return (desc or rec._desc).recordType(**kw)


def vary_plain(rec, rnd, gen, depth=0):
    """a record that differs from `rec` in (at most) one field; returns (field label, record) or None"""
    from flow.record import Record
    fields = [(t, n) for t, n in rec._desc.get_field_tuples()]
    choices = fields + [("string", "_source"), ("string", "_classification"), ("datetime", "_generated")]
    t, n = rnd.choice(choices)
    cur = getattr(rec, n)
    if t == "record" and isinstance(cur, Record) and depth < 2 and rnd.random() < 0.7:
        sub = vary_plain(cur, rnd, gen, depth + 1)
        if sub is None:
            return None
        return n + "." + sub[0], rebuild(rec, {n: sub[1]})
    if n == "_generated":
        new = rnd.choice([T0, T0.replace(microsecond=1), T0.astimezone(pydt.timezone(pydt.timedelta(hours=3))),
                          pydt.datetime(1999, 12, 31, 23, 59, 59, tzinfo=UTC)])
    elif n in ("_source", "_classification"):
        new = rnd.choice([None, "src", "other", ""])
    else:
        new = gen.value(t, 1)
    return n, rebuild(rec, {n: new})


def redescribe(rec, rnd):
    """the same values under ANOTHER descriptor"""
    from flow.record import RecordDescriptor
    fields = [(t, n) for t, n in rec._desc.get_field_tuples()]
    k = rnd.randrange(4)
    if k == 0:
        return "name", rebuild(rec, desc=RecordDescriptor(rec._desc.name + "x", fields))
    if k == 1 and fields:
        i = rnd.randrange(len(fields))
        new = fields[i][1] + "_r"
        if new in [n for _, n in fields]:
            return None
        f2 = list(fields)
        f2[i] = (fields[i][0], new)
        return "fieldname", rebuild(rec, desc=RecordDescriptor(rec._desc.name, f2), rename={fields[i][1]: new})
    if k == 2:
        alias = {"string": "wstring", "wstring": "string", "varint": "filesize", "filesize": "varint",
                 "net.ipaddress": "net.IPAddress", "net.IPAddress": "net.ipaddress"}
        idx = [i for i, (t, _) in enumerate(fields) if t in alias]
        if not idx:
            return None
        i = rnd.choice(idx)
        f2 = list(fields)
        f2[i] = (alias[fields[i][0]], fields[i][1])
        return "fieldtype", rebuild(rec, desc=RecordDescriptor(rec._desc.name, f2))
    if "extra_f" in [n for _, n in fields]:
        return None
    return "extrafield", rebuild(rec, desc=RecordDescriptor(rec._desc.name, fields + [("string", "extra_f")]))


def block_items(seed, n, legacy):
    from vf import recgen
    g = recgen.Gen(random.Random(seed), legacy=legacy)
    items = g.items(n)
    # make sure nested and grouped shapes are present in every block
    from flow.record import GroupedRecord, RecordDescriptor
    rnd = g.rnd
    inner_d = g.descriptor(name="nest/in", depth=2)
    outer_d = RecordDescriptor("nest/out", [("record", "r"), ("record[]", "rs"), (rnd.choice(recgen.SCALAR_TYPES), "a")])
    r1, r2 = g.record(inner_d, 2), g.record(inner_d, 2)
    items.append(outer_d.recordType(r=r1, rs=[r2, g.record(g.descriptor(depth=2), 2)], a=g.value(outer_d.get_field_tuples()[2][0], 2),
                                    _generated=T0, _source=None, _classification=None))
    dl_d = RecordDescriptor("gen/dl", [("dictlist", "d"), ("string", "s")])

    def rkey():
        return rnd.choice([rnd.randrange(-3, 4), rnd.choice("abc"), None, rnd.choice([b"a", b"k"]), rnd.choice([True, False]),
                           (rnd.randrange(3), rnd.choice("ab")), rnd.choice([0.5, 2.0])])

    def rdict(depth=0):
        d = {}
        for _ in range(rnd.randrange(4)):
            d[rkey()] = rnd.choice([1, "v", None, 2.5, b"b", [1, 2]]) if depth >= 2 or rnd.random() < 0.6 else \
                rnd.choice([rdict(depth + 1), [rdict(depth + 1), 3]])
        return d
    dl = dl_d.recordType(d=[rdict() for _ in range(rnd.randrange(1, 4))], s=rnd.choice(["x", None]), _generated=T0, _source=None, _classification=None)
    items.append(dl)
    items.append(outer_d.recordType(r=dl_d.recordType(d=[rdict()], s="n", _generated=T0, _source=None, _classification=None),
                                    rs=[dl_d.recordType(d=[rdict(), rdict()], s=None, _generated=T0, _source=None, _classification=None)],
                                    a=None, _generated=T0, _source=None, _classification=None))
    items.append(GroupedRecord("grp/dl", [g.record(inner_d, 2), dl_d.recordType(d=[rdict()], s="m", _generated=T0, _source=None, _classification=None)]))
    items.append(GroupedRecord("grp/y", [g.record(g.descriptor(depth=1), 1), items[-1], g.record(inner_d, 2)]))
    return items


def block_pairs(seed, n, legacy=False):
    """deterministic list of (kind, x, y): A = generated items, B = the same items built a second time from scratch"""
    from flow.record import GroupedRecord, Record
    from vf import recgen
    A = block_items(seed, n, legacy)
    B = block_items(seed, n, legacy)
    rnd = random.Random(seed * 7919 + 13)
    gen = recgen.Gen(rnd, legacy=legacy)
    pairs = []

    def attempt(fn):
        try:
            return fn()
        except Exception:  # noqa  (a drawn value the type refuses, ...)
            return None

    for k, (a, b) in enumerate(zip(A, B)):
        pairs.append(("self", a, a))
        pairs.append(("copy", a, b))
        if isinstance(a, GroupedRecord):
            ms = list(b.records)
            i = rnd.randrange(len(ms))
            for _ in range(2):
                v = attempt(lambda: vary_plain(ms[i], rnd, gen))
                if v:
                    m2 = list(ms)
                    m2[i] = v[1]
                    pairs.append(("vary-member:" + v[0], a, GroupedRecord(b.name, m2)))
            pairs.append(("group-renamed", a, GroupedRecord(b.name + "x", ms)))
            pairs.append(("group-fewer", a, GroupedRecord(b.name, ms[:-1]))) if len(ms) > 1 else None
            pairs.append(("group-reordered", a, GroupedRecord(b.name, ms[::-1]))) if len(ms) > 1 else None
            pairs.append(("group-vs-member", a, ms[0]))
            pairs.append(("member-vs-group", ms[0], a))
            pairs.append(("group-regrouped", a, GroupedRecord(b.name, [GroupedRecord("inner", ms[:1])] + ms[1:])))
        else:
            for _ in range(3):
                v = attempt(lambda: vary_plain(b, rnd, gen))
                if v:
                    pairs.append(("vary:" + v[0], a, v[1]))
            v = attempt(lambda: redescribe(b, rnd))
            if v:
                pairs.append(("redescribed:" + v[0], a, v[1]))
            pairs.append(("group-of-one", a, GroupedRecord("g1", [b])))
        j = rnd.randrange(len(A))
        if j != k:
            pairs.append(("other", a, A[j]))
        nr = rnd.choice([5, None, "x", 1.5, (1, 2), "pack"])
        pairs.append(("non-record", a, a._pack() if nr == "pack" else nr))
    return pairs


COLLISION_TYPES = [("string", "string"), ("varint", "string[]"), ("float", "net.ipaddress"), ("boolean", "datetime"),
                   ("bytes", "path"), ("command", "digest"), ("dictlist", "command[]"), ("uint16", "record"), ("datetime", "varint")]


def collision_descriptors():
    """pairs of DIFFERENT descriptors (same name, same field types in the same order, other field names) whose
    identifiers coincide by construction: the hash input name + n1 + t1 + n2 + t2 has no separators, so
    [(T1, a), (T2, b<T1>c)] and [(T1, a<T1>b), (T2, c)] feed the same text to the digest"""
    from flow.record import RecordDescriptor
    out = []
    for t1, t2 in COLLISION_TYPES:
        da = RecordDescriptor("col/x", [(t1, "a"), (t2, "b%sc" % t1)])
        db = RecordDescriptor("col/x", [(t1, "a%sb" % t1), (t2, "c")])
        out.append((t1, t2, da, db))
    return out


def collision_records():
    """records of such descriptor pairs holding the SAME values (so their packed values coincide), with equal and with
    different _generated (the latter are equal only if something ignores both the descriptor and _generated)"""
    from vf import recgen
    rnd = random.Random(4242)
    g = recgen.Gen(rnd)
    out = []
    for t1, t2, da, db in collision_descriptors():
        for k in range(2):
            try:
                v1, v2 = g.value(t1, 1), g.value(t2, 1)
                ts2 = T0 if k == 0 else T0.replace(year=2001)
                ra = da.recordType(v1, v2, _source="s", _classification=None, _generated=T0)
                rb = db.recordType(v1, v2, _source="s", _classification=None, _generated=ts2)
            except Exception:  # noqa  (a drawn value the type refuses)
                continue
            out.append(("%s+%s-%d" % (t1, t2.replace("[]", "list").replace(".", "_"), k), ra, rb))
    return out


def descriptor_probe(on_bad):
    """behavioural cross-check of what the translator reads off RecordDescriptor.__eq__: descriptor equality on
    constructed pairs -- colliding identifiers, same name with other fields, equal definitions built twice"""
    from flow.record import RecordDescriptor
    probes = []
    for t1, t2, da, db in collision_descriptors():
        probes.append(("colliding identifiers", da, db, False))
        probes.append(("equal definitions built twice", da, RecordDescriptor("col/x", [(t1, "a"), (t2, "b%sc" % t1)]), True))
    base_fields = [("string", "a"), ("varint", "b")]
    d0 = RecordDescriptor("probe/d", base_fields)
    probes += [
        ("equal definitions built twice", d0, RecordDescriptor("probe/d", list(base_fields)), True),
        ("other name", d0, RecordDescriptor("probe/e", base_fields), False),
        ("other field name", d0, RecordDescriptor("probe/d", [("string", "a"), ("varint", "c")]), False),
        ("other field type", d0, RecordDescriptor("probe/d", [("string", "a"), ("uint32", "b")]), False),
        ("fields reordered", d0, RecordDescriptor("probe/d", base_fields[::-1]), False),
        ("one field more", d0, RecordDescriptor("probe/d", base_fields + [("string", "c")]), False),
        ("no fields", d0, RecordDescriptor("probe/d", []), False),
    ]
    for what, a, b, want in probes:
        for x, y in ((a, b), (b, a)):
            o_eq, o_ne = outcome(lambda: x == y), outcome(lambda: x != y)
            o_h = outcome(lambda: hash(x) == hash(y))
            ok = o_eq == ("val", want) and o_ne == ("val", not want) and (not want or o_h == ("val", True))
            if not ok:
                on_bad("descriptor equality (%s): %s%r == %s%r is %s, != is %s, equal hashes %s; expected == to be %s" % (
                    what, x.name, tuple(x.get_field_tuples()), y.name, tuple(y.get_field_tuples()), o_eq[1:], o_ne[1:], o_h[1:], want),
                    False, dict(kind="descriptor", what=what, a=[x.name, list(map(list, x.get_field_tuples()))],
                                b=[y.name, list(map(list, y.get_field_tuples()))], expected=want))
                return
    return len(probes) * 2


def special_pairs():
    """hand-picked pairs around the edges of Python's == (name, x, y)"""
    import zoneinfo

    from flow.record import GroupedRecord, RecordDescriptor
    from flow.record.fieldtypes import path
    out = []
    nan = float("nan")
    F = RecordDescriptor("sp/f", [("float", "f"), ("float[]", "fl")])
    out.append(("nan-self", F(f=nan, fl=[nan, 1.0], _generated=T0), None))
    out.append(("nan-copy", F(f=nan, fl=[1.0], _generated=T0), F(f=nan, fl=[1.0], _generated=T0)))
    out.append(("nan-in-list-copy", F(f=1.0, fl=[nan], _generated=T0), F(f=1.0, fl=[nan], _generated=T0)))
    out.append(("zero-signs", F(f=0.0, fl=[-0.0], _generated=T0), F(f=-0.0, fl=[0.0], _generated=T0)))
    out.append(("inf", F(f=float("inf"), fl=[], _generated=T0), F(f=float("-inf"), fl=[], _generated=T0)))
    out.append(("unset-vs-empty-list", F(f=1.0, fl=None, _generated=T0), F(f=1.0, fl=[], _generated=T0)))
    S = RecordDescriptor("sp/s", [("stringlist", "l"), ("dictlist", "d")])
    out.append(("bool-int-float", S(l=[1, True, 2**53], d=[], _generated=T0), S(l=[1.0, 1, float(2**53)], d=[], _generated=T0)))
    out.append(("int-float-inexact", S(l=[2**53 + 1], d=[], _generated=T0), S(l=[float(2**53 + 1)], d=[], _generated=T0)))
    out.append(("int-float-huge", S(l=[10**400, 3], d=[], _generated=T0), S(l=[float("inf"), 3.0000000000000004], d=[], _generated=T0)))
    out.append(("str-bytes", S(l=["a", b"a"], d=[], _generated=T0), S(l=[b"a", "a"], d=[], _generated=T0)))
    out.append(("list-tuple", S(l=[[1, 2]], d=[], _generated=T0), S(l=[(1, 2)], d=[], _generated=T0)))
    out.append(("dict-key-order", S(l=[], d=[{"a": 1, "b": [2, {"x": 1, "y": 2}]}], _generated=T0),
                S(l=[], d=[{"b": [2, {"y": 2, "x": 1}], "a": 1}], _generated=T0)))
    mixed = [({1: "one", "two": 2}, {"two": 2, 1: "one"}), ({None: 0, "a": 1}, {"a": 1, None: 0}),
             ({b"k": 1, "k": 2}, {"k": 2, b"k": 1}), ({True: "t", "x": {2: [1, {None: 1, 3: 2}], "y": 0}}, {"x": {"y": 0, 2: [1, {3: 2, None: 1}]}, 1: "t"}),
             ({(1, "a"): 1, "z": 2, 0.5: 3}, {0.5: 3, "z": 2, (1, "a"): 1}), ({1: "a"}, {1.0: "a"}), ({1: "a", "b": 2}, {"1": "a", "b": 2})]
    NM = RecordDescriptor("sp/nm", [("record", "r"), ("record[]", "rs")])
    for i, (d1, d2) in enumerate(mixed):
        r1, r2 = S(l=[], d=[{"plain": 1}, d1], _generated=T0), S(l=[], d=[{"plain": 1}, d2], _generated=T0)
        out.append(("dict-mixed-keys-%d" % i, r1, r2))
        out.append(("dict-mixed-keys-nested-%d" % i, NM(r=r1, rs=[r2], _generated=T0), NM(r=r2, rs=[r1], _generated=T0)))
        out.append(("dict-mixed-keys-grouped-%d" % i, GroupedRecord("g", [F(f=1.0, fl=[], _generated=T0), r1]),
                    GroupedRecord("g", [F(f=1.0, fl=[], _generated=T0), r2])))
    out.append(("dict-differs", S(l=[], d=[{"a": 1, "b": 2}], _generated=T0), S(l=[], d=[{"a": 1, "c": 2}], _generated=T0)))
    out.append(("dict-value-differs", S(l=[], d=[{"a": 1, "b": 2}], _generated=T0), S(l=[], d=[{"a": 1, "b": 3}], _generated=T0)))
    out.append(("dict-subset", S(l=[], d=[{"a": 1}], _generated=T0), S(l=[], d=[{"a": 1, "b": 3}], _generated=T0)))
    D = RecordDescriptor("sp/d", [("datetime", "t")])
    ams = zoneinfo.ZoneInfo("Europe/Amsterdam")
    out.append(("same-instant-other-zone", D(t=pydt.datetime(2020, 1, 1, 12, tzinfo=UTC), _generated=T0),
                D(t=pydt.datetime(2020, 1, 1, 13, tzinfo=ams), _generated=T0)))
    out.append(("fold-same-zone", D(t=pydt.datetime(2021, 10, 31, 2, 30, tzinfo=ams, fold=0), _generated=T0),
                D(t=pydt.datetime(2021, 10, 31, 2, 30, tzinfo=ams, fold=1), _generated=T0)))
    out.append(("fold-vs-utc", D(t=pydt.datetime(2021, 10, 31, 2, 30, tzinfo=ams, fold=1), _generated=T0),
                D(t=pydt.datetime(2021, 10, 31, 1, 30, tzinfo=UTC), _generated=T0)))
    out.append(("fixed-offsets", D(t=pydt.datetime(2020, 1, 1, 12, tzinfo=pydt.timezone(pydt.timedelta(hours=2))), _generated=T0),
                D(t=pydt.datetime(2020, 1, 1, 12, tzinfo=pydt.timezone(pydt.timedelta(hours=2))), _generated=T0)))
    P = RecordDescriptor("sp/p", [("path", "p"), ("command", "c"), ("command[]", "cs"), ("digest", "g"), ("net.ipaddress", "i")])
    md5 = "d41d8cd98f00b204e9800998ecf8427e"
    out.append(("path-flavours", P(p=path.from_posix("/a/b"), c="ls -l /tmp", cs=["a b", "c"], g=(md5, None, None), i="::1", _generated=T0),
                P(p=path.from_windows("/a/b"), c="ls -l /tmp", cs=["a b", "c"], g=(md5, None, None), i="0.0.0.1", _generated=T0)))
    out.append(("digest-case-ip-forms", P(p="/a/b", c="ls  -l   /tmp", cs=["a b", "c"], g=(md5.upper(), None, None), i="1.2.3.4", _generated=T0),
                P(p="/a/b", c="ls -l /tmp", cs=["a b", "c"], g=(md5, None, None), i=16909060, _generated=T0)))
    out.append(("command-args", P(p="", c="ls -l", cs=[], g=None, i=None, _generated=T0), P(p="", c="ls -a", cs=[], g=None, i=None, _generated=T0)))
    # two DIFFERENT descriptors with the same identifier (name, 32-bit hash): records of them are unequal
    D1 = RecordDescriptor("t/c", [("stringlist", "a"), ("string", "b")])
    D2 = RecordDescriptor("t/c", [("string", "a"), ("string", "listb")])
    assert D1.identifier == D2.identifier and D1.get_field_tuples() != D2.get_field_tuples()
    N = RecordDescriptor("sp/n", [("record", "r"), ("record[]", "rs")])
    c1, c2 = D1(b="y", _generated=T0), D2(listb="y", _generated=T0)
    out.append(("identifier-coincidence", c1, c2))
    out.append(("identifier-coincidence-reversed", c2, c1))
    out.append(("identifier-coincidence-nested", N(r=c1, rs=[], _generated=T0), N(r=c2, rs=[], _generated=T0)))
    out.append(("identifier-coincidence-nested-list", N(r=None, rs=[c2, c1], _generated=T0), N(r=None, rs=[c1, c1], _generated=T0)))
    out.append(("identifier-coincidence-grouped", GroupedRecord("g", [c1]), GroupedRecord("g", [c2])))
    out.append(("identifier-coincidence-grouped-reversed", GroupedRecord("g", [c2, c1]), GroupedRecord("g", [c1, c1])))
    out.append(("identifier-coincidence-group-vs-plain", GroupedRecord("t/c", [c1]), c2))
    for nm, ra, rb in collision_records():
        out.append(("collision-%s" % nm, ra, rb))
        out.append(("collision-%s-reversed" % nm, rb, ra))
        out.append(("collision-%s-nested" % nm, N(r=ra, rs=[rb, ra], _generated=T0), N(r=rb, rs=[ra, ra], _generated=T0)))
        out.append(("collision-%s-grouped" % nm, GroupedRecord("g", [c1, ra]), GroupedRecord("g", [c1, rb])))
    out.append(("nested-differs-deep", N(r=F(f=1.0, fl=[2.0], _generated=T0), rs=[F(f=1.0, fl=[2.0], _generated=T0)], _generated=T0),
                N(r=F(f=1.0, fl=[2.0], _generated=T0), rs=[F(f=1.0, fl=[2.5], _generated=T0)], _generated=T0)))
    return [(n, x, x if y is None else y) for n, x, y in out]


def configs_for(x, y, rnd):
    """ignore configurations for a pair: none, a reserved field, one declared field, several, an unknown name"""
    from flow.record import GroupedRecord, Record
    names = []
    for r in (x, y):
        if isinstance(r, GroupedRecord):
            for m in r.records:
                names += [n for _, n in m._desc.get_field_tuples()]
        elif isinstance(r, Record):
            names += [n for _, n in r._desc.get_field_tuples()]
    names = sorted(set(names)) or ["a"]
    one = rnd.choice(names)
    several = set(rnd.sample(names, min(len(names), rnd.randrange(1, 4)))) | set(rnd.sample(["_generated", "_source", "_classification", "_version"], rnd.randrange(1, 3)))
    return [frozenset(), frozenset(["_generated"]), frozenset([one]), frozenset(several), frozenset(["no_such_field", "_source"])]


from vf.factgen.c12 import SCOPE_KINDS, end_scope  # noqa: E402  (the ways a `with` block can end)

MECHS = (["set"] + ["ctx:" + k for k in SCOPE_KINDS] + ["nested:" + k for k in SCOPE_KINDS]
         + ["body-sets:normal", "body-sets:exception", "body-sets:generator-close", "cmp-raises", "reenter"])
OLD_MECHS = {"ctx": "ctx:normal", "ctx-raise": "ctx:exception", "ctx-nested": "nested:exception", "ctx-body-sets": "body-sets:exception"}


class _Evil:
    def __eq__(self, other):
        raise ZeroDivisionError("comparison raised inside the scope")

    __hash__ = None


def under(mech, cfg, prior, fn):
    """run fn() with the ignore set configured through `mech`; returns (result, problem or None) where problem
    describes a global that is not what it has to be.  Mechanisms: `set` (set_ignored_fields_for_comparison),
    `ctx:<kind>` (the context manager, block ended in the given way), `nested:<kind>` (inside an outer scope, whose
    override has to be back afterwards), `body-sets:<kind>` (the body sets the ignore set itself), `cmp-raises` (a
    comparison inside the scope raises), `reenter` (the spent context-manager object is entered a second time)."""
    import flow.record.base as base
    from flow.record import ignore_fields_for_comparison, set_ignored_fields_for_comparison
    mech = OLD_MECHS.get(mech, mech)
    problem = None
    arg = rnd_iterable(cfg)
    set_ignored_fields_for_comparison(set(prior))

    def now():
        return set(base.IGNORE_FIELDS_FOR_COMPARISON)

    def inside():
        nonlocal problem
        if now() != set(cfg) and problem is None:
            problem = "inside the scope the ignore set is %r, expected %r" % (sorted(now()), sorted(cfg))
        return fn()

    def expect(want, when):
        nonlocal problem
        if now() != set(want) and problem is None:
            problem = "%s the ignore set is %r, it has to be %r" % (when, sorted(now()), sorted(want))

    res = None
    try:
        if mech == "set":
            set_ignored_fields_for_comparison(arg)
            return inside(), problem
        how, _, kind = mech.partition(":")
        if how == "ctx":
            res = end_scope(base, arg, kind, inside, collect=False)
        elif how == "nested":
            with ignore_fields_for_comparison(["zz_outer"]):
                res = end_scope(base, arg, kind, inside, collect=False)
                expect({"zz_outer"}, "after the inner scope ended (%s), inside the outer scope," % kind)
                set_ignored_fields_for_comparison(["zz_outer"])
        elif how == "body-sets":
            def body():
                set_ignored_fields_for_comparison(arg)
                return inside()
            res = end_scope(base, ["zz_outer"], kind, body, collect=False)
        elif how == "cmp-raises":
            try:
                with ignore_fields_for_comparison(arg):
                    res = inside()
                    _Evil() == 1  # noqa: B015
            except ZeroDivisionError:
                pass
            else:
                problem = problem or "the exception raised by a comparison inside the scope was swallowed"
        elif how == "reenter":
            cm = ignore_fields_for_comparison(arg)
            with cm:
                res = inside()
            expect(prior, "after the scope ended normally")
            try:
                with cm:            # a spent context manager: entering it again fails, and must not leave an override behind
                    pass
            except Exception:  # noqa
                pass
        else:
            raise ValueError(mech)
        expect(prior, "after the scope ended (%s)" % mech)
        return res, problem
    finally:
        set_ignored_fields_for_comparison(set())


def rnd_iterable(cfg):
    """the configuration handed over as different kinds of iterables"""
    k = len(cfg) % 4
    items = sorted(cfg)
    return [items, tuple(items), set(items), (s for s in items)][k]


# ------------------------------------------------------------------------------------------------------
# judging one observed case against the property (Python level)

def show(x):
    try:
        return repr(x)[:600]
    except Exception as e:  # noqa
        return "<repr failed: %r>" % e


def judge(kind, x, y, cfg, mech, o, problem):
    """returns None when the property holds on this case, else (what, False)"""
    from flow.record import Record
    where = "%s pair under ignore=%s via %s: x=%s y=%s" % (kind, sorted(cfg), mech, show(x), show(y))
    if problem:
        return "scoped ignore configuration: %s (%s)" % (problem, where), False
    for k in ("eq", "rev", "ne", "hx", "hy", "inset", "dget"):
        if k in o and o[k][0] == "exc":
            what = {"eq": "x == y", "rev": "y == x", "ne": "x != y", "hx": "hash(x)", "hy": "hash(y)", "inset": "y in {x}",
                    "dget": "{x: 1}.get(y)"}[k]
            return "%s raised %s: %s (%s)" % (what, o[k][1], o[k][2], where), False
    want = spec_eq(x, y, cfg)
    if x is y and isinstance(x, Record):
        want = True                      # reflexivity is demanded outright (also for NaN)
    eq = o["eq"][1]
    if not isinstance(eq, bool):
        return "x == y returned %r, not a bool (%s)" % (eq, where), False
    if eq != want:
        return "x == y is %s but the records %s (%s)" % (
            eq, "have the same descriptor and equal kept values" if want else "differ in descriptor or in a kept value", where), False
    if o["rev"][1] != eq:
        return "== is not symmetric: x == y is %s, y == x is %s (%s)" % (eq, o["rev"][1], where), False
    if o["ne"][1] != (not eq):
        return "x != y is %s while x == y is %s (%s)" % (o["ne"][1], eq, where), False
    if isinstance(x, Record) and isinstance(y, Record):
        if eq and o["hx"][1] != o["hy"][1]:
            return "equal records have different hashes (%s)" % where, False
        if "inset" in o and (o["inset"][1] != eq or o["dget"][1] != eq):
            # for unequal records a hash collision cannot make membership true: the == decides
            return "set/dict membership disagrees with ==: y in {x} is %s, {x:1}.get(y) found is %s, x == y is %s (%s)" % (
                o["inset"][1], o["dget"][1], eq, where), False
    return None


def run_pairs(ctx, pairs, rnd, on_bad, shards=None, max_cfg=5):
    """observe every pair under its configurations; on_bad(what, known, replay) for every case that fails the
    Python-level judgement; add Coq cases to `shards` (list of Shard) when given"""
    from flow.record import Record
    n_exec = 0
    for idx, (kind, x, y) in enumerate(pairs):
        cfgs = configs_for(x, y, rnd)[:max_cfg]
        for ci, cfg in enumerate(cfgs):
            mech = MECHS[(idx + ci) % len(MECHS)]
            prior = [set(), {"_source"}, {"zz_prior", "a"}][(idx + 2 * ci) % 3]
            o, problem = under(mech, cfg, prior, lambda: observe_pair(x, y))
            n_exec += 1
            bad = judge(kind, x, y, cfg, mech, o, problem)
            kshape = kind.split(":")[0]
            ctx.count_case((kshape, type(x).__name__, _shape(x), _shape(y), tuple(sorted(cfg)), mech, o["eq"][:2]),
                           nontrivial=(x is not y))
            if bad:
                on_bad(bad[0], bad[1], dict(kind="pair", pair_kind=kind, index=idx, ignore=sorted(cfg), mechanism=mech,
                                            x=show(x), y=show(y), observed={k: list(map(str, v)) for k, v in o.items()}))
                continue
            if shards is not None and isinstance(x, Record):
                sh = shards[-1]
                if sh.size > 90000:
                    sh = Shard()
                    shards.append(sh)
                try:
                    rx, ry = sh.ref(x), sh.ref(y)
                except Unobservable:
                    ctx.coverage["unobservable_pairs"] = ctx.coverage.get("unobservable_pairs", 0) + 1
                    continue
                meta = dict(kind=kind, index=idx, ignore=sorted(cfg), mechanism=mech, x=show(x), y=show(y), eq=o["eq"][1])
                sh.add("chk_eq %s %s %s %s" % (cign(cfg), rx, ry, cbool(o["eq"][1])), dict(meta, part="=="))
                sh.add("chk_ne %s %s %s %s" % (cign(cfg), rx, ry, cbool(o["ne"][1])), dict(meta, part="!="))
                if isinstance(y, Record):
                    sh.add("chk_hash %s %s %s %s" % (cign(cfg), rx, ry, cbool(o["hx"][1] == o["hy"][1])), dict(meta, part="hash"))
    return n_exec


def _shape(r):
    from flow.record import GroupedRecord, Record
    if isinstance(r, GroupedRecord):
        return ("group", tuple(_shape(m) for m in r.records))
    if isinstance(r, Record):
        return ("rec", tuple(t for t, _ in r._desc.get_field_tuples()))
    return type(r).__name__


# ------------------------------------------------------------------------------------------------------
# packed VALUE pairs: the model of Python's == / hash agreement, validated directly

def value_pool():
    import zoneinfo
    nan = float("nan")
    ams = zoneinfo.ZoneInfo("Europe/Amsterdam")
    tz2 = pydt.timezone(pydt.timedelta(hours=2))
    pool = [
        None, True, False, 0, 1, -1, 2, 2**53, 2**53 + 1, 2**63, -2**63, 2**64, 10**30, 10**400, 2**1023, 2**1024,
        0.0, -0.0, 1.0, -1.0, 2.0, 0.5, 1.5, float(2**53), float(2**53 + 2), 9.223372036854775808e18, 1e30, 1e300, 5e-324,
        2.2250738585072014e-308, float(2**1023), float("inf"), float("-inf"), nan, float("nan"),
        "", "a", "A", "ab", "é", "\ud800", "\udcff", b"", b"a", b"ab",
        pydt.datetime(2020, 1, 1, 12, tzinfo=UTC), pydt.datetime(2020, 1, 1, 13, tzinfo=ams), pydt.datetime(2020, 1, 1, 14, tzinfo=tz2),
        pydt.datetime(2020, 1, 1, 14, tzinfo=pydt.timezone(pydt.timedelta(hours=2))), pydt.datetime(2020, 1, 1, 12, 0, 0, 1, tzinfo=UTC),
        pydt.datetime(2021, 10, 31, 2, 30, tzinfo=ams), pydt.datetime(2021, 10, 31, 2, 30, tzinfo=ams, fold=1),
        pydt.datetime(2021, 10, 31, 0, 30, tzinfo=UTC), pydt.datetime(2021, 10, 31, 1, 30, tzinfo=UTC),
        pydt.datetime(2021, 10, 31, 3, 30, tzinfo=pydt.timezone(pydt.timedelta(hours=2))),
        pydt.datetime(2021, 3, 28, 2, 30, tzinfo=ams), pydt.datetime(2021, 3, 28, 1, 30, tzinfo=UTC), pydt.datetime(2021, 3, 28, 0, 30, tzinfo=UTC),
        (), [], (1,), [1], (1.0,), [True], (1, 2), [1, 2], (1, [2, 3]), (1, (2, 3)), [[1], [2]], [[1], (2,)], (nan,), [nan], (float("nan"),),
        ("a", 0), ("a", 1), (("ls", ["-l"]), 0), (("ls", ["-l", "x"]), 0), (("ls", ("-l",)), 0), (None, 0), (b"\x00" * 16, None, None),
        {}, {"a": 1}, {"a": 1.0}, {"a": 1, "b": 2}, {"b": 2, "a": 1}, {"a": 1, "b": 3}, {"a": 1, "c": 2}, {"a": [1, {"x": 1, "y": nan}]},
        {"a": [1, {"y": nan, "x": 1}]}, [{"a": 1, "b": 2}], [{"b": 2, "a": 1}], 16909060, b"\x00" * 15 + b"\x01",
        {1: "one", "two": 2}, {"two": 2, 1: "one"}, {None: 0, "a": 1}, {"a": 1, None: 0}, {b"k": 1, "k": 2}, {"k": 2, b"k": 1},
        {True: "one", "two": 2}, {1.0: "one", "two": 2}, {"1": "one", "two": 2}, {(1, "a"): 1, "z": {2: 0, None: [1]}},
        {"z": {None: [1], 2: 0}, (1, "a"): 1}, {0.5: 1, 0: 2}, {False: 2, 0.5: 1},
    ]
    return pool


def value_cases(ctx, shards):
    import flow.record.base as base
    pool = value_pool()
    sh = Shard()
    shards.append(sh)
    n = 0
    for i, p in enumerate(pool):
        for j, q in enumerate(pool):
            if sh.size > 90000:
                sh = Shard()
                shards.append(sh)
            rp, rq = sh.ref(p), sh.ref(q)
            eq = (p,) == (q,)
            fp, fq = base._hashable(p), base._hashable(q)
            try:
                heq = hash(fp) == hash(fq)
            except TypeError as e:
                heq = None
            meta = dict(kind="value", x=show(p), y=show(q), i=i, j=j)
            sh.add("chk_val %s %s %s" % (rp, rq, cbool(eq)), dict(meta, part="(x,) == (y,)", eq=eq))
            if heq is None:
                sh.add("false", dict(meta, part="hash(_hashable(x)) raised TypeError"))
            else:
                sh.add("chk_valhash %s %s %s" % (rp, rq, cbool(heq)), dict(meta, part="hash agreement", eq=heq))
            ctx.count_case(("value", i, j), nontrivial=(i != j))
            n += 1
    return n


# ------------------------------------------------------------------------------------------------------
# the environment variable (fresh interpreter)

ENV_SCRIPT = r"""
import json, sys
sys.path.insert(0, %(tools)r)
import flow.record.base as base
from vf.props import c12
out = {"ignore": sorted(base.IGNORE_FIELDS_FOR_COMPARISON)}
pairs = c12.block_pairs(%(seed)d, %(n)d) + c12.special_pairs()
res = []
for kind, x, y in pairs:
    o = c12.observe_pair(x, y)
    res.append([kind, [str(v) for v in o["eq"][:2]], str(o["hx"][0] == "val" and o["hy"][0] == "val" and o["hx"][1] == o["hy"][1])])
out["pairs"] = res
print("@@" + json.dumps(out))
"""


def env_check(ctx, on_bad):
    from flow.record import set_ignored_fields_for_comparison
    seed, n = ctx.seed % 100000 + 5, 6
    for value in ["_generated,a", "", "b", "_source,_classification,_generated,_version,a,b,c,data,ts,value"]:
        want = set(value.split(",")) if value else set()
        rc, out = core.sh([core.PY, "-c", ENV_SCRIPT % dict(tools=str(core.VERIF / "tools"), seed=seed, n=n)],
                          env=core.env_for_repo({ENV_VAR: value} if value else None), timeout=120)
        line = [ln for ln in out.splitlines() if ln.startswith("@@")]
        if rc != 0 or not line:
            on_bad("a fresh interpreter with %s=%r failed: %s" % (ENV_VAR, value, out[-300:]), False,
                   dict(kind="env", value=value, log=out[-2000:]))
            return
        got = json.loads(line[0][2:])
        if set(got["ignore"]) != want:
            on_bad("with %s=%r the ignore set is %r, expected %r" % (ENV_VAR, value, got["ignore"], sorted(want)), False,
                   dict(kind="env", value=value, got=got["ignore"]))
            return
        pairs = block_pairs(seed, n) + special_pairs()
        set_ignored_fields_for_comparison(want)
        try:
            for (kind, x, y), r in zip(pairs, got["pairs"]):
                o = observe_pair(x, y)
                here = [kind, [str(v) for v in o["eq"][:2]], str(o["hx"][0] == "val" and o["hy"][0] == "val" and o["hx"][1] == o["hy"][1])]
                ctx.count_case(("env", value, kind, here[1][1]))
                if here != r:
                    on_bad("%s=%r in a fresh interpreter gives %r for the %s pair x=%s y=%s; set_ignored_fields_for_comparison(%r) gives %r" % (
                        ENV_VAR, value, r, kind, show(x), show(y), sorted(want), here), False,
                        dict(kind="env", value=value, pair_kind=kind, x=show(x), y=show(y), fresh=r, here=here))
                    return
        finally:
            set_ignored_fields_for_comparison(set())


# ------------------------------------------------------------------------------------------------------

class Reporter:
    """the first violation is reported with its concrete input"""

    def __init__(self, ctx, kf, prefix=""):
        self.ctx, self.prefix = ctx, prefix
        self.reported = False

    def __call__(self, what, _unused, replay):
        if not self.reported:
            self.reported = True
            replay = dict(replay)
            replay["seed"] = self.ctx.seed
            self.ctx.violation(self.prefix + what, replay)


def python_level(ctx, rep, shards, n_blocks, block_n):
    rnd = random.Random(ctx.seed)
    total = 0
    # a failing descriptor probe is held back until the hand-picked pairs have run: a pair of RECORDS that compare
    # wrongly is the more telling input; the descriptor pair is reported when no record pair shows the consequence
    held = []
    n = descriptor_probe(lambda what, k, replay: held.append((what, k, replay)))
    for i in range(n or 0):
        ctx.count_case(("descriptor-probe", i), nontrivial=True)
    if held:
        rep.prefix += held[0][0] + "; consequence on records: "
    sp = special_pairs()
    total += run_pairs(ctx, [("special:" + n, x, y) for n, x, y in sp], rnd, rep, shards)
    if held and not rep.reported:
        rep.prefix = rep.prefix[: -len("; consequence on records: ") - len(held[0][0])]
        rep(*held[0])
        return total
    for b in range(n_blocks):
        if rep.reported:
            break
        pairs = block_pairs(ctx.seed + b, block_n, legacy=(b % 3 == 2))
        total += run_pairs(ctx, pairs, rnd, rep, shards, max_cfg=5 if b < 2 else 3)
    return total


def search(ctx, reason):
    """the proof / translator broke: look for a concrete failing input on the implementation"""
    kf = core.known_for("C12")
    rep = Reporter(ctx, kf, prefix=reason + "; failing input: ")
    try:
        python_level(ctx, rep, None, 3, 25)
        if not rep.reported:
            env_check(ctx, rep)
    except Exception as e:  # noqa
        ctx.notes.append("search raised %r" % (e,))
        return rep.reported
    return rep.reported


def run(ctx):
    kf = core.known_for("C12")
    ctx.coverage["rule"] = (
        "a case = (ordered pair of objects x, y; ignore configuration; mechanism that installs it), observed through ==, "
        "reversed ==, !=, hash(), `in set`, dict lookup.  Pairs: every generated item (recgen: all field types, scalar "
        "and list, nested record/record[] fields, grouped records; every 3rd block with the legacy stringlist/dictlist/"
        "dynamic types) with itself, with its copy rebuilt from scratch by a second generator run, with 2-3 single-field "
        "variations (declared, reserved, inside a nested record, inside a group member), with the same values under "
        "another descriptor (name / field name / field type / extra field), with another item, with a non-record, group "
        "vs member / renamed / shortened / reordered / re-grouped; plus hand-picked edge pairs (NaN, signed zeros, "
        "int/float/bool, dict key order, dicts with keys of different types (plain, nested, grouped), time zones and fold, path/command/digest/ip forms, two descriptors sharing (name, hash) -- plain, nested, grouped, both directions; descriptor pairs whose identifiers collide by construction for 9 type combinations, holding the same values).  "
        "Configurations: {}, {_generated}, one declared field, several declared+reserved, an unknown name; installed by "
        "set_ignored_fields_for_comparison, the context manager with the block ended in every way (normally, Exception, "
        "KeyboardInterrupt, SystemExit, closing / dropping a suspended generator that holds the scope, return, break, "
        "continue) alone and nested in an outer scope, with a body that sets the ignore set again, with a comparison that "
        "raises inside the scope, re-entering a spent context manager, each with empty and non-empty prior setting, "
        "and the environment variable in a fresh interpreter.  distinct = distinct (pair kind, shapes of x and y, "
        "configuration, mechanism, outcome); non-trivial = x and y are different objects.  Value battery: all ordered "
        "pairs of a pool of packed values, (p,) == (q,) and hash agreement against the model.")
    ok = core.standard_proof_stage(ctx, ["props/C12.vo"], "C12", THEOREMS, search_fn=search, gens=["gen_equality"])
    ctx.assumptions += [
        "Python's hash() agrees with == on hashable values (hypothesis Hs_eq of C12_eq_hash; exercised: whenever the "
        "model's hash keys of two records / two packed values are equal the implementation's hashes were equal)",
        "hash(tuple) depends on the elements only through their hashes, so hash(record) = hash of the frozen _pack() with "
        "nested records replaced by their own frozen _pack() (model: dpack)",
        "CPython's element comparison in tuple/list/dict equality answers equal for the very same object before calling "
        "__eq__ (identity tokens of float objects in the observation); only floats have a non-reflexive ==",
        "the model's input is the packed value of every slot (FieldType._pack() output, nested records kept as objects) "
        "as observed by the harness; text and bytes only through an injective encoding (hex; beyond 64 bytes length + "
        "SHA-256, assumed collision-free); datetime equality follows "
        "CPython's datetime_richcompare incl. PEP 495 (concrete model dt_eq, validated by the value battery)",
        "dict keys (None, bool/int/float, str, bytes, tuples of those) are carried as an injective token of their equality "
        "class; other key types: pair skipped in the Coq comparison, still judged in Python",
    ]
    if not ok:
        return
    rep = Reporter(ctx, kf)
    shards = [Shard()]
    quick = ctx.tier == "quick"
    n_pairs = python_level(ctx, rep, shards, 6 if quick else 40, 22 if quick else 30)
    if not rep.reported:
        env_check(ctx, rep)
    if rep.reported:
        return
    value_cases(ctx, shards)
    texts = [("c12_%04d" % i, sh.text()) for i, sh in enumerate(shards) if sh.cases]
    res = core.run_case_shards(ctx.work, texts, timeout=600)
    failing = []
    total = 0
    for (nm, _), sh in zip(texts, [s for s in shards if s.cases]):
        rc, out = res[nm]
        lst = core.parse_nat_list(out) if rc == 0 else None
        if lst is None:
            ctx.violation("correspondence shard %s did not evaluate: %s" % (nm, out[-300:]), dict(kind="coq-eval", log=out[-3000:]), no_input=True)
            return
        total += len(sh.cases)
        failing += [sh.cases[i][1] for i in lst]
    ctx.coverage["traces_validated_against_impl"] = total - len(failing)
    ctx.coverage["model_cases"] = total
    ctx.notes.append("%d pair observations judged in Python; %d model evaluations inside Coq in %d shards" % (n_pairs, total, len(texts)))
    if failing:
        m = failing[0]
        ctx.violation(
            "model/Equality.v and the implementation disagree on %d of %d evaluations; first: %s of the %s pair under ignore=%s: "
            "implementation answered %s; x=%s y=%s (the Python-level oracle accepted this case)" % (
                len(failing), total, m.get("part"), m.get("kind"), m.get("ignore"), m.get("eq"), m.get("x"), m.get("y")),
            dict(kind="correspondence", correspondence="C12 pairs vs model/Equality.v", first=m, failing=failing[:20]), no_input=True)
        return
    for sh in shards[:3]:
        for term, meta in sh.cases[:: max(1, len(sh.cases) // 2)][:2]:
            ctx.sample(dict(case=term, **{k: meta[k] for k in ("kind", "part", "ignore", "mechanism", "x", "y") if k in meta}))


def replay(obj):
    import flow.record.base as base  # noqa
    kind = obj.get("kind")
    if kind == "pair":
        seed = int(obj.get("seed", 20260930))
        pk = obj["pair_kind"]
        cands = []
        if pk.startswith("special:"):
            cands = [(k, x, y) for k, x, y in [("special:" + n, x, y) for n, x, y in special_pairs()] if k == pk]
        else:
            for b in range(40):
                pairs = block_pairs(seed + b, 22, legacy=(b % 3 == 2)) + block_pairs(seed + b, 25, legacy=(b % 3 == 2)) \
                    + block_pairs(seed + b, 30, legacy=(b % 3 == 2))
                cands = [(k, x, y) for k, x, y in pairs if k == pk and show(x) == obj["x"] and show(y) == obj["y"]]
                if cands:
                    break
        if not cands:
            print("replay: could not regenerate the pair; re-run ./check C12")
            return 2
        k, x, y = cands[0]
        cfg = frozenset(obj["ignore"])
        o, problem = under(obj["mechanism"], cfg, set(), lambda: observe_pair(x, y))
        bad = judge(k, x, y, cfg, obj["mechanism"], o, problem)
        print("replay %s under ignore=%s via %s -> %s" % (k, sorted(cfg), obj["mechanism"], {a: b[:2] for a, b in o.items()}))
        print("property %s" % ("HOLDS on this case" if not bad else "FAILS: " + bad[0]))
        return 0 if not bad else 1
    if kind == "descriptor":
        from flow.record import RecordDescriptor
        a = RecordDescriptor(obj["a"][0], [tuple(f) for f in obj["a"][1]])
        b = RecordDescriptor(obj["b"][0], [tuple(f) for f in obj["b"][1]])
        got = outcome(lambda: a == b)
        print("replay descriptor equality (%s): %r == %r -> %s, expected %s" % (obj.get("what"), obj["a"], obj["b"], got[1:], obj["expected"]))
        return 0 if got == ("val", obj["expected"]) else 1
    print("replay of kind %s: re-run ./check C12" % kind)
    return 2
