"""C04 -- A damaged stream yields an intact prefix, never altered records.

proof:  coq/props/C04.v (msgpack prefix-freeness; the reader on ANY cut of ANY framed stream processes exactly the
        complete frames, then ends cleanly or raises; writer-level corollary; failing write = prefix)
tie:    (T) gen/Gen_packer.v; (C) exhaustive enumeration: for generated streams EVERY byte offset is cut (raw streams
        through RecordStreamReader, gzip files through RecordReader), every write-call index x partial length is failed
        on an instrumented file object; records yielded and outcome class are compared with the model evaluated in Coq
        on the same cut.
"""
from __future__ import annotations

import gzip
import io
import os
import random
import struct
import warnings

from vf import core, recgen
from vf import streamcases as sc

THEOREMS = ["C04_truncated_encoding_rejected", "C04_cut_frames", "C04_prefix_of_full_run", "C04_cut_written_stream",
            "C04_cut_inside_header", "C04_boundary_is_clean", "C04_failed_write_leaves_prefix", "C04_lost_record_frame",
            "C04_lost_descriptor_frame_partial", "C04_lost_descriptor_coincident_refuted", "C04_fresh_satisfiable"]

HEADER = sc.HEADER + """
Definition outcome_eqb (a b : outcome) : bool := match a, b with CleanEOF, CleanEOF | Raised, Raised => true | _, _ => false end.
(* one cut: offset, number of items the implementation yielded, did it end cleanly, was it refused as not-a-stream *)
Definition cut_ok (tbl : list (desc * Z)) (data : bytes) (rb : list item) (cut : nat * (nat * (bool * bool))) : bool :=
  let '(k, (n, (clean, notstream))) := cut in
  match read_stream the_cfg (hash_lookup tbl) DEPTH (firstn k data) with
  | NotAStream => notstream
  | Read objs oc => negb notstream && outcome_eqb oc (if clean then CleanEOF else Raised) && objs_match objs (firstn n rb)
  end.
Definition cuts_ok tbl data rb (cuts : list (nat * (nat * (bool * bool)))) : bool := forallb (cut_ok tbl data rb) cuts.
"""


def read_cut(data, peek=None):
    """(records yielded, outcome) with outcome in clean / raised / notstream.  With peek=j the reader is consumed in two
    passes: the first `for` loop is left (break) after j records, a second one continues on the same reader."""
    from flow.record import RecordStreamReader
    out = []
    try:
        with warnings.catch_warnings():
            warnings.simplefilter("ignore")
            rd = RecordStreamReader(io.BytesIO(data))
    except IOError:
        return out, "notstream"
    try:
        with warnings.catch_warnings():
            warnings.simplefilter("ignore")
            if peek is not None:
                for r in rd:
                    out.append(r)
                    if len(out) >= peek:
                        break
            for r in rd:
                out.append(r)
    except Exception:  # noqa
        return out, "raised"
    return out, "clean"


def frame_ends(data):
    ends = []
    pos = 0
    while pos + 4 <= len(data):
        n = struct.unpack(">I", data[pos:pos + 4])[0]
        pos += 4 + n
        if pos <= len(data):
            ends.append(pos)
    return ends


def item_frame_ends(data, n_items):
    """end offsets of the frames that carry items (not header / descriptor frames), by decoding kinds."""
    import msgpack
    out = []
    pos = 0
    while pos + 4 <= len(data):
        n = struct.unpack(">I", data[pos:pos + 4])[0]
        body = data[pos + 4:pos + 4 + n]
        pos += 4 + n
        v = msgpack.unpackb(body, raw=False, strict_map_key=False, ext_hook=lambda c, d: msgpack.ExtType(c, d), unicode_errors="surrogateescape")
        if isinstance(v, msgpack.ExtType):
            sub = msgpack.unpackb(v.data, raw=False, strict_map_key=False, ext_hook=lambda c, d: msgpack.ExtType(c, d), unicode_errors="surrogateescape")[0]
            if sub in (1, 0x12):
                out.append(pos)
    assert len(out) == n_items
    return out


def fixed_streams():
    """Streams every run contains whatever the seed: two versions of one record type (same name, a field appended; both
    orders), a same-named type nested in a record field, and two types whose identifiers coincide -- the situations in
    which a LOST descriptor frame could let later records be decoded with another descriptor."""
    import datetime as pydt

    from flow.record import GroupedRecord, RecordDescriptor
    t0 = pydt.datetime(2021, 5, 6, 7, 8, 9, tzinfo=pydt.timezone.utc)
    v1 = RecordDescriptor("fs/entry", [("string", "path")])
    v2 = RecordDescriptor("fs/entry", [("string", "path"), ("string", "owner")])
    c1 = RecordDescriptor("t/c", [("stringlist", "a"), ("string", "b")])
    c2 = RecordDescriptor("t/c", [("string", "a"), ("string", "listb")])
    hold = RecordDescriptor("fs/holder", [("record", "r"), ("varint", "k")])
    a = lambda i: v1(path="/a%d" % i, _generated=t0)                      # noqa: E731
    b = lambda i: v2(path="/b%d" % i, owner="root", _generated=t0)        # noqa: E731
    seqs = [
        [a(1), b(1), b(2), a(2)],
        [b(1), a(1), a(2), b(2)],
        [a(1), hold(r=b(1), k=1, _generated=t0), b(2)],
        [c1(a=["x"], b="y", _generated=t0), c2(a="p", listb="q", _generated=t0), c2(a="r", listb="s", _generated=t0)],
        [a(1), GroupedRecord("fs/grp", [b(1), a(2)]), b(2)],
        # a group whose FIRST member's type is already defined when the group is written and whose second is not
        [a(1), GroupedRecord("fs/grp2", [a(2), b(1)]), a(3), b(2)],
    ]
    # one record holding PARTIALLY filled values of the structured field types (a record "partially filled" on reading would
    # go unnoticed if every written value were complete): digests with one or two of the three hashes, both path / command
    # flavours, both address families, a timestamp with an offset, a big integer
    from flow.record.fieldtypes import command as _command, path as _path
    zoo = RecordDescriptor("zoo/partial", [("digest", "d1"), ("digest", "d2"), ("digest", "d3"), ("digest[]", "dl"), ("path", "p"),
                                           ("path", "wp"), ("command", "wc"), ("net.ipaddress", "i4"), ("net.ipaddress", "i6"),
                                           ("datetime", "dt"), ("varint", "big"), ("float", "f"), ("bytes", "b"), ("uint16[]", "ul")])
    md5, sha1, sha256 = "d41d8cd98f00b204e9800998ecf8427e", "da39a3ee5e6b4b0d3255bfef95601890afd80709", "e3b0c442" * 8
    z = zoo(d1=(None, None, sha256), d2=(md5, None, sha256), d3=(None, sha1, None), dl=[(None, None, sha256), (md5, None, None)],
            p="/etc/x", wp=_path.from_windows("C:\\t\\y"), wc=_command.from_windows("cmd.exe /c dir"), i4="10.1.2.3", i6="fe80::1",
            dt=pydt.datetime(2022, 3, 4, 5, 6, 7, 890, tzinfo=pydt.timezone(pydt.timedelta(hours=-3, minutes=-30))),
            big=-(2 ** 70), f=-0.0, b=b"\x00\xff", ul=[0, 65535], _generated=t0)
    seqs.append([z, a(1)])
    out = []
    for items in seqs:
        out.append((items, [recgen.obs_item(x) for x in items], sc.write_stream_bytes(items)))
    # two streams one after the other in one file (cat a.records b.records; a second writer appending): the second header
    # and the repeated definitions are skipped, every record of both parts is read
    for first, second in ((seqs[0], seqs[1]), (seqs[4], seqs[2]), (seqs[5], seqs[0])):
        items = first + second
        out.append((items, [recgen.obs_item(x) for x in items], sc.write_stream_bytes(first) + sc.write_stream_bytes(second), "concat"))
    return out


def gen_streams(ctx, n):
    rnd = random.Random(ctx.seed)
    out = fixed_streams()
    n += len(out)
    tries = 0
    while len(out) < n and tries < 200:
        tries += 1
        g = recgen.Gen(rnd, legacy=False, max_fields=3)
        items = g.items(rnd.choice([2, 3, 4]))
        try:
            obs = [recgen.obs_item(x) for x in items]
        except recgen.Unobservable:
            continue
        data = sc.write_stream_bytes(items)
        if len(data) > (700 if ctx.tier == "quick" else 1500):
            continue
        out.append((items, obs, data))
    return [t if len(t) == 4 else t + ("single",) for t in out]


class FailingFile(io.RawIOBase):
    """write() call number `at` stores only `part` bytes of its chunk and raises (or, silent=True, returns)."""
    def __init__(self, at, part, silent=False):
        self.buf = bytearray()
        self.calls = 0
        self.at, self.part, self.silent = at, part, silent

    def writable(self):
        return True

    def write(self, b):
        i = self.calls
        self.calls += 1
        if i == self.at:
            self.buf += bytes(b)[: self.part]
            if self.silent:
                return self.part
            raise OSError(28, "No space left on device")
        self.buf += bytes(b)
        return len(b)


def check_stream(ctx, items, obs, data, gz):
    """Every cut offset; returns (list of (k, n, clean, notstream), error or None)."""
    from flow.record import GroupedRecord, Record
    want = [recgen.canon(recgen.obs_item(x, True)) for x in items]
    ends = item_frame_ends(data, len(items))
    boundaries = set(frame_ends(data))
    cuts = []
    for k in range(len(data) + 1):
        got, oc = read_cut(data[:k])
        ctx.count_case(("cut", len(data), k, data[:24]), nontrivial=(k not in boundaries and k != 0))
        foreign = [x for x in got if not isinstance(x, (Record, GroupedRecord))]
        if foreign:
            return cuts, "cut at %d of %d: the reader yields an object that is not a record: %r" % (k, len(data), foreign[0])
        gotc = [recgen.canon(recgen.obs_item(x, True)) for x in got]
        complete = sum(1 for e in ends if e <= k)
        if gotc != want[:len(gotc)]:
            return cuts, "cut at %d of %d: a yielded record differs from the written ones" % (k, len(data))
        if len(gotc) != complete:
            return cuts, "cut at %d of %d: %d records yielded, %d item frames are complete before the cut" % (k, len(data), len(gotc), complete)
        if k in boundaries and k >= 19 and oc != "clean":
            return cuts, "cut at frame boundary %d: reading %s instead of ending cleanly" % (k, oc)
        cuts.append((k, len(got), oc == "clean", oc == "notstream"))
        # the same bytes consumed in two passes (peek at the first record, leave the loop, carry on): nothing may be skipped
        if got and (k == len(data) or k % 7 == 0):
            for peek in {1, len(got)}:
                got2, oc2 = read_cut(data[:k], peek=peek)
                ctx.count_case(("cut-two-pass", len(data), k, peek, data[:24]))
                if [recgen.canon(recgen.obs_item(x, True)) for x in got2] != gotc or oc2 != oc:
                    return cuts, ("cut at %d of %d read in two passes (the first loop left after %d record(s), a second loop over the same "
                                  "reader): %d records / %s instead of %d / %s" % (k, len(data), peek, len(got2), oc2, len(got), oc))
    return cuts, None


def check_gzip_cuts(ctx, items, data):
    """A gzip-compressed record file cut at any byte, opened by path AND handed over as a file object (the routes wrap the
    decompressor differently): what is read is exactly the records whose frames lie completely inside the plaintext an
    independent streaming decompressor (zlib) recovers from the cut file - none altered, none skipped."""
    import zlib

    from flow.record import RecordReader
    want = [recgen.canon(recgen.obs_item(x, True)) for x in items]
    item_ends = item_frame_ends(data, len(items))
    comp = gzip.compress(data, mtime=0)
    p = os.path.join(str(ctx.work), "cut.records.gz")
    step = 1 if ctx.tier == "thorough" else max(1, len(comp) // 60)
    for k in list(range(0, len(comp), step)) + [len(comp)]:
        try:
            avail = zlib.decompressobj(31).decompress(comp[:k])
        except Exception:  # noqa
            avail = b""
        expected = sum(1 for e in item_ends if e <= len(avail))
        open(p, "wb").write(comp[:k])
        for route in ("path", "fileobj"):
            got = []
            try:
                with warnings.catch_warnings():
                    warnings.simplefilter("ignore")
                    rd = RecordReader(p) if route == "path" else RecordReader(fileobj=io.BytesIO(comp[:k]))
                    for r in rd:
                        got.append(r)
            except Exception:  # noqa
                pass
            ctx.count_case(("gzcut", route, len(comp), k, data[:24]))
            gotc = [recgen.canon(recgen.obs_item(x, True)) for x in got]
            if gotc != want[:len(gotc)]:
                return "gzip file cut at %d of %d (%s): a yielded record differs from the written ones" % (k, len(comp), route)
            if len(gotc) != expected:
                return ("gzip file cut at %d of %d (%s): %d records read, but the frames of %d records are completely inside the %d "
                        "plaintext bytes a streaming decompressor recovers" % (k, len(comp), route, len(gotc), expected, len(avail)))
            if k == len(comp) and len(gotc) != len(want):
                return "complete gzip file (%s): %d of %d records read" % (route, len(gotc), len(want))
    return None


def check_failing_writes(ctx, items, data):
    """every write call x a few partial lengths, raising and silent-short"""
    from flow.record import RecordStreamWriter
    want = [recgen.canon(recgen.obs_item(x, True)) for x in items]
    probe = FailingFile(10**9, 0)
    w = RecordStreamWriter(probe)
    for it in items:
        w.write(it)
    ncalls = probe.calls
    w.fp = None
    for at in range(ncalls):
        for part in (0, 1, 3):
            for silent in (False, True):
                f = FailingFile(at, part, silent)
                w = RecordStreamWriter(f)
                written = 0
                try:
                    for it in items:
                        w.write(it)
                        written += 1
                except OSError:
                    pass
                w.fp = None
                disk = bytes(f.buf)
                ctx.count_case(("failwrite", at, part, silent, data[:24]))
                if not silent and not data.startswith(disk):
                    return "failing write call %d (%d bytes stored): file content is not a prefix of the full stream" % (at, part)
                got, oc = read_cut(disk)
                from flow.record import Record
                if silent and any(not isinstance(x, Record) for x in got):
                    kf = {f["id"]: f for f in core.known_for("C04")}
                    if "C04-silent-short-write-foreign-object" in kf:
                        ctx.known_finding("C04-silent-short-write-foreign-object", kf["C04-silent-short-write-foreign-object"]["what"])
                        got = [x for x in got if isinstance(x, Record)]
                    else:
                        return "silently short write call %d (%d bytes stored): the reader yields a non-record object %r" % (
                            at, part, [type(x).__name__ for x in got])
                gotc = [recgen.canon(recgen.obs_item(x, True)) for x in got]
                if gotc != want[:len(gotc)]:
                    return "%s write call %d (%d bytes stored): a yielded record differs from the written ones" % (
                        "short" if silent else "failing", at, part)
                if not silent:
                    complete = sum(1 for e in item_frame_ends(data, len(items)) if e <= len(disk))
                    if len(gotc) != complete:
                        return "failing write call %d: %d records read, %d complete item frames on disk" % (at, len(gotc), complete)
    return None


def is_subsequence(sub, full):
    it = iter(full)
    return all(any(x == y for y in it) for x in sub)


def lost_descriptor_shares_identifier(data, i):
    """Is frame i of the stream a descriptor frame whose identifier is also the identifier of a different descriptor
    defined by an earlier frame?"""
    from flow.record import RecordDescriptor
    from vf.props import c03
    frames = c03.walk_frames(data)
    if i >= len(frames) or frames[i][0] != "desc":
        return False

    def key(payload):
        name, fields = payload
        return name, tuple((t, n) for t, n in fields)
    mine = key(frames[i][1])
    ident = RecordDescriptor.calc_descriptor_hash(mine[0], mine[1])
    for kind, payload in frames[:i]:
        if kind == "desc":
            k = key(payload)
            if k != mine and k[0] == mine[0] and RecordDescriptor.calc_descriptor_hash(k[0], k[1]) == ident:
                return True
    return False


def check_dropped_frames(ctx, items, data):
    """A write that failed completely while the application carried on: every single frame is dropped in turn.
    Whatever is yielded must be written records, in order (a record whose descriptor frame is missing must NOT be
    decoded with another descriptor).  Returns (list of (data', yielded observations, clean?), error)."""
    from flow.record import Record
    want = [recgen.canon(recgen.obs_item(x, True)) for x in items]
    bounds = [0] + frame_ends(data)
    out = []
    for i in range(1, len(bounds) - 1):
        d2 = data[:bounds[i]] + data[bounds[i + 1]:]
        got, oc = read_cut(d2)
        ctx.count_case(("dropped-frame", i, data[:24]))
        if any(not isinstance(x, Record) for x in got):
            return out, "frame %d dropped: the reader yields a non-record object" % i
        gotc = [recgen.canon(recgen.obs_item(x, True)) for x in got]
        if not is_subsequence(gotc, want):
            if lost_descriptor_shares_identifier(data, i):
                # the lost frame defines a descriptor whose (name, hash) identifier an EARLIER, different descriptor of the
                # stream also has: the reader cannot tell that a definition is missing (known finding, format-inherent)
                kf = {f["id"]: f for f in core.known_for("C04")}
                fid = "C04-lost-descriptor-frame-coincident-identifier"
                if fid in kf:
                    ctx.known_finding(fid, kf[fid]["what"])
                    continue        # (not compared with the model: its typed decoder refuses the mismatched payload)
            return out, "frame %d dropped (its write failed, writing continued): the reader yields a record that was not written: %r" % (
                i, [repr(x)[:200] for x in got])
        out.append((d2, [recgen.obs_item(x, True) for x in got], oc == "clean", oc == "notstream"))
    return out, None


def explore(ctx):
    streams = gen_streams(ctx, 5 if ctx.tier == "quick" else 40)
    terms, metas = [], []
    for items, obs, data, kind in streams:
        cuts, err = check_stream(ctx, items, obs, data, False)
        if not err:
            err = check_gzip_cuts(ctx, items, data)
        if not err and kind == "single":
            err = check_failing_writes(ctx, items, data)
        dropped = []
        if not err:
            dropped, err = check_dropped_frames(ctx, items, data)
        if err:
            ctx.violation(err, dict(kind="cut", items=[repr(x) for x in items], stream_hex=data.hex(), error=err))
            return None, None, True
        descs = []
        for o in obs:
            recgen.descs_of(o, descs)
        rbo = [recgen.obs_item(x, True) for x in items]
        tbl = recgen.coq_hash_table(descs)
        rb = "[%s]" % "; ".join(recgen.coq_item(o, readback=True) for o in rbo)
        cl = "[%s]" % "; ".join("(%d%%nat, (%d%%nat, (%s, %s)))" % (k, n, "true" if c else "false", "true" if ns else "false")
                                for k, n, c, ns in cuts)
        terms.append('(cuts_ok %s (unhex "%s") %s %s)' % (tbl, data.hex(), rb, cl))
        metas.append((items, data))
        for d2, got_obs, clean, ns in dropped:
            rb2 = "[%s]" % "; ".join(recgen.coq_item(o, readback=True) for o in got_obs)
            terms.append('(cuts_ok %s (unhex "%s") %s [(%d%%nat, (%d%%nat, (%s, %s)))])' % (
                tbl, d2.hex(), rb2, len(d2), len(got_obs), "true" if clean else "false", "true" if ns else "false"))
            metas.append((items, d2))
    return terms, metas, False


def search(ctx, reason):
    _, _, found = explore(ctx)
    return found


def run(ctx):
    ctx.coverage["rule"] = (
        "generated streams (2-4 items, nested/grouped included) x EVERY byte offset 0..len (raw, through RecordStreamReader) x "
        "gzip-compressed file cuts (every offset in the thorough tier, ~60 offsets per stream in quick) x every fp.write call "
        "index x {0,1,3} bytes stored x {raising, silently short}; every 7th cut and the whole stream are also read in TWO passes "
        "(first loop left after 1 / all records); fixed streams: two versions of a type, coincident identifiers, a record of partially "
        "filled digests / both flavours / both families, two streams concatenated in one file. distinct = distinct (stream, cut / fault); non-trivial = cut "
        "strictly inside a frame")
    ctx.coverage["exhaustive"] = True
    ok = core.standard_proof_stage(ctx, ["props/C04.vo", "model/Observe.vo"], "C04", THEOREMS, search_fn=search, gens=["gen_packer"])
    ctx.assumptions += [
        "decompressors deliver a prefix of the plaintext and then end or raise (gzip exercised at every/each sampled offset); io "
        "buffering is not modelled: faults are injected on the writer's own fp.write calls",
        "a SILENT short write is outside the frame-level theorem; the check demands that every record yielded afterwards equals the "
        "written one at its position (nothing invented or altered)",
    ]
    if not ok:
        return
    terms, metas, found = explore(ctx)
    if found:
        return
    failing, err = core.eval_bool_cases(ctx, HEADER, terms, shard_size=max(1, (len(terms) + 15) // 16), name="c04", timeout=900)
    if err:
        ctx.violation("correspondence shards did not evaluate: " + err[:300], dict(kind="coq-eval", log=err), no_input=True)
        return
    ctx.coverage["traces_validated_against_impl"] = sum(len(m[1]) + 1 for i, m in enumerate(metas) if i not in failing)
    if failing:
        items, data = metas[failing[0]]
        ctx.violation("model reader (coq/model/Stream.v) and implementation disagree on some cut of %d of %d streams (records yielded or "
                      "outcome); the property held at every cut" % (len(failing), len(terms)),
                      dict(kind="correspondence", correspondence="C04 cuts vs coq/model/Stream.v", items=[repr(x) for x in items],
                           stream_hex=data.hex()), no_input=True)
        return
    for items, data in metas[:3]:
        ctx.sample(dict(items=[repr(x)[:200] for x in items], stream_bytes=len(data), cuts=len(data) + 1))


def replay(obj):
    data = bytes.fromhex(obj["stream_hex"])
    for k in range(len(data) + 1):
        got, oc = read_cut(data[:k])
    print("replay: all cuts of the recorded stream re-read; re-run ./check C04 for the comparison")
    return 2
