"""C06 -- descriptor names are validated; untrusted definitions cannot inject code.

proof:   coq/props/C06.v (theorems about model/Names.v instantiated with the GENERATED facts of gen/Gen_names.v)
tie:     (T) gen/Gen_names.v is regenerated from base.py / whitelist.py / packer.py / jsonpacker.py / avro.py on every
         run (both regexes as ASTs, is_valid_field_name as a decision tree, step order of _generate_record_class, the
         template ...); the proofs go through only while `facts_ok facts` computes to true.
         (C) hostile definitions are handed to the implementation through four routes; for every case the
         implementation's behaviour (did it reach exec? was it accepted? slots, source text handed to exec) is
         compared with the model evaluated inside Coq, and the property's oracle (a plain Python re-statement of the
         grammar, itself compared with the Coq specification on every case) decides violations.
"""
from __future__ import annotations

import ast
import builtins
import itertools
import json
import keyword
import os
import random
import warnings

from vf import core
from vf.coqlit import cbool

PID = "C06"

THEOREMS = [
    "C06_generated_facts_ok", "C06_routes_guarded", "C06_regex_matcher_correct", "C06_type_regex_exact",
    "C06_field_regex_exact", "C06_generated_regexes_end_in_Z", "C06_validators_exact", "C06_validators_complete",
    "C06_validators_iff", "C06_prefix_refuted_dollar", "C06_dollar_facts_ok", "C06_dollar_slack",
    "C06_bytes_names_validated", "C06_fieldtype_resolves_in_whitelist", "C06_fieldtype_rejects_others", "C06_slots",
    "C06_slots_partial", "C06_refuted_slots_duplicates", "C06_no_injection", "C06_interpolated_text_origin",
    "C06_refuted_template_global_capture", "C06_hyp_satisfiable",
]

ROUTES = ("ctor", "frame", "json", "avro-doc")


# --------------------------------------------------------------------------------------------------
# the property's oracle, in plain Python (compared with the Coq specification on every case)

def is_alpha(c):
    return "A" <= c <= "Z" or "a" <= c <= "z"


def is_word(c):
    return is_alpha(c) or "0" <= c <= "9" or c == "_"


def ident(s):
    return isinstance(s, str) and len(s) > 0 and is_alpha(s[0]) and all(is_word(c) for c in s[1:])


def type_grammar(s):
    return isinstance(s, str) and all(ident(p) for p in s.split("/"))


def strip_list(t):
    return t[:-2] if t.endswith("[]") else t


def type_ok(t, whitelist):
    return isinstance(t, str) and strip_list(t) in whitelist


def dedup(xs):
    out = []
    for x in xs:
        if x not in out:
            out.append(x)
    return out


# --------------------------------------------------------------------------------------------------
# Gallina literals

def cN_str(s):
    """str -> `list N` term; long runs of one character are written with rep"""
    if not s:
        return "[]"
    parts = []
    for ch, grp in itertools.groupby(s):
        n = len(list(grp))
        if n >= 24:
            parts.append("(rep %d %d)" % (n, ord(ch)))
        else:
            lit = "; ".join([str(ord(ch))] * n)
            if parts and parts[-1].startswith("["):
                parts[-1] = parts[-1][:-1] + "; " + lit + "]"
            else:
                parts.append("[" + lit + "]")
    return parts[0] if len(parts) == 1 else "(" + " ++ ".join(parts) + ")"


def c_decl(fields):
    return "[" + "; ".join("(%s, %s)" % (cN_str(t), cN_str(n)) for t, n in fields) + "]"


def c_ascii_string(s):
    assert all(c == "\n" or 32 <= ord(c) < 127 for c in s)
    return '"' + s.replace('"', '""') + '"'


HEADER = """From Coq Require Import List Bool NArith String.
Import ListNotations.
From FR Require Import Regex Names Gen_names.
Open Scope N_scope.
Open Scope list_scope.
Definition rep (n c : N) : str := N.iter n (cons c) [].
Fixpoint strs_eqb (a b : list str) : bool :=
  match a, b with
  | [], [] => true
  | x :: a', y :: b' => str_eqb x y && strs_eqb a' b'
  | _, _ => false
  end.
(* one delivered definition: did the implementation reach exec; the plain-Python oracle's three verdicts *)
Definition cv (name : str) (d : decl) (reached g_name g_fields g_types : bool) : bool :=
  implb reached (validators_pass facts name d)
  && Bool.eqb (type_name_grammar name) g_name
  && Bool.eqb (forallb ident_no_underscore (map snd d)) g_fields
  && Bool.eqb (forallb (whitelisted_opt_list (nf_whitelist facts)) (map fst d)) g_types.
(* the other direction (a stricter implementation is allowed by the property; reported as a note only) *)
Definition cvc (name : str) (d : decl) (reached : bool) : bool := implb (validators_pass facts name d) reached.
(* an accepted definition: slots and the exact text handed to exec *)
Definition cs (name : str) (d : decl) (impl_slots : list str) (src : string) : bool :=
  strs_eqb (slots facts d) impl_slots && str_eqb (render_text facts name d) (s2n src)
  && forallb frag_clean (render facts name d).
Definition csl (name : str) (d : decl) (impl_slots : list str) : bool := strs_eqb (slots facts d) impl_slots.
(* fieldtype(p): resolved class path *)
Definition cf (p : str) (resolved : option str) : bool :=
  match fieldtype facts p, resolved with
  | Some a, Some b => str_eqb a b
  | None, None => true
  | _, _ => false
  end.
Fixpoint strings_upto (n : nat) (alpha : list N) : list str :=
  match n with
  | O => [[]]
  | S k => [] :: flat_map (fun c => map (cons c) (strings_upto k alpha)) alpha
  end.
Definition exh (n : nat) (f : str -> bool) (alpha : list N) (expected : list str) : bool :=
  strs_eqb (filter f (strings_upto n alpha)) expected.
"""


# --------------------------------------------------------------------------------------------------
# the implementation under observation

class Impl:
    """flow.record with `exec` and `importlib` of flow.record.base shadowed by recording wrappers (module namespace
    only; removed by close())."""

    def __init__(self):
        warnings.simplefilter("ignore")
        import flow.record.base as base
        import flow.record.jsonpacker as jp
        import flow.record.packer as pk
        self.base, self.pk, self.jp = base, pk, jp
        self.exec_log = []
        self.import_log = []
        self._real_importlib = getattr(base, "importlib", None)
        impl = self

        def spy_exec(code, *a, **k):
            impl.exec_log.append(code)
            return builtins.exec(code, *a, **k)

        class SpyImportlib:
            def __getattr__(self, name):
                return getattr(impl._real_importlib, name)

            def import_module(self, name, *a, **k):
                impl.import_log.append(name)
                return impl._real_importlib.import_module(name, *a, **k)

        base.exec = spy_exec
        if self._real_importlib is not None:
            base.importlib = SpyImportlib()
        import flow.record.whitelist as wlmod
        self.whitelist = list(wlmod.WHITELIST)      # the configuration the property is relative to (not base's alias)
        self.reserved = list(base.RESERVED_FIELDS.keys())
        self.allowed_modules = {"flow.record.fieldtypes"} | {
            "flow.record.fieldtypes." + w.rpartition(".")[0] for w in self.whitelist if "." in w}

    def close(self):
        try:
            del self.base.exec
        except AttributeError:
            pass
        if self._real_importlib is not None:
            self.base.importlib = self._real_importlib

    def clear_cache(self):
        cc = getattr(self.base._generate_record_class, "cache_clear", None)
        if cc:
            cc()

    def deliver(self, route, name, fields):
        """hand a definition to the implementation -> dict(accepted, desc|error, reached_exec, sources, imports)"""
        import msgpack
        self.clear_cache()
        self.exec_log = []
        self.import_log = []
        out = dict(route=route)
        if route.endswith("-text"):
            # the deprecated string-only form: `name` is the whole definition text, no field list is given
            fields = None
            route = route[:-len("-text")]
            out["route"] = route + "-text"
        if route.endswith("-bytes"):
            # the case is written with one code point (< 256) per byte; deliver real byte strings
            name = name.encode("latin-1")
            fields = [(t.encode("latin-1"), n.encode("latin-1")) for t, n in fields]
            route = route[:-len("-bytes")]
            out["route"] = route + "-bytes"
        try:
            if route == "ctor":
                d = self.base.RecordDescriptor(name, fields)
            elif route == "frame":
                frame = self.pk.packb(msgpack.ExtType(0x0E, self.pk.packb((2, (name, fields)))))
                d = self.pk.RecordPacker().unpack(frame)
            elif route == "json":
                line = json.dumps({"_type": "recorddescriptor", "_data": [name, fields]})
                d = self.jp.JsonRecordPacker().unpack(line)
            elif route == "avro-doc":
                from flow.record.adapter.avro import schema_to_descriptor
                d = schema_to_descriptor({"type": "record", "name": "x", "doc": json.dumps([name, fields]), "fields": []})
            elif route == "dynamic":
                # DynamicDescriptor(name, field names): every field has type "dynamic"
                assert all(t == "dynamic" for t, _ in fields)
                d = self.base.DynamicDescriptor(name, [n for _, n in fields])
            elif route == "avro-schema":
                from flow.record.adapter.avro import schema_to_descriptor
                d = schema_to_descriptor(name)      # `name` is the schema dict here
            else:
                raise AssertionError(route)
            if not isinstance(d, self.base.RecordDescriptor):
                out.update(accepted=False, error="NotADescriptor(%s)" % type(d).__name__, message=repr(d)[:80], is_exception=False)
            else:
                out.update(accepted=True, desc=d)
        except Exception as e:  # noqa: BLE001 -- "rejected with an error"
            out.update(accepted=False, error=type(e).__name__, message=str(e)[:120], is_exception=True)
        except BaseException as e:  # noqa: BLE001 -- SystemExit / KeyboardInterrupt raised by injected code
            out.update(accepted=False, error=type(e).__name__, message=str(e)[:120], is_exception=False)
        out["sources"] = list(self.exec_log)
        out["reached_exec"] = bool(self.exec_log)
        out["imports"] = list(self.import_log)
        return out


# --------------------------------------------------------------------------------------------------
# structural comparison of the exec'd source with the source of a benign twin definition

def _leaves(node):
    """(structure, leaves): the AST with every identifier / string constant pulled out as a leaf"""
    struct = []
    leaves = []

    def walk(n):
        if isinstance(n, ast.AST):
            struct.append(type(n).__name__)
            for fname, val in ast.iter_fields(n):
                if fname in ("lineno", "col_offset", "end_lineno", "end_col_offset", "type_comment", "kind", "ctx"):
                    continue
                isleaf = (fname in ("id", "arg", "attr", "name") and isinstance(val, str)) or \
                         (isinstance(n, ast.Constant) and fname == "value" and isinstance(val, str))
                if isleaf:
                    struct.append("<leaf>")
                    leaves.append(val)
                else:
                    struct.append(fname)
                    walk(val)
        elif isinstance(n, list):
            struct.append("[%d" % len(n))
            for x in n:
                walk(x)
        else:
            struct.append(repr(n))
    walk(node)
    return struct, leaves


def twin_of(name, fields, kwset):
    """a benign definition with the same shape: same number of fields, same duplicate pattern, same types, and the
    keyword `class` where the original has its first keyword (that selects the same code path); the other
    placeholders cannot collide with identifiers of the template"""
    mapping = {}
    back = {}
    tfields = []
    kw_used = False
    for t, n in fields:
        if n not in back:
            if n in kwset and not kw_used:
                ph, kw_used = "class", True
            else:
                ph = "zqf%dx" % len(back)
            back[n] = ph
            mapping[ph] = n
        tfields.append((t, back[n]))
    return "zqtwin/zqname", tfields, mapping


def check_source(src, name, fields, twin_src, mapping):
    """-> None or a description of how the source deviates from 'template text + identifiers'"""
    try:
        a = ast.parse(src)
        b = ast.parse(twin_src)
    except SyntaxError as e:
        return "source does not parse: %s" % e
    sa, la = _leaves(a)
    sb, lb = _leaves(b)
    if sa != sb:
        return "the syntax tree of the generated source differs from that of a benign definition of the same shape"
    sanit = name.replace("/", "_")
    for x, y in zip(la, lb):
        if y == "zqtwin_zqname":
            want = sanit
        elif y in mapping:
            want = mapping[y]
        elif y.startswith("_field_") and y[len("_field_"):] in mapping:
            want = "_field_" + mapping[y[len("_field_"):]]
        else:
            want = y                       # an identifier / string of the template itself
        if x != want:
            return "identifier %r where %r is expected" % (x, want)
    return None


# --------------------------------------------------------------------------------------------------
# case generation

SYMBOLS = ["a", "Z", "0", "_", "/", "\n", "\r", "\x00", "'", '"', "(", ")", ";", " ", "\t", ":", "=", ",", ".", "-", "[",
           "]", "\\", "#", "{", "}", "\uff41", "\u00e9", "\u00aa", "\U0001d41a", "\u2028", "\x85", "\x1c", "\udcff",
           "\u0430", "$", "*", "\x7f", "\u200b", "\ufeff"]


def _ascii_alnum(txt):
    return bool(txt) and all(c.isascii() and c.isalnum() for c in txt)


def unicode_lookalikes():
    """non-ASCII characters of the BMP that software tends to mistake for ASCII letters / digits:
    fold  -- lower() / upper() / casefold() (combining marks dropped) is ASCII alphanumeric: what re.IGNORECASE in Unicode
             mode matches against [a-z] (U+0130, U+0131, U+017F, U+212A) and the multi-letter foldings;
    nfkc  -- NFKC-normalises to ASCII alphanumerics (fullwidth, circled, super/subscript, letterlike ...: Python's identifier
             normalisation);
    digit -- str.isdigit();  comb -- combining marks"""
    import unicodedata
    fold, nfkc, digit, comb = [], [], [], []
    for cp in range(128, 0x10000):
        if 0xD800 <= cp <= 0xDFFF:
            continue
        c = chr(cp)
        for f in (c.lower(), c.upper(), c.casefold()):
            f = "".join(x for x in f if not unicodedata.category(x).startswith("M"))
            if _ascii_alnum(f):
                fold.append(c)
                break
        if _ascii_alnum(unicodedata.normalize("NFKC", c)):
            nfkc.append(c)
        if c.isdigit():
            digit.append(c)
        if unicodedata.category(c) in ("Mn", "Mc", "Me"):
            comb.append(c)
    for c in ("\u0131", "\u0130", "\u017f", "\u212a"):
        if c not in fold:
            fold.append(c)
    return dict(fold=fold, nfkc=nfkc, digit=digit, comb=comb)


LOOKALIKE_SAMPLE = ["\uff3a", "\uff10", "\U0001d7ce", "\U0001d4ea", "\u0301", "\u0308", "\u20dd", "\u0663", "\u0969", "\u07c3",
                    "\u0e53", "\u00b2", "\u2460", "\u2167", "\u00ba", "\u00b5", "\u2102", "\u24d0", "\u2113", "\u041a", "\u03bf",
                    "\u1d2c", "\u2090", "\uff3f", "\u203f", "\u00b7", "\u0387"]


def trip_payloads(trip):
    # the path is spelled in hex so that neither "/" -> "_" nor quoting can defuse the payload
    call = "open(bytes.fromhex('%s').decode(),'w')" % trip.encode().hex()
    return dict(
        type_name=[
            "x(Record):\n    pass\n%s\nclass y" % call,
            "x:\n    pass\n%s\nclass y" % call,
            "a/b(%s)" % call,
            "a\n%s\nclass b" % call,
            "a;%s" % call,
            "a/b\n%s" % call,
        ],
        field_name=[
            "a=%s,b" % call,
            "a=[%s],b" % call,
            "a):\n        pass\n    %s\n    def f(b" % call,
            "a\n%s\n" % call,
            "a;%s" % call,
            "a', %s, 'b" % call,
            "a=None,*,b=%s" % call,
            "a if %s else a" % call,
            "x\n        %s\n" % call,
            "a.b",
            "a b",
            "__class__",
            "__%s__" % "import",
        ],
        field_type=[
            "os.system", "string;%s" % call, "net.ipv4.Address.__class__", "string[][]", " string", "string ", "string\n",
            "String", "net", "net.ipv4", "__builtins__", "typedlist", "FieldType", "fieldtypes.string", "..string",
            "net..ipaddress", "[]", "", "builtins.eval", "net.ip.ipaddress", "string.__class__", "net.ipaddress[][]",
            "flow.record.fieldtypes.string", "string[", "string]", "[]string", "strinｇ", "subprocess.Popen",
        ],
    )


def whitelist_prefixes(whitelist):
    """namespace prefixes of the whitelist tree: every proper prefix of every dotted entry, scalar and list form, and
    near misses around the dots -- none of them is a whitelist entry"""
    out = []
    for w in whitelist:
        parts = w.split(".")
        for k in range(1, len(parts)):
            out.append(".".join(parts[:k]))
    out = dedup(out)
    extra = ["net.ipv4.Address.x", "net.", ".net", "net..ipaddress", "net.ipv4.", "net.ipv4..Address", "net.ip", "net.ipv4.Address.",
             ".", "..", "net.ipv4.address", "net.tcp.port"]
    cands = out + extra
    cands = cands + [c + "[]" for c in cands] + [c + "[][]" for c in out]
    return [c for c in dedup(cands) if strip_list(c) not in whitelist]


def gen_valid_ident(rnd, maxlen=8):
    n = rnd.randint(1, maxlen)
    s = rnd.choice("abcxyzABZ")
    return s + "".join(rnd.choice("abzAZ09_") for _ in range(n - 1))


def gen_valid_typename(rnd):
    return "/".join(gen_valid_ident(rnd, 6) for _ in range(rnd.randint(1, 3)))


def mutate(rnd, s, sym, where):
    if where == "prefix":
        return sym + s
    if where == "suffix":
        return s + sym
    k = max(1, len(s) // 2)
    return s[:k] + sym + s[k:]


class Gen:
    def __init__(self, ctx, impl, trip):
        self.ctx = ctx
        self.rnd = random.Random(ctx.seed)
        self.impl = impl
        self.trip = trip
        self.n = 0

    def fresh(self):
        self.n += 1
        return "c%dq" % self.n

    def types(self):
        wl = self.impl.whitelist
        t = self.rnd.choice(wl)
        return t + ("[]" if self.rnd.random() < 0.25 else "")

    def cases(self, thorough):
        """yield (route, name, fields, tag)"""
        rnd = self.rnd
        pay = trip_payloads(self.trip)
        # 0. namespace prefixes of the whitelist tree and their list forms, FIRST (before this run constructs any honest
        #    descriptor below such a prefix) and again right after an honest descriptor for every type below the prefix:
        #    what importlib has loaded so far must not matter
        wl = self.impl.whitelist
        pfxs = dedup([".".join(w.split(".")[:k]) for w in wl for k in range(1, len(w.split(".")))])
        forms = [f for p_ in pfxs for f in (p_, p_ + "[]") if strip_list(f) not in wl]
        for f in forms:
            for route in ROUTES:
                yield route, "t/" + self.fresh(), [(f, "f")], "whitelist-prefix-before-load"
        for p_ in pfxs:
            below = [w for w in wl if w.startswith(p_ + ".")]
            yield "ctor", "t/" + self.fresh(), [(w, "h%d" % i) for i, w in enumerate(below)], "honest-below-prefix"
            for f in (p_, p_ + "[]"):
                if strip_list(f) in wl:
                    continue
                for route in ROUTES:
                    yield route, "t/" + self.fresh(), [(f, "f")], "whitelist-prefix-after-load"
                    yield route, "t/" + self.fresh(), [(below[0], "a"), (f, "f"), ("string", "class")], "whitelist-prefix-after-load-kw"
        # 1. every hostile symbol x position x place, every route
        for sym in SYMBOLS:
            for where in ("prefix", "middle", "suffix"):
                for route in ROUTES:
                    yield route, mutate(rnd, "seg/" + self.fresh(), sym, where), [("string", "f")], "sym-type-name"
                    yield route, "t/" + self.fresh(), [("string", mutate(rnd, "fld", sym, where))], "sym-field-name"
                    yield route, "t/" + self.fresh(), [("varint", "ok"), (mutate(rnd, "string", sym, where), "f")], "sym-field-type"
        # 1b. characters that case-fold to ASCII letters (what IGNORECASE would let through), at EVERY position of a field
        #     name and of a type name, every route; a sample of other look-alikes likewise
        ul = unicode_lookalikes()
        for ch in ul["fold"] + LOOKALIKE_SAMPLE:
            for route in ROUTES:
                host = "fild"
                for pos in range(len(host) + 1):
                    yield route, "t/" + self.fresh(), [("string", host[:pos] + ch + host[pos:])], "casefold-field-name"
                host = "tst/tye"
                for pos in range(len(host) + 1):
                    yield route, host[:pos] + ch + host[pos:], [("string", "f")], "casefold-type-name"
            yield "ctor", "t/" + self.fresh(), [("string", "f" + ch + "le")], "casefold-field-name-replaced"
            yield "frame", "test/ty" + ch + "e", [("string", "f")], "casefold-type-name-replaced"
        if thorough:
            full = dedup(ul["nfkc"] + ul["digit"] + ul["comb"][::7])
            for ch in full:
                for route in ROUTES:
                    yield route, "t/" + self.fresh(), [("string", "fi" + ch + "ld")], "lookalike-field-name"
                    yield route, "t/" + self.fresh(), [("string", "fild" + ch)], "lookalike-field-name"
                    yield route, "tst/ty" + ch + "e", [("string", "f")], "lookalike-type-name"
                    yield route, "tst/tye" + ch, [("string", "f")], "lookalike-type-name"
                yield "ctor", "t/" + self.fresh(), [("string", ch + "fild")], "lookalike-field-name"
                yield "json", ch + "tst", [("string", "f")], "lookalike-type-name"
        # 1c. DynamicDescriptor(name, field names): one more way a definition is given through the API
        yield "dynamic", "dyn/" + self.fresh(), [("dynamic", "a"), ("dynamic", "b9"), ("dynamic", "x_y")], "dynamic-valid"
        yield "dynamic", "dyn/" + self.fresh(), [], "dynamic-valid-no-fields"
        yield "dynamic", "dyn/" + self.fresh(), [("dynamic", "a"), ("dynamic", "from")], "dynamic-valid-keyword"
        yield "dynamic", "dyn/" + self.fresh(), [("dynamic", "a"), ("dynamic", "a")], "dynamic-duplicate"
        yield "dynamic", "", [("dynamic", "a")], "dynamic-empty-type-name"
        for sym in SYMBOLS + ul["fold"] + LOOKALIKE_SAMPLE:
            for where in ("prefix", "middle", "suffix"):
                yield "dynamic", mutate(rnd, "dyn/" + self.fresh(), sym, where), [("dynamic", "f")], "dynamic-sym-type-name"
                yield "dynamic", "dyn/" + self.fresh(), [("dynamic", "ok"), ("dynamic", mutate(rnd, "fld", sym, where))], "dynamic-sym-field-name"
        for p in pay["type_name"]:
            yield "dynamic", p, [("dynamic", "f")], "dynamic-payload-type-name"
        for p in pay["field_name"]:
            yield "dynamic", "dyn/" + self.fresh(), [("dynamic", p)], "dynamic-payload-field-name"
            yield "dynamic", "dyn/" + self.fresh(), [("dynamic", "class"), ("dynamic", p)], "dynamic-payload-field-name-kw"
        for w in self.impl.reserved + ["_x", "__", "a\n", "", "1a"]:
            for k in range(3):
                fs = [("dynamic", "g0"), ("dynamic", "from"), ("dynamic", "g2")]
                fs[k] = ("dynamic", w)
                yield "dynamic", "dyn/" + self.fresh(), fs, "dynamic-invalid-at-position"
        for kw in keyword.kwlist:
            yield "dynamic", "dyn/" + self.fresh(), [("dynamic", kw)], "dynamic-keyword-field-name"
        for _ in range(1500 if thorough else 150):
            nm = gen_valid_typename(rnd) + "/" + self.fresh()
            if rnd.random() < 0.15:
                nm = mutate(rnd, nm, rnd.choice(SYMBOLS), rnd.choice(("prefix", "middle", "suffix")))
            fs = []
            for _i in range(rnd.randint(0, 5)):
                fn = gen_valid_ident(rnd)
                r = rnd.random()
                if r < 0.1:
                    fn = mutate(rnd, fn, rnd.choice(SYMBOLS), rnd.choice(("prefix", "middle", "suffix")))
                elif r < 0.15:
                    fn = rnd.choice(keyword.kwlist)
                elif r < 0.2:
                    fn = rnd.choice(self.impl.reserved + ["_x"])
                fs.append(("dynamic", fn))
            yield "dynamic", nm, fs, "dynamic-random"
        # 2. crafted payloads (would create the tripwire file if executed)
        for route in ROUTES:
            for p in pay["type_name"]:
                yield route, p, [("string", "f")], "payload-type-name"
            for p in pay["field_name"]:
                yield route, "t/" + self.fresh(), [("string", p)], "payload-field-name"
                yield route, "t/" + self.fresh(), [("string", "a"), ("string", p), ("string", "class")], "payload-field-name-kw"
            for p in pay["field_type"]:
                yield route, "t/" + self.fresh(), [(p, "f")], "payload-field-type"
        # 3. the trailing-newline residual: passes the validators, must be refused by compile -- every position
        for route in ROUTES:
            for nm in ("a\n", "a/b\n", "a/b/c9_\n", "Z\n"):
                yield route, nm, [("string", "f")], "residual-type-name"
                yield route, nm, [], "residual-type-name"
            for k in range(3):
                fs = [("string", "f%d" % i) for i in range(3)]
                fs[k] = ("string", "f%d\n" % k)
                yield route, "t/" + self.fresh(), fs, "residual-field-name"
                fs2 = list(fs) + [("string", "class")]
                yield route, "t/" + self.fresh(), fs2, "residual-field-name-kw"
            yield route, "a\n", [("string", "f\n")], "residual-both"
            for nm in ("a\n\n", "a\r\n", "\na", "a\n/b", "a/\nb"):
                yield route, nm, [("string", "f")], "newline-type-name"
                yield route, "t/" + self.fresh(), [("string", nm.replace("/", "_"))], "newline-field-name"
        # 4. keywords (field names: allowed by design; type names: refused by compile), soft keywords, template names
        kws = list(keyword.kwlist)
        for i, kw in enumerate(kws):
            route = ROUTES[i % len(ROUTES)]
            yield route, "t/" + self.fresh(), [("string", kw)], "keyword-field-name"
            yield route, kw, [("string", "f")], "keyword-type-name"
            yield "ctor", "seg/" + kw, [("string", "f")], "keyword-type-segment"
        for w in list(getattr(keyword, "softkwlist", [])) + ["Record", "RECORD_VERSION", "self", "args", "kwargs", "k", "v", "f",
                                                             "values", "dict", "setattr", "print", "x_utcnow", "type", "default"]:
            yield "ctor", "t/" + self.fresh(), [("string", w)], "template-name-field"
            yield "frame", "t/" + self.fresh(), [("string", w), ("string", "class")], "template-name-field-kw"
            yield "ctor", w, [("string", "f")], "template-name-type"
        for w in self.impl.reserved + ["_x", "__self", "__cls", "_utcnow", "_zip_longest", "_field_a", "_", "__", "_1"]:
            for route in ROUTES:
                yield route, "t/" + self.fresh(), [("string", w)], "underscore-field-name"
            yield "ctor", w, [("string", "f")], "underscore-type-name"
        # 5. every whitelist entry, plain and list form, and near misses
        for w in self.impl.whitelist:
            yield "ctor", "t/" + self.fresh(), [(w, "f")], "whitelist"
            yield "json", "t/" + self.fresh(), [(w + "[]", "f")], "whitelist-list"
            yield "frame", "t/" + self.fresh(), [(w + "[][]", "f")], "whitelist-list-list"
            yield "ctor", "t/" + self.fresh(), [(w.upper() if w.upper() != w else w.lower(), "f")], "whitelist-case"
            yield "ctor", "t/" + self.fresh(), [(w[:-1], "f")], "whitelist-prefix"
        # 4b. the validity decision is per field, for ALL fields: a keyword-named field next to an invalid / reserved /
        #     underscore name, at every position, every route
        bad_names = self.impl.reserved + ["_x", "__", "a-b", "a b", "\u00e9", "1a", "", "x\n", "a.b"]
        for kw in ("from", "class", "is", "None", "import"):
            for bad in bad_names:
                for n in (2, 3):
                    for i in range(n):
                        for j in range(n):
                            if i == j:
                                continue
                            fs = [("string", "g%d" % q) for q in range(n)]
                            fs[i] = ("string", kw)
                            fs[j] = ("varint", bad)
                            for route in ROUTES:
                                yield route, "t/" + self.fresh(), fs, "keyword-next-to-invalid"
        # 4c. EXHAUSTIVE: every list of at most 3 field names over {valid, keyword, reserved, underscore, invalid,
        #     trailing newline}: accepted only if every single name is valid
        name_alpha = ["a", "from", "_generated", "_x", "a-b", "b\n"]
        for n in (1, 2, 3):
            for combo in itertools.product(name_alpha, repeat=n):
                fs = [("string", x) for x in combo]
                for route in ROUTES:
                    yield route, "t/" + self.fresh(), fs, "exhaustive-field-lists"
        # 4d. names delivered as BYTES (constructor arguments, msgpack bin values of a descriptor frame) with invalid /
        #     truncated / overlong / non-ASCII UTF-8 at every position (written one code point per byte)
        bseqs = ["\xff", "\xfe", "\x80", "\xc3", "\xc3\xa9", "\xe2\x82", "\xed\xa0\x80", "\xc0\xaf", "\xf0\x9f\x98", "\xf8"]
        for route in ("ctor-bytes", "frame-bytes"):
            yield route, "evil/" + self.fresh(), [("string", "payload"), ("net.ipaddress[]", "from")], "bytes-valid"
            yield route, "evil\xff/\xfetype", [("string", "payload")], "bytes-invalid-utf8"
            yield route, "t/" + self.fresh(), [("str\xffing", "pay\xffload"), ("net.ip\xffaddress", "b")], "bytes-invalid-utf8"
            for q in bseqs:
                host = "evil/type"
                for pos in range(len(host) + 1):
                    yield route, host[:pos] + q + host[pos:], [("string", "payload")], "bytes-invalid-utf8-type-name"
                host = "payload"
                for pos in range(len(host) + 1):
                    yield route, "t/" + self.fresh(), [("varint", "a"), ("string", host[:pos] + q + host[pos:])], "bytes-invalid-utf8-field-name"
                host = "string"
                for pos in range(len(host) + 1):
                    yield route, "t/" + self.fresh(), [(host[:pos] + q + host[pos:], "f")], "bytes-invalid-utf8-field-type"
            for q in bseqs[:3]:
                host = "net.ipaddress[]"
                for pos in range(len(host) + 1):
                    yield route, "t/" + self.fresh(), [(host[:pos] + q + host[pos:], "f")], "bytes-invalid-utf8-field-type"
        # 5b. namespace prefixes of the whitelist tree (after every whitelisted module has been imported above)
        for pfx in whitelist_prefixes(self.impl.whitelist):
            for route in ROUTES:
                yield route, "t/" + self.fresh(), [(pfx, "f")], "whitelist-prefix-namespace"
                yield route, "t/" + self.fresh(), [("string", "a"), (pfx, "f"), ("varint", "class")], "whitelist-prefix-namespace-kw"
        # 6. duplicates, empty, long
        for route in ROUTES:
            yield route, "t/" + self.fresh(), [("string", "a"), ("varint", "a")], "duplicate-field"
            yield route, "t/" + self.fresh(), [("string", "a"), ("varint", "b"), ("string", "a"), ("string", "b")], "duplicate-field"
            yield route, "t/" + self.fresh(), [("string", "class"), ("varint", "class")], "duplicate-field-kw"
            yield route, "t/" + self.fresh(), [], "no-fields"
            yield route, "", [("string", "f")], "empty-type-name"
            yield route, "t/" + self.fresh(), [("string", "")], "empty-field-name"
            yield route, "/", [("string", "f")], "slash-only"
            yield route, "a//b", [("string", "f")], "empty-segment"
        n_long = 10 ** 4
        for route in ROUTES:
            yield route, "L" * n_long, [("string", "f")], "long-type-name"
            yield route, "/".join(["seg" + "a" * 100] * 99), [("string", "f")], "long-type-name-segments"
            yield route, "L" * n_long + "\n", [("string", "f")], "long-type-name-residual"
            yield route, "L" * n_long + ";", [("string", "f")], "long-type-name-bad"
            yield route, "t/" + self.fresh(), [("string", "m" * n_long)], "long-field-name"
            yield route, "t/" + self.fresh(), [("string", "m" * n_long + "-")], "long-field-name-bad"
            yield route, "t/" + self.fresh(), [("s" * n_long, "f")], "long-field-type"
        yield "ctor", "t/" + self.fresh(), [("string", "w%d" % i) for i in range(300)], "many-fields"
        yield "frame", "t/" + self.fresh(), [("string", "w%d" % i) for i in range(300)] + [("string", "w7\n")], "many-fields-residual"
        # 7. random: mostly valid definitions with a few hostile edits
        n_rand = 6000 if thorough else 500
        for _ in range(n_rand):
            route = rnd.choice(ROUTES)
            name = gen_valid_typename(rnd) if rnd.random() < 0.8 else mutate(rnd, gen_valid_typename(rnd), rnd.choice(SYMBOLS), rnd.choice(("prefix", "middle", "suffix")))
            fields = []
            for _i in range(rnd.randint(0 if route != "avro-doc" else 1, 5)):
                fn = gen_valid_ident(rnd)
                ft = self.types()
                r = rnd.random()
                if r < 0.08:
                    fn = mutate(rnd, fn, rnd.choice(SYMBOLS), rnd.choice(("prefix", "middle", "suffix")))
                elif r < 0.12:
                    ft = mutate(rnd, ft, rnd.choice(SYMBOLS), rnd.choice(("prefix", "middle", "suffix")))
                elif r < 0.16:
                    fn = rnd.choice(kws)
                elif r < 0.2 and fields:
                    fn = rnd.choice(fields)[1]
                elif r < 0.24:
                    fn = rnd.choice(self.impl.reserved + ["_x", "_"])
                fields.append((ft, fn))
            yield route, name + ("" if rnd.random() < 0.5 else "/" + self.fresh()), fields, "random"


STRUCT_CASES = [
    # (name, fields): values that are not str / list of str pairs -- only "raises an Exception, or yields a
    # descriptor that satisfies the grammar" is demanded
    (5, [["string", "a"]]), (None, [["string", "a"]]), (True, [["string", "a"]]), (["a"], [["string", "a"]]),
    ({"a": 1}, [["string", "a"]]), (1.5, []), ("t/s1", "abc"), ("t/s2", [["string"]]), ("t/s3", [["string", "a", "b"]]),
    ("t/s4", [[None, "a"]]), ("t/s5", [["string", None]]), ("t/s6", [["string", 5]]), ("t/s7", [[5, "a"]]),
    ("t/s8", [[["string"], "a"]]), ("t/s9", {"string": "a"}), ("t/s10", [["string", ["a"]]]), ("t/s11", 7),
    ("t/s12", [["string", True]]), ("t/s13", [["string", {"x": 1}]]), ("t/s14", None),
    ("t/s15\n    string x", None), ("x;import os\n    string a", None),
]


def abstract(s):
    """class-abstracted spelling used for the distinct count"""
    if not isinstance(s, str):
        return "<%s>" % type(s).__name__
    out = []
    for c in s:
        k = "a" if is_alpha(c) else "0" if "0" <= c <= "9" else c
        if out and out[-1][0] == k:
            out[-1][1] += 1
        else:
            out.append([k, 1])
    return "".join(k + (str(min(n, 9)) if n > 1 else "") for k, n in out)


# --------------------------------------------------------------------------------------------------
# evaluation of one case against the property

def judge(impl, route, name, fields, res, twin_cache, kf):
    """-> (violation text or None, known-finding (id, what) or None, info dict)"""
    wl = impl.whitelist
    g_name = type_grammar(name)
    g_fields = all(ident(n) for _, n in fields)
    g_types = all(type_ok(t, wl) for t, _ in fields)
    info = dict(g_name=g_name, g_fields=g_fields, g_types=g_types)
    if not res["accepted"]:
        if not res.get("is_exception", True):
            return "the definition was not rejected with an error but ended in %s" % res["error"], None, info
        if res["reached_exec"] and not (g_name and g_fields and g_types):
            return ("a definition outside the grammar passed the validators and its text was handed to exec (refused only by "
                    "the compiler: %s)" % res["error"]), None, info
        # a name of the grammar plus one trailing newline (what "$" used to let through) is refused by the validators
        def nl(x, pred):
            return isinstance(x, str) and x.endswith("\n") and pred(x[:-1])
        names_ok_or_nl = (g_name or nl(name, type_grammar)) and all(ident(n) or nl(n, ident) for _, n in fields)
        has_nl = nl(name, type_grammar) or any(nl(n, ident) for _, n in fields)
        if has_nl and names_ok_or_nl and g_types:
            info["trailing_newline"] = True
            if res["error"] != "RecordDescriptorError":
                return "a name with one trailing newline was refused with %s instead of RecordDescriptorError" % res["error"], None, info
        return None, None, info
    d = res["desc"]
    # accepted: only if grammar
    if not (g_name and g_fields and g_types):
        what = ("type name" if not g_name else "field name" if not g_fields else "field type")
        return "a definition with an invalid %s was accepted" % what, None, info
    declared = [n for _, n in fields]
    slots = list(d.recordType.__slots__)
    info["slots"] = slots
    want = dedup(declared) + impl.reserved
    finding = None
    if slots != want:
        return "slots of the accepted record are %r, expected %r" % (slots[:8], want[:8]), None, info
    if slots != declared + impl.reserved:
        f = match_known(kf, dict(kind="slots", cls="duplicate-field-name"))
        if f is None:
            return "a field name declared twice was accepted: slots %r are not the declared fields %r + reserved" % (
                slots[:8], declared[:8]), None, info
        finding = (f["id"], f["what"])
    if d.name != name or [tuple(x) for x in d.get_field_tuples()] != [tuple(x) for x in fields]:
        return "the accepted descriptor does not carry the definition it was given", None, info
    # resolved field types
    for f in d.get_all_fields().values():
        t = f.type
        inner = getattr(t, "__type__", None)
        for cls in (t, inner):
            if cls is None:
                continue
            if not (isinstance(cls, type) and issubclass(cls, impl.base.FieldType) and cls.__module__.startswith("flow.record.fieldtypes")):
                return "field type %r resolved to %r outside flow.record.fieldtypes" % (f.typename, cls), None, info
    # exec'd source: same syntax tree as a benign definition of the same shape, identifiers in the expected places
    if len(res["sources"]) != 1:
        return "%d sources were handed to exec for one definition" % len(res["sources"]), None, info
    kwset = set(keyword.kwlist)
    tname, tfields, mapping = twin_of(name, fields, kwset)
    key = (tuple(tfields))
    if key not in twin_cache:
        tr = impl.deliver("ctor", tname, tfields)
        twin_cache[key] = tr["sources"][0] if tr["accepted"] and len(tr["sources"]) == 1 else None
    if twin_cache[key] is None:
        return None, finding, dict(info, twin_failed=True)
    dev = check_source(res["sources"][0], name, fields, twin_cache[key], mapping)
    if dev:
        return "text of the definition changed the structure of the code handed to exec: " + dev, None, info
    info["structure_checked"] = True
    return None, finding, info


def match_known(kf, case):
    for f in kf:
        m = f.get("match", {})
        if all(case.get(k) == v for k, v in m.items()):
            return f
    return None


def evaluate(impl, route, name, fields, twin_cache, kf, trip):
    """deliver one definition and judge it against the property -> (violation text | None, finding | None, info, res)"""
    fields = [tuple(x) for x in fields]
    res = impl.deliver(route, name, [list(x) for x in fields] if route != "ctor" else fields)
    bad_import = [m for m in res["imports"] if m not in impl.allowed_modules]
    viol, finding, info = judge(impl, route, name, fields, res, twin_cache, kf)
    if bad_import and not viol:
        viol = "a module outside the field-type whitelist was imported: %r" % bad_import[:3]
    if os.path.exists(trip):
        os.unlink(trip)
        viol = "text of the definition was executed (tripwire file created)"
    return viol, finding, info, res


def run_cases(ctx, impl, kf, trip, thorough):
    """deliver every generated case; -> (records, first violation (what, replay) or None)"""
    gen = Gen(ctx, impl, trip)
    twin_cache = {}
    recs = []
    first = None
    nviol = 0
    for route, name, fields, tag in gen.cases(thorough):
        if route == "avro-doc" and not fields:
            route = "json"          # the embedded-definition detection of the Avro reader needs at least one field
        fields = [tuple(x) for x in fields]
        viol, finding, info, res = evaluate(impl, route, name, fields, twin_cache, kf, trip)
        rec = dict(route=route, name=name, fields=fields, tag=tag, accepted=res["accepted"], reached=res["reached_exec"],
                   error=res.get("error"), src=res["sources"][0] if res["accepted"] and len(res["sources"]) == 1 else None,
                   **info)
        recs.append(rec)
        ctx.count_case((route, abstract(name), tuple((abstract(t), abstract(n)) for t, n in fields)))
        if finding:
            ctx.known_finding(*finding)
        if viol:
            nviol += 1
            if first is None:
                first = ("%s (route %s, type name %r, fields %r -> %s)" % (
                    viol, route, name[:80], [(t[:40], n[:60]) for t, n in fields][:6],
                    "accepted" if res["accepted"] else res.get("error")),
                    dict(kind="definition", route=route, name=name, fields=[list(x) for x in fields], tag=tag, trip=trip,
                         outcome="accepted" if res["accepted"] else res.get("error"), violation=viol))
    return recs, first, nviol


# --------------------------------------------------------------------------------------------------
# definitions given as TEXT (the deprecated string-only form, parsed by parse_def)

def parse_text(text):
    """Independent reading of the text format -> (type name, [(type, name)]) or None when the text is malformed.
    Lines are separated by "\n"; lines of white space only are ignored; the first remaining line, stripped, is the type
    name; every further line is `<type> <white space> <name>` optionally followed directly by semicolons."""
    lines = [ln.strip() for ln in text.split("\n")]
    lines = [ln for ln in lines if ln]
    if not lines:
        return None
    fields = []
    for ln in lines[1:]:
        body = ln.rstrip(";")
        if body != body.rstrip():
            return None
        tok = body.split()
        if len(tok) != 2:
            return None
        fields.append((tok[0], tok[1]))
    return lines[0], fields


TEXT_ROUTES = ("ctor-text", "frame-text", "json-text")


def render_text_def(rnd, name, fields, plain=False):
    """a text that parse_text reads back as (name, fields), with random layout"""
    def ws():
        return " " if plain else rnd.choice([" ", "  ", "\t", " \t ", "    "])

    def eol():
        return "\n" if plain else rnd.choice(["\n", "\n", "\r\n", " \n", "\n\n", "\n   \n", "\n\t\n\n"])
    out = ("" if plain else rnd.choice(["", "", "\n", "  ", "\n\n  "])) + name
    for t, n in fields:
        out += eol() + ("" if plain else rnd.choice(["", "    ", "\t"])) + t + ws() + n + ("" if plain else rnd.choice(["", ";", ";", ";;"]))
    out += "" if plain else rnd.choice(["", "\n", "\n\n", "  ", "\r\n"])
    return out


def text_definitions(ctx, impl, thorough):
    """yield (text, tag)"""
    rnd = random.Random(ctx.seed + 2)
    n = [0]

    def fresh():
        n[0] += 1
        return "txt/d%dq" % n[0]
    # fixed
    for body, tag in [
        ("\n string first;\n\n varint second;", "blank-line-between-fields"),
        ("\n string first;\n \n\t\n varint second;\n\n string third\n", "blank-lines"),
        ("\n\n string first;\n varint second;", "blank-line-after-name"),
        ("\n string first;\n varint second;\n\n", "trailing-blank-lines"),
        ("\r\n string first;\r\n varint second;\r\n", "crlf"),
        ("\r\n string first;\r\n\r\n varint second;", "crlf-blank"),
        ("\n\tstring\tfirst\n\tvarint    second;;", "tabs-semicolons"),
        ("\n string[] xs;\n net.ipaddress ip;\n net.ipaddress[] ips", "list-types"),
        ("", "name-only"), ("\n", "name-only-newline"), ("\n\n\n", "name-only-blank-lines"),
        ("\n string a; varint b;", "two-fields-one-line"), ("\n string a varint b", "two-fields-one-line"),
        ("\n string a ;", "space-before-semicolon"), ("\n string", "type-without-name"), ("\n ;", "semicolon-only"),
        ("\n string a; # comment", "comment"), ("\n # comment\n string a;", "comment-line"), ("\n // c\n string a;", "comment-line"),
        ("\n string a;\n string a;", "duplicate"), ("\n string from;\n varint _source;", "keyword-then-reserved"),
        ("\n string _x;", "underscore"), ("\n nosuchtype a;", "bad-type"), ("\n string[][] a;", "bad-type"), ("\n net a;", "bad-type"),
        ("\n string a\u00a0;", "nbsp"), ("\n string\u00a0a;", "nbsp-separator"), ("\n string\u2003a", "emspace-separator"),
        ("\n string\x1ca", "fs-separator"), ("\n string a\x85varint b", "nel-inside"), ("\n string a\u2028varint b", "ls-inside"),
        ("\n string a\x0bvarint b", "vt-inside"), ("\n string a\x0cvarint b", "ff-inside"), ("\n string a\rvarint b", "cr-inside"),
        ("\n string f\u0131le;", "casefold"), ("\n str\u0131ng a;", "casefold-type"), ("\n string a=1;", "payload"),
        ("\n string a):pass;", "payload"), ("\n string a;b", "semicolon-inside"), ("\n string ;a", "semicolon-inside"),
    ]:
        yield fresh() + body, "text-" + tag
    yield "\n" + fresh() + "\n string a;", "text-leading-newline"
    yield "\n\n  " + fresh() + "  \n string a;\n", "text-leading-blank-lines"
    yield "   ", "text-whitespace-only"
    yield "\n\n", "text-newlines-only"
    yield fresh() + " extra\n string a;", "text-name-with-space"
    yield "a\n/b" + "\n string a;", "text-name-split"
    for sym in SYMBOLS:
        yield fresh() + sym + "\n string a;", "text-sym-type-name"
        yield fresh() + "\n string fl" + sym + "d;", "text-sym-field-name"
        yield fresh() + "\n str" + sym + "ing fld;\n varint b;", "text-sym-field-type"
        yield fresh() + "\n string a;" + sym + "\n varint b;", "text-sym-after-semicolon"
        yield fresh() + "\n string a;\n" + sym + "\n varint b;", "text-sym-own-line"
    # every position of a blank line in a 4-field definition, every layout of the blank line
    base_fields = [("string", "fa"), ("varint", "fb"), ("string[]", "fc"), ("net.ipaddress", "fd")]
    for blank in ("", " ", "\t", "\r", " \r", ";"):
        for pos in range(len(base_fields) + 2):
            lines = [fresh()] + [" %s %s;" % f for f in base_fields]
            lines.insert(pos, blank)
            yield "\n".join(lines), "text-blank-line-at-%d" % pos
    # generated: random definitions (mostly valid, hostile edits) in random layout
    kws = list(keyword.kwlist)
    for _ in range(4000 if thorough else 400):
        fields = []
        for _i in range(rnd.randint(0, 5)):
            fn, ft = gen_valid_ident(rnd), rnd.choice(impl.whitelist) + ("[]" if rnd.random() < 0.25 else "")
            r = rnd.random()
            if r < 0.06:
                fn = mutate(rnd, fn, rnd.choice(SYMBOLS), rnd.choice(("prefix", "middle", "suffix")))
            elif r < 0.1:
                ft = mutate(rnd, ft, rnd.choice(SYMBOLS), rnd.choice(("prefix", "middle", "suffix")))
            elif r < 0.14:
                fn = rnd.choice(kws)
            elif r < 0.17:
                fn = rnd.choice(impl.reserved + ["_x"])
            elif r < 0.2 and fields:
                fn = rnd.choice(fields)[1]
            fields.append((ft, fn))
        name = gen_valid_typename(rnd) + "/" + fresh().replace("/", "_")
        if rnd.random() < 0.08:
            name = mutate(rnd, name, rnd.choice(SYMBOLS), rnd.choice(("prefix", "middle", "suffix")))
        yield render_text_def(rnd, name, fields), "text-random"


def text_cases(ctx, impl, kf, trip, thorough, recs):
    """definitions given as text through the constructor, a descriptor frame and a JSON descriptor line: an accepted one
    must carry exactly the (type, name) list an independent reading of the text gives (and satisfy everything demanded
    of the tuple form); malformed text must be refused"""
    twin_cache = {}
    k = 0
    for text, tag in text_definitions(ctx, impl, thorough):
        parsed = parse_text(text)
        for route in (TEXT_ROUTES if not tag == "text-random" else (TEXT_ROUTES[k % 3],)):
            k += 1
            if parsed is not None:
                name, fields = parsed
                viol, finding, info, res = evaluate_text(impl, route, text, name, fields, twin_cache, kf, trip)
                recs.append(dict(route=route, name=name, fields=[tuple(x) for x in fields], tag=tag, accepted=res["accepted"],
                                 reached=res["reached_exec"], error=res.get("error"),
                                 src=res["sources"][0] if res["accepted"] and len(res["sources"]) == 1 else None, **info))
                if finding:
                    ctx.known_finding(*finding)
            else:
                res = impl.deliver(route, text, None)
                viol = None
                if res["accepted"]:
                    viol = "a malformed definition text was accepted as %r %r" % (res["desc"].name, res["desc"].get_field_tuples())
                elif not res.get("is_exception", True):
                    viol = "a malformed definition text ended in %s" % res["error"]
                elif res["reached_exec"]:
                    viol = "a malformed definition text reached exec"
            ctx.count_case((route, tag, abstract(text)))
            if viol:
                return ("%s (route %s, definition text %r -> %s)" % (viol, route, text[:200], "accepted" if res["accepted"] else res.get("error")),
                        dict(kind="text-definition", route=route, text=text, tag=tag, trip=trip, violation=viol))
    return None


def evaluate_text(impl, route, text, name, fields, twin_cache, kf, trip):
    fields = [tuple(x) for x in fields]
    res = impl.deliver(route, text, None)
    bad_import = [m for m in res["imports"] if m not in impl.allowed_modules]
    viol, finding, info = judge(impl, route, name, fields, res, twin_cache, kf)
    if viol and res["accepted"] and "does not carry the definition" in viol:
        d = res["desc"]
        viol = ("the accepted record type does not have the declared fields: the text declares %r %r, the descriptor has %r %r" % (
            name, fields, d.name, list(d.get_field_tuples())))
    if bad_import and not viol:
        viol = "a module outside the field-type whitelist was imported: %r" % bad_import[:3]
    if os.path.exists(trip):
        os.unlink(trip)
        viol = "text of the definition was executed (tripwire file created)"
    return viol, finding, info, res


def structural_cases(ctx, impl):
    """non-string names / malformed field lists through the untrusted routes"""
    for name, fields in STRUCT_CASES:
        for route in ("ctor", "frame", "json"):
            if route == "frame" and isinstance(name, (dict,)):
                continue
            try:
                res = impl.deliver(route, name, fields)
            except Exception as e:  # noqa: BLE001 -- the harness could not even encode the case
                continue
            ctx.count_case((route, "struct", repr(name)[:30], repr(fields)[:40]))
            if res["accepted"]:
                d = res["desc"]
                ok = type_grammar(d.name) and all(ident(n) and type_ok(t, impl.whitelist) for t, n in d.get_field_tuples())
                if ok and list(d.recordType.__slots__) != dedup([n for _, n in d.get_field_tuples()]) + impl.reserved:
                    ok = False
                if not ok:
                    return ("a malformed definition was accepted with an invalid result (route %s, name %r, fields %r -> %r %r)" % (
                        route, name, fields, d.name, d.get_field_tuples()),
                        dict(kind="structural", route=route, name=name, fields=fields))
            elif not res.get("is_exception", True):
                return ("a malformed definition ended in %s" % res["error"], dict(kind="structural", route=route, name=name, fields=fields))
    return None


def avro_schema_cases(ctx, impl):
    """definitions derived from an Avro schema without an embedded descriptor: the derived descriptor must be valid"""
    rnd = random.Random(ctx.seed + 1)
    pieces = ["a", "b9", "x_y", "", ".", "..", "a.b", "a/b", "a\n", "a b", "a;b", "_a", "9a", "\u00e9", "class", "a.b.", ".a"]
    for _ in range(150):
        ns, nm = rnd.choice(pieces), rnd.choice(pieces)
        fields = []
        for _i in range(rnd.randint(0, 3)):
            fields.append({"name": rnd.choice(pieces + ["f1", "_hidden", "g2"]), "type": rnd.choice(
                ["string", ["null", "long"], {"type": "array", "items": "string"}, ["int", "null"], "bytes", "boolean",
                 {"type": "long", "logicalType": "timestamp-micros"}, "float", "nope", {"type": "map"}])})
        schema = {"type": "record", "namespace": ns, "name": nm, "fields": fields}
        if rnd.random() < 0.2:
            del schema["namespace"]
        res = impl.deliver("avro-schema", schema, None)
        ctx.count_case(("avro-schema", ns, nm, json.dumps(fields, sort_keys=True)))
        if res["accepted"]:
            d = res["desc"]
            ok = type_grammar(d.name) and all(ident(n) and type_ok(t, impl.whitelist) for t, n in d.get_field_tuples())
            if ok and list(d.recordType.__slots__) != dedup([n for _, n in d.get_field_tuples()]) + impl.reserved:
                if match_known(core.known_for(PID), dict(kind="slots", cls="duplicate-field-name")) is None:
                    ok = False
            if not ok:
                return ("an Avro schema produced an invalid accepted definition: %r %r" % (d.name, d.get_field_tuples()),
                        dict(kind="avro-schema", schema=schema))
        elif not res.get("is_exception", True):
            return ("an Avro schema ended in %s" % res["error"], dict(kind="avro-schema", schema=schema))
    return None


AVRO_ORDINARY = [("string", "string", ["x", "", "y z"]), ("long", "varint", [1, -5, 2 ** 40]), ("boolean", "boolean", [True, False, True]),
                 ("double", None, None), ("bytes", "bytes", [b"ab", b"", b"\x00\xff"]), ("int", "varint", [3, 0, -1]),
                 ("float", "float", [1.5, 0.0, -2.25])]
AVRO_RESERVED = {"_source": ("string", ["s1", "s2", "s3"]), "_classification": ("string", ["c", "c", "c"]),
                 "_generated": ({"type": "long", "logicalType": "timestamp-micros"}, [1600000000000000, 1600000001000000, 1600000002000000]),
                 "_version": ("long", [1, 1, 1])}


def avro_foreign_run(impl, workdir, schema_fields, rows, tagno):
    """write an Avro file with a standard writer (no embedded flow.record definition), read it with AvroReader
    -> violation text or None.  schema_fields: [(name, avro type)], rows: list of dicts"""
    import fastavro
    from flow.record.adapter.avro import AvroReader
    path = os.path.join(workdir, "foreign%d.avro" % tagno)
    def spell(t, sp):
        if not isinstance(t, str):
            return [t, {"type": "null"}]
        other = "string" if t != "string" else "long"
        return {"last": [t, "null"], "first": ["null", t], "middle": [t, "null", other], "first3": ["null", t, other],
                "bare": t}[sp]
    spelling = {f[0]: (f[2] if len(f) > 2 else "last") for f in schema_fields}
    schema_fields = [(f[0], f[1]) for f in schema_fields]
    schema = {"type": "record", "namespace": "foreign.ns", "name": "rec%d" % tagno,
              "fields": [{"name": n, "type": spell(t, spelling[n])} for n, t in schema_fields]}
    with open(path, "wb") as fh:
        fastavro.writer(fh, fastavro.parse_schema(schema), rows)
    flowtype = {a: f for a, f, _ in AVRO_ORDINARY}
    want = [(flowtype[t], n) for n, t in schema_fields if not n.startswith("_")]
    if any(t is None for t, _ in want):
        want = None           # a type without a mapping: the file must be refused
    impl.clear_cache()
    try:
        rd = AvroReader(path)
    except Exception as e:  # noqa: BLE001
        if want is None or not all(ident(n) for _, n in want):
            return None
        return "a well-formed Avro file of a standard writer (schema %r) cannot be opened: %s: %s" % (
            [f["type"] for f in schema["fields"]], type(e).__name__, e)
    try:
        d = rd.desc
        if want is None:
            return "an Avro schema with an unmappable field type was accepted as %r" % (d.get_field_tuples(),)
        got = [tuple(x) for x in d.get_field_tuples()]
        if got != want:
            return "the record type derived from the Avro schema has fields %r, the schema declares %r (underscore-named fields left out)" % (got, want)
        if d.name != "foreign/ns/rec%d" % tagno or list(d.recordType.__slots__) != [n for _, n in want] + impl.reserved:
            return "the record type derived from the Avro schema is %r with slots %r" % (d.name, d.recordType.__slots__)
        if all((not n.startswith("_")) or n in AVRO_RESERVED for n, _ in schema_fields):
            try:
                recs = list(rd)
            except Exception as e:  # noqa: BLE001
                return "the records of the Avro file cannot be read with the derived record type: %s: %s" % (type(e).__name__, e)
            if len(recs) != len(rows):
                return "%d of %d records read" % (len(recs), len(rows))
            for r, row in zip(recs, rows):
                for _, n in want:
                    v = getattr(r, n)
                    if not (v == row[n] or (isinstance(row[n], float) and abs(v - row[n]) < 1e-6)):
                        return "field %s read back as %r, written %r" % (n, v, row[n])
    finally:
        rd.close()
    return None


def avro_foreign_cases(ctx, impl, thorough):
    """Avro files of a standard writer: underscore-named / reserved-named fields at every position among ordinary ones"""
    rnd = random.Random(ctx.seed + 3)
    workdir = str(ctx.work)
    cases = []
    ordinary = [("a", "string"), ("b", "long"), ("c", "boolean")]
    for us in list(AVRO_RESERVED) + ["_hidden"]:
        for pos in range(len(ordinary) + 1):
            fs = list(ordinary)
            fs.insert(pos, (us, AVRO_RESERVED[us][0] if us in AVRO_RESERVED else "string"))
            cases.append(fs)
    cases.append([("_source", "string"), ("a", "string"), ("_version", "long"), ("b", "long"), ("_generated", AVRO_RESERVED["_generated"][0]), ("c", "boolean")])
    cases.append([("a", "string"), ("_source", "string"), ("_classification", "string"), ("b", "long")])
    cases.append([("_source", "string")])
    # union spellings: null first / last / in the middle of three / first of three / bare type, for every mappable type
    for a, f, _v in AVRO_ORDINARY:
        if f is None:
            continue
        for sp in ("first", "last", "middle", "first3", "bare"):
            cases.append([("u", a, sp)])
            cases.append([("k", "string", "last"), ("u", a, sp), ("_source", "string"), ("w", "long", "first")])
    cases.append([("a", "string"), ("bad", "double")])
    cases.append([("a", "string"), ("a-b", "long")])
    for _ in range(300 if thorough else 40):
        k = rnd.randint(1, 4)
        fs = []
        for i in range(k):
            a = rnd.choice([x for x in AVRO_ORDINARY if x[1] is not None or rnd.random() < 0.1])
            fs.append(("f%d%s" % (i, rnd.choice(["", "_x", "9"])), a[0]))
        for us in rnd.sample(list(AVRO_RESERVED) + ["_hidden"], rnd.randint(0, 3)):
            fs.insert(rnd.randint(0, len(fs)), (us, AVRO_RESERVED[us][0] if us in AVRO_RESERVED else "string"))
        cases.append(fs)
    vals = {a: v for a, _, v in AVRO_ORDINARY}
    for no, fs in enumerate(cases):
        rows = []
        for i in range(3):
            row = {}
            for f_ in fs:
                n, t = f_[0], f_[1]
                if len(f_) > 2 and f_[2] != "bare" and i == 2:
                    row[n] = None
                elif n in AVRO_RESERVED:
                    row[n] = AVRO_RESERVED[n][1][i]
                elif n.startswith("_"):
                    row[n] = "h%d" % i
                else:
                    row[n] = vals[t][i] if vals.get(t) else 1.0
            rows.append(row)
        ctx.count_case(("avro-foreign", tuple((f_[0], json.dumps(f_[1]), f_[2] if len(f_) > 2 else "") for f_ in fs)))
        try:
            v = avro_foreign_run(impl, workdir, fs, rows, no)
        except Exception as e:  # noqa: BLE001 -- the standard writer itself refused the case
            continue
        if isinstance(v, tuple):
            continue              # refused although well-formed: allowed (over-rejection)
        if v:
            return ("%s (Avro schema fields %r)" % (v, [list(f_) for f_ in fs]),
                    dict(kind="avro-foreign", fields=[list(f_) for f_ in fs], violation=v))
    return None


def capture_probe(ctx, impl, kf):
    """a declared name that coincides with a global read by the template's method bodies"""
    base = impl.base
    probes = [("field", "t/capf", [("varint", "RECORD_VERSION")]), ("type", "RECORD_VERSION", [("varint", "n")])]
    for kind, name, fields in probes:
        res = impl.deliver("ctor", name, fields)
        ctx.count_case(("capture", kind))
        if not res["accepted"]:
            continue
        try:
            r = res["desc"].recordType(7)
            bad = r._version != base.RECORD_VERSION
            detail = "_version == %r" % (r._version,)
        except Exception as e:  # noqa: BLE001
            bad, detail = True, "instantiation raises %s" % type(e).__name__
        if bad:
            f = match_known(kf, dict(kind="capture", captured="RECORD_VERSION"))
            if f:
                ctx.known_finding(f["id"], f["what"])
            else:
                return ("the name RECORD_VERSION used as %s name captures the template's global: %s" % (kind, detail),
                        dict(kind="capture", probe=kind, name=name, fields=[list(x) for x in fields]))
    return None


def fieldtype_cases(ctx, impl, trip):
    """fieldtype(p) on hostile paths: what it resolves (importlib spy) versus the model"""
    ft = getattr(impl.base.fieldtype, "__wrapped__", impl.base.fieldtype)
    paths = whitelist_prefixes(impl.whitelist) + list(trip_payloads(trip)["field_type"])     # prefixes first, and again below
    for w in impl.whitelist:            # make sure every namespace module of the whitelist is loaded first
        try:
            ft(w)
        except Exception:  # noqa: BLE001
            pass
    paths += whitelist_prefixes(impl.whitelist)
    for w in impl.whitelist:
        paths += [w, w + "[]", w + "[][]", w + " ", w + "\n", "." + w, w + ".", w.replace(".", "..")]
    for sym in SYMBOLS:
        paths += ["string" + sym, sym + "string", "net.ip" + sym + "address"]
    out = []
    for p in paths:
        impl.import_log = []
        try:
            cls = ft(p)
            resolved = strip_list(p) if p.endswith("[]") else p
            inner = getattr(cls, "__type__", cls)
            ok_cls = isinstance(inner, type) and issubclass(inner, impl.base.FieldType) and inner.__module__.startswith("flow.record.fieldtypes")
            if not ok_cls or strip_list(p) not in impl.whitelist:
                return None, ("fieldtype(%r) resolved to %r" % (p, cls), dict(kind="fieldtype", path=p))
        except Exception:  # noqa: BLE001
            resolved = None
        bad = [m for m in impl.import_log if m not in impl.allowed_modules]
        if bad:
            return None, ("fieldtype(%r) imported %r" % (p, bad), dict(kind="fieldtype", path=p))
        ctx.count_case(("fieldtype", abstract(p)))
        out.append((p, resolved))
    return out, None


EXH_ALPHABET = ["a", "Z", "0", "_", "/", "\n", "\r", "\u00e9", " ", "\uff41"]


def strings_upto(n, alpha):
    if n == 0:
        return [""]
    sub = strings_upto(n - 1, alpha)
    return [""] + [c + s for c in alpha for s in sub]


def exhaustive_terms(ctx, impl, depth):
    """all strings of length <= depth over a 10-symbol class-representative alphabet through the real validators"""
    base = impl.base
    allstr = strings_upto(depth, EXH_ALPHABET)
    v_true = [s for s in allstr if base.is_valid_field_name(s, True)]
    v_false = [s for s in allstr if base.is_valid_field_name(s, False)]
    reached = []
    for s in allstr:
        if not s:
            continue                       # RecordDescriptor refuses an empty name before anything else
        impl.clear_cache()
        impl.exec_log = []
        try:
            base.RecordDescriptor(s, [])
        except Exception:  # noqa: BLE001
            pass
        if impl.exec_log:
            reached.append(s)
    for s in allstr:
        ctx.count_case(("exhaustive", s), nontrivial=True)
    alpha = "[" + "; ".join(str(ord(c)) for c in EXH_ALPHABET) + "]"
    lst = lambda xs: "[" + "; ".join(cN_str(x) for x in xs) + "]"  # noqa: E731
    terms = [
        "exh %d (field_valid facts true) %s %s" % (depth, alpha, lst(v_true)),
        "exh %d (field_valid facts false) %s %s" % (depth, alpha, lst(v_false)),
        "exh %d (fun s => validators_pass facts s []) %s %s" % (depth, alpha, lst(reached)),
    ]
    # the compiled patterns themselves, when the module still has them
    for attr, fact in (("RE_VALID_FIELD_NAME", "nf_field_re"), ("RE_VALID_RECORD_TYPE_NAME", "nf_type_re")):
        pat = getattr(base, attr, None)
        if pat is not None and hasattr(pat, "match"):
            m = [s for s in allstr if pat.match(s)]
            terms.append("exh %d (re_match (%s facts)) %s %s" % (depth, fact, alpha, lst(m)))
    return terms, len(allstr), dict(valid_checked=len(v_true), valid_unchecked=len(v_false), reach_exec=len(reached))


# --------------------------------------------------------------------------------------------------

def python_only_search(ctx, reason):
    """the proof / translator broke: look for a definition on which the property fails on the implementation"""
    kf = core.known_for(PID)
    trip = str(ctx.work / "TRIPWIRE")
    impl = Impl()
    try:
        recs, first, nviol = run_cases(ctx, impl, kf, trip, thorough=(ctx.tier == "thorough"))
        if first is None:
            first = text_cases(ctx, impl, kf, trip, ctx.tier == "thorough", recs)
        if first is None:
            first = (structural_cases(ctx, impl) or avro_schema_cases(ctx, impl)
                     or avro_foreign_cases(ctx, impl, ctx.tier == "thorough") or capture_probe(ctx, impl, kf))
        if first is None:
            _, first = fieldtype_cases(ctx, impl, trip)
    finally:
        impl.close()
    if first:
        what, rep = first
        ctx.violation("%s; failing input: %s" % (reason, what), dict(rep, reason=reason))
        return True
    return False


def run(ctx):
    kf = core.known_for(PID)
    thorough = ctx.tier == "thorough"
    ctx.coverage["rule"] = (
        "definitions (type name, [(field type, field name)]) delivered through RecordDescriptor(), a crafted descriptor "
        "frame to RecordPacker.unpack, a JSON descriptor line to JsonRecordPacker.unpack and an Avro schema with embedded "
        "definition: every symbol of a %d-symbol hostile alphabet (ASCII punctuation, NUL, CR, LF, tab, quotes, unicode "
        "look-alikes and separators, a lone surrogate) x {prefix, middle, suffix} x {type name, field name, field type} x 4 "
        "routes; every BMP character whose lower/upper/casefold is ASCII alphanumeric (U+0130, U+0131, U+017F, U+212A, ligatures ...) and a "
        "sample of fullwidth / mathematical / other-script digits / combining look-alikes at EVERY position of a field name and of a "
        "type name on every route (thorough: all BMP characters that NFKC-normalise to ASCII alphanumerics, all str.isdigit() "
        "characters, combining marks) (plus constructor and descriptor frame with every name delivered as BYTES: invalid / truncated / overlong UTF-8 at "
        "every position); injection payloads per template position carrying a tripwire; names with one trailing newline at every "
        "position; a keyword-named field next to an invalid / reserved / underscore name at every position; EXHAUSTIVELY every "
        "list of <= 3 field names over {valid, keyword, reserved, underscore, invalid, trailing newline}; all Python keywords as field and type names; template identifiers; reserved and underscore names; every "
        "whitelist entry plain / list / list-of-list / wrong case; duplicates; 10^4-character names; seeded random mostly-"
        "valid definitions with hostile edits; definitions given as TEXT (the deprecated string-only form: blank lines at every "
        "position, CRLF, tabs, semicolons, comments, several fields per line, unicode white space, hostile symbols, random layouts) "
        "through constructor, descriptor frame and JSON line, judged against an independent reading of the text; malformed "
        "(non-string) definitions; DynamicDescriptor(name, names) with the same hostile names; Avro files of a standard writer "
        "(no embedded definition) with reserved / underscore-named fields at every position, read through AvroReader; Avro schemas without embedded "
        "definition; plus EXHAUSTIVELY all %d strings of length <= 4 (thorough: 5) over a 10-symbol class-representative alphabet "
        "through is_valid_field_name (both modes) and the type-name check. distinct = distinct (route, definition with "
        "letters/digits abstracted to their class and run lengths capped); every case is non-trivial (it carries a "
        "definition the validators must judge)" % (len(SYMBOLS), sum(10 ** k for k in range(5))))
    ctx.assumptions += [
        "CPython's re module is modelled for the constructs present (coq/lib/Regex.v, derivative matcher proved correct "
        "against the textbook denotation; `$` = end or before one final newline) and validated exhaustively on all strings "
        "of length <= 4 over class representatives through the real validators",
        "utils.to_str (decoding of names delivered as bytes) is tested behaviourally by the translator against "
        "bytes.decode('utf-8','surrogateescape') on a battery of invalid sequences at every position (generated fact "
        "nf_to_str_surrogateescape); C06_bytes_names_validated takes the decoder as a section variable with the two "
        "hypotheses that battery checks (ASCII kept, anything else yields a non-ASCII code point)",
        "a grammar-conforming type name that is a Python keyword (class, None, ...) reaches exec and is refused by CPython's "
        "compile(): allowed by the property (it only limits what is accepted)",
        "str.format / repr / tuple-repr / str.replace are modelled by model/Names.v `render_text`, validated by comparing "
        "with the exact source captured from exec (module-level name `exec` of flow.record.base shadowed by the harness)",
        "importlib.import_module / getattr resolve inside flow.record.fieldtypes for whitelist entries (observed through a "
        "shadowed `importlib` in flow.record.base's namespace)",
        "the field-type WHITELIST itself is configuration: the property is relative to it",
        "generated facts are OBSERVED where they can be (tools/vf/factgen/c06.py runs the real functions on probes with exec, "
        "is_valid_field_name, RecordField/RecordDescriptor.__init__, fieldtype, importlib, getattr, type and the compiled patterns "
        "of flow.record.base replaced by logging stand-ins): is_valid_field_name as a decision table over (check_reserved, "
        "reserved?, leading underscore?, pattern match?) on ~2600 names; which checks run on every declared field, with which "
        "check_reserved, and that exec is never reached on definitions failing one check (every position, also after a "
        "keyword-named field); the end-anchor behaviour of both patterns; fieldtype()'s decision and resolution attempts on "
        "every whitelist entry / list form / list-of-list form / non-entries; every untrusted route constructs exactly one "
        "RecordDescriptor from exactly the delivered definition; the constant text of the generated methods (recovered from the "
        "exec'd source). From source only: which functions call exec/eval/compile/__import__ and _generate_record_class, and "
        "that the loop validating field names (also one call level down) has no break/continue/return/else; recognisers of "
        "fieldtype / routes / constants are cross-checks (contradiction -> fail closed, unrecognised spelling -> note in "
        "gen/Gen_names.v)",
    ]
    ok = core.standard_proof_stage(ctx, ["props/C06.vo"], "C06", THEOREMS, search_fn=python_only_search, gens=["gen_names"])
    if not ok:
        return
    trip = str(ctx.work / "TRIPWIRE")
    impl = Impl()
    try:
        recs, first, nviol = run_cases(ctx, impl, kf, trip, thorough)
        if first is None:
            first = text_cases(ctx, impl, kf, trip, thorough, recs)
        if first is None:
            first = (structural_cases(ctx, impl) or avro_schema_cases(ctx, impl)
                     or avro_foreign_cases(ctx, impl, ctx.tier == "thorough") or capture_probe(ctx, impl, kf))
        ft_cases, ft_first = fieldtype_cases(ctx, impl, trip)
        first = first or ft_first
        if first:
            ctx.violation(first[0], first[1])
            return
        depth = 5 if thorough else 4
        exh_terms, n_exh, exh_info = exhaustive_terms(ctx, impl, depth)
    finally:
        impl.close()
    ctx.coverage["exhaustive_scope"] = "all %d strings of length <= %d over %r: %r" % (n_exh, depth, EXH_ALPHABET, exh_info)

    # names of the grammar plus one trailing newline: refused by the validators themselves (RecordDescriptorError), never
    # handed to exec (judge() reports anything else as a violation)
    residual = [r for r in recs if r.get("trailing_newline")]
    ctx.coverage["trailing_newline_names_refused_by_validators"] = len(residual)
    ctx.coverage["definitions_outside_grammar_that_reached_exec"] = len(
        [r for r in recs if r["reached"] and not (r["g_name"] and r["g_fields"] and r["g_types"])])

    # model inside Coq
    terms = []
    metas = []
    for r in recs:
        terms.append("cv %s %s %s %s %s %s" % (cN_str(r["name"]), c_decl(r["fields"]), cbool(r["reached"]),
                                               cbool(r["g_name"]), cbool(r["g_fields"]), cbool(r["g_types"])))
        metas.append(("validators", r))
    n_sound = len(terms)
    for r in recs:
        terms.append("cvc %s %s %s" % (cN_str(r["name"]), c_decl(r["fields"]), cbool(r["reached"])))
        metas.append(("over-rejection", r))
    acc = [r for r in recs if r["accepted"] and r["src"] is not None]
    for r in acc:
        terms.append("csl %s %s %s" % (cN_str(r["name"]), c_decl(r["fields"]), "[" + "; ".join(cN_str(s) for s in r["slots"]) + "]"))
        metas.append(("slots", r))
    # exact source text: a diverse subset (literals are expensive to parse)
    budget = 400 if thorough else 60
    seen_tags = {}
    src_cases = []
    for r in sorted(acc, key=lambda r: len(r["src"])):
        k = (r["tag"], len(r["fields"]), any(keyword.iskeyword(n) for _, n in r["fields"]))
        if seen_tags.get(k, 0) < 2 and len(r["src"]) < 6000 and len(src_cases) < budget:
            seen_tags[k] = seen_tags.get(k, 0) + 1
            src_cases.append(r)
    for r in src_cases:
        terms.append("cs %s %s %s %s" % (cN_str(r["name"]), c_decl(r["fields"]),
                                         "[" + "; ".join(cN_str(s) for s in r["slots"]) + "]", c_ascii_string(r["src"])))
        metas.append(("source", r))
    for p, resolved in ft_cases:
        terms.append("cf %s %s" % (cN_str(p), "None" if resolved is None else "(Some %s)" % cN_str(resolved)))
        metas.append(("fieldtype", dict(name=p, fields=[], route="fieldtype", resolved=resolved)))
    for t in exh_terms:
        terms.append(t)
        metas.append(("exhaustive", dict(name=t[:60], fields=[], route="exhaustive")))
    failing, err = core.eval_bool_cases(ctx, HEADER, terms, shard_size=150, name="c06")
    if err:
        ctx.violation("correspondence shards did not evaluate: " + err[:300], dict(kind="coq-eval", log=err), no_input=True)
        return
    ctx.coverage["traces_validated_against_impl"] = len(terms) - len(failing)
    _ = n_sound
    n_struct = len([r for r in recs if r.get("structure_checked")])
    n_twin_failed = len([r for r in recs if r.get("twin_failed")])
    if n_twin_failed:
        ctx.notes.append("%d accepted definitions could not be compared with a benign twin (the twin was refused)" % n_twin_failed)
    ctx.coverage["exec_sources_structurally_checked"] = n_struct
    ctx.coverage["correspondence"] = dict(
        validators=len(recs), slots=len(acc), exact_source_text=len(src_cases), fieldtype=len(ft_cases),
        exhaustive_lists=len(exh_terms), accepted=len(acc), rejected=len(recs) - len(acc),
        reached_exec_but_refused_by_compile=len([r for r in recs if r["reached"] and not r["accepted"]]))
    over = [i for i in failing if metas[i][0] == "over-rejection"]
    failing = [i for i in failing if metas[i][0] != "over-rejection"]
    if over:
        r = metas[over[0]][1]
        ctx.coverage["over_rejections"] = len(over)
        ctx.notes.append("the implementation refuses %d definitions before exec that the modelled validators let through "
                         "(allowed by the property, which only limits what is accepted); first: route %s type name %r fields %r" % (
                             len(over), r["route"], r["name"][:60], [list(x) for x in r["fields"]][:4]))
    if failing:
        kind, r = metas[failing[0]]
        # over-rejection by a validator is allowed by the property; anything else means the theorems no longer
        # describe the code
        ctx.violation(
            "model/Names.v (about which the theorems are proved) and the implementation disagree on %d of %d cases; first: "
            "%s case, route %s, type name %r, fields %r: implementation reached exec=%s accepted=%s; no definition was found "
            "on which the property itself fails" % (
                len(failing), len(terms), kind, r.get("route"), str(r.get("name"))[:80], r.get("fields", [])[:4],
                r.get("reached"), r.get("accepted")),
            dict(kind="correspondence", correspondence="C06 %s vs model/Names.v" % kind, first=_rep(r),
                 failing_kinds=sorted({metas[i][0] for i in failing})), no_input=True)
        return
    for r in (recs[0], recs[len(recs) // 3], residual[0] if residual else recs[1], acc[0] if acc else recs[2],
              recs[-1]):
        ctx.sample(dict(route=r["route"], type_name=r["name"][:60], fields=[list(x) for x in r["fields"]][:4],
                        accepted=r["accepted"], reached_exec=r["reached"], error=r["error"]))
    ctx.notes.append("tags: " + ", ".join("%s=%d" % (k, len(list(g))) for k, g in itertools.groupby(sorted(r["tag"] for r in recs))))


def _rep(r):
    return dict(route=r.get("route"), name=r.get("name"), fields=[list(x) for x in r.get("fields", [])], tag=r.get("tag"),
                accepted=r.get("accepted"), reached=r.get("reached"))


def replay(obj):
    kf = core.known_for(PID)
    kind = obj.get("kind")
    impl = Impl()
    trip = "/verif/.work/C06.replay.TRIPWIRE"
    try:
        if kind == "definition":
            name, fields, route = obj["name"], [tuple(x) for x in obj["fields"]], obj["route"]
            trip = obj.get("trip") or trip
            made = None
            if not os.path.isdir(os.path.dirname(trip)):       # the run's scratch directory is gone: recreate it
                made = os.path.dirname(trip)
                os.makedirs(made)
            try:
                viol, finding, info, res = evaluate(impl, route, name, fields, {}, kf, trip)
            finally:
                if made:
                    import shutil
                    shutil.rmtree(made, ignore_errors=True)
            print("replay: route %s type name %r fields %r -> %s; %s" % (
                route, name, fields, "accepted" if res["accepted"] else res.get("error"), viol or "property holds"))
            return 1 if viol else 0
        if kind == "capture":
            class _C:
                def count_case(self, *a, **k):
                    pass

                def known_finding(self, *a):
                    print("KNOWN-FINDING:", a[1])
            v = capture_probe(_C(), impl, kf)
            print("replay capture probe ->", v[0] if v else "no violation")
            return 1 if v else 0
        if kind == "avro-foreign":
            import tempfile
            fs = [tuple(x) for x in obj["fields"]]
            vals = {a: v for a, _, v in AVRO_ORDINARY}
            rows = [{f_[0]: (None if len(f_) > 2 and f_[2] != "bare" and i == 2 else AVRO_RESERVED[f_[0]][1][i] if f_[0] in AVRO_RESERVED
                             else "h%d" % i if f_[0].startswith("_") else (vals[f_[1]][i] if vals.get(f_[1]) else 1.0))
                     for f_ in fs} for i in range(3)]
            os.makedirs("/verif/.work", exist_ok=True)
            with tempfile.TemporaryDirectory(dir="/verif/.work") as td:
                v = avro_foreign_run(impl, td, fs, rows, 0)
            v = None if isinstance(v, tuple) else v
            print("replay: Avro schema fields %r -> %s" % ([list(f_) for f_ in fs], v or "property holds"))
            return 1 if v else 0
        if kind == "text-definition":
            text, route = obj["text"], obj["route"]
            parsed = parse_text(text)
            trip = obj.get("trip") or trip
            made = None
            if not os.path.isdir(os.path.dirname(trip)):
                made = os.path.dirname(trip)
                os.makedirs(made)
            try:
                if parsed is not None:
                    viol, finding, info, res = evaluate_text(impl, route, text, parsed[0], parsed[1], {}, kf, trip)
                else:
                    res = impl.deliver(route, text, None)
                    viol = "a malformed definition text was accepted" if res["accepted"] else None
            finally:
                if made:
                    import shutil
                    shutil.rmtree(made, ignore_errors=True)
            print("replay: route %s definition text %r -> %s; %s" % (
                route, text, "accepted" if res["accepted"] else res.get("error"), viol or "property holds"))
            return 1 if viol else 0
        if kind in ("structural",):
            res = impl.deliver(obj["route"], obj["name"], obj["fields"])
            print("replay structural ->", "accepted" if res["accepted"] else res.get("error"))
            return 0 if not res["accepted"] else 1
    finally:
        impl.close()
    print("replay of kind %s: re-run ./check C06" % kind)
    return 2
