"""C02 -- Written bytes conform to the frozen RecordStream wire format.

proof:  coq/props/C02.v (published constants = generated constants; msgpack/envelope/stream round trips of the
        reference codec; compatibility rules)
tie:    (T) gen/Gen_packer.v; (C) the Coq model IS /verif's reference codec: (a) implementation-written streams must
        equal the model's bytes exactly and be decoded by the model to the records written; (b) streams produced by an
        independent Python reference ENCODER (tools/vf/refcodec.py: non-minimal msgpack encodings, extra trailing
        reserved values, no version value, name-only / bytes identifiers, repeated header) must be read by the
        implementation as the records they encode, and by the model identically; (c) a frozen corpus of golden streams
        written at the pinned revision (corpus/golden) must still read as recorded; (d) descriptor hashes are checked
        against hashlib on the hash input the model specifies.
"""
from __future__ import annotations

import glob
import hashlib
import json
import os
import random
import warnings

from vf import core, recgen, refcodec
from vf import streamcases as sc
from vf.props import c01

THEOREMS = ["C02_published_constants", "C02_published_codec_options", "C02_reserved_fields_order",
            "C02_identifier_hash_input", "C02_header_frame", "C02_msgpack_roundtrip", "C02_unpackb_roundtrip",
            "C02_envelope_roundtrip", "C02_writer_conforms", "C02_reference_decoder_recovers",
            "C02_compat_extra_reserved_trimmed", "C02_compat_missing_values_unset"]

VARIANTS = [
    ("minimal", dict(), False),
    ("wide", dict(), True),
    ("extra_reserved_1", dict(extra_reserved=1), False),
    ("extra_reserved_2_wide", dict(extra_reserved=2), True),
    ("no_version", dict(no_version=True), False),
    ("name_only_ident", dict(name_only_ident=True), False),
    ("bytes_names", dict(bytes_names=True), False),
    ("repeat_header", dict(), False),
]


def js(o):
    if isinstance(o, (bytes, bytearray)):
        return {"b": bytes(o).hex()}
    if isinstance(o, (list, tuple)):
        return [js(x) for x in o]
    return o


def names_unique(obs):
    descs = []
    for o in obs:
        recgen.descs_of(o, descs)
    names = [d[0] for d in descs]
    return len(names) == len(set(names))


def has_group_or_nested(obs):
    def walk(o, top):
        if isinstance(o, tuple) and o and o[0] == "group":
            return True
        if isinstance(o, tuple) and o and o[0] == "rec":
            if not top:
                return True
            return any(walk(v, False) for v in o[3])
        if isinstance(o, (list, tuple)):
            return any(walk(v, top) for v in o)
        return False
    return any(walk(o, True) for o in obs)


def check_hashes(ctx, cases):
    """descriptor identifier = name + first four bytes of SHA-256 over name and per field (name, type)."""
    for cs in cases:
        descs = []
        for o in cs["obs"]:
            recgen.descs_of(o, descs)
        for name, fields, h in descs:
            data = name + "".join(n + t for t, n in fields)
            want = int.from_bytes(hashlib.sha256(data.encode()).digest()[:4], "big")
            ctx.count_case(("hash", name, fields))
            if h != want:
                ctx.violation("descriptor hash of %s %r is %#x, the format says %#x" % (name, fields, h, want),
                              dict(kind="hash", name=name, fields=list(fields), impl=h, expected=want))
                return True
    return False


def run(ctx):
    ctx.coverage["rule"] = (
        "(a) the C01 sequences: implementation bytes = reference-codec (Coq model) bytes, decoded by the model; (b) the same "
        "sequences re-encoded by the independent reference encoder in %d variants and read by the implementation and the "
        "model; (c) golden corpus of %d streams written at the pinned revision; (d) descriptor hashes vs hashlib. distinct = "
        "distinct (variant, observation)" % (len(VARIANTS), len(glob.glob(str(core.VERIF / "corpus/golden/*.records")))))
    ok = core.standard_proof_stage(ctx, ["props/C02.vo", "model/Observe.vo"], "C02", THEOREMS, search_fn=c01.search, gens=["gen_packer"])
    ctx.assumptions += [
        "msgpack-python and hashlib are the environment: the msgpack model is validated byte-exactly, SHA-256 is checked "
        "against hashlib on every descriptor of the run",
        "float32 (0xca) values are not modelled: the writer never emits them",
    ]
    if not ok:
        return
    n = 64 if ctx.tier == "quick" else 600
    cases = c01.generate_cases(ctx, n, check_paths=False)
    for cs in cases:
        if "error" in cs:
            ctx.count_case(("error", cs["index"]))
            ctx.violation("writing/reading a generated sequence raised %s%s" % (cs["error"], c01.staged_note(cs)),
                          dict(kind="roundtrip-raises", case=cs["index"], items=[repr(x) for x in cs["items"]],
                               raw_staged_list_elements=cs.get("raw_staged", 0), error=cs["error"]))
            return
    if check_hashes(ctx, cases):
        return
    # one record written, changed in place (list elements, command arguments, a digest hash withdrawn), written again: the
    # bytes of every write decode to what the record held at that moment
    if c01.rewrite_after_mutation_cases(ctx):
        return
    # what the writer emits for descriptor histories (same-name, identifier-coincident, nested, grouped descriptors; 1-3
    # writers): every record frame refers to a descriptor frame written before it that defines the record's own type
    from vf.props import c03
    _, _, found = c03.explore(ctx, report=True)
    if found:
        return
    terms, metas = [], []
    rnd = random.Random(ctx.seed + 1)
    # (a) implementation-encoded
    for cs in cases:
        ctx.count_case(("impl", cs["obs"]))
        terms.append(sc.render_case(cs["obs"], cs["data"], cs["rbo"]))
        metas.append(("impl-encoded", cs, None))
    # (b) reference-encoded
    for cs in cases:
        obs = cs["obs"]
        want = [recgen.canon(recgen.obs_item(x, True)) for x in cs["items"]]
        for vname, opts, wide in VARIANTS:
            if vname == "name_only_ident" and (not names_unique(obs) or has_group_or_nested(obs)):
                continue
            if opts and has_group_or_nested(obs) and vname != "bytes_names":
                continue
            if rnd.random() > (0.35 if ctx.tier == "quick" else 1.0) and vname != "minimal":
                continue
            try:
                data = refcodec.encode_stream(obs, rnd=rnd, wide=wide, opts=opts, repeat_header=(vname == "repeat_header"))
            except Exception as e:  # noqa
                ctx.notes.append("reference encoder failed (%s): %s" % (vname, e))
                continue
            ctx.count_case((vname, obs))
            try:
                rb = sc.read_stream_items(data)
                got = [recgen.canon(recgen.obs_item(x, True)) for x in rb]
                err = None
            except Exception as e:  # noqa
                rb, got, err = None, None, "%s: %s" % (type(e).__name__, e)
            if got != want:
                ctx.violation("a conforming stream (reference encoding, variant %s) is not read back as the records it encodes: %s" % (
                    vname, err or c01.first_difference(want, got)),
                    dict(kind="reference-encoded", variant=vname, items=[repr(x) for x in cs["items"]], stream_hex=data.hex()[:6000], error=err))
                return
            rbo = [recgen.obs_item(x, True) for x in rb]
            terms.append(sc.render_case(obs, data, rbo, kind="read_ok"))
            metas.append((vname, cs, data))
    # (b2) old-style streams (records name their descriptor by the bare type name) in which a type CHANGES over time: every
    # record follows the latest definition of its name, as in concatenated archives of a type that gained or lost a field
    from flow.record import RecordDescriptor
    import datetime as _dt
    t0 = _dt.datetime(2019, 1, 2, 3, 4, 5, tzinfo=_dt.timezone.utc)
    v1 = RecordDescriptor("old/t", [("string", "a")])
    v2 = RecordDescriptor("old/t", [("string", "a"), ("varint", "n")])
    v3 = RecordDescriptor("old/t", [("varint", "n")])
    other = RecordDescriptor("old/u", [("string", "a")])
    epochs = [
        [v1(a="1", _generated=t0), v1(a="2", _generated=t0), v2(a="3", n=3, _generated=t0), v2(a="4", n=4, _generated=t0)],
        [v2(a="1", n=1, _generated=t0), other(a="o", _generated=t0), v1(a="2", _generated=t0), v3(n=3, _generated=t0), v3(n=4, _generated=t0)],
        [v3(n=1, _generated=t0), v2(a="2", n=2, _generated=t0), other(a="o", _generated=t0), v1(a="3", _generated=t0)],
    ]
    for k, items in enumerate(epochs):
        obs = [recgen.obs_item(x) for x in items]
        want = [recgen.canon(recgen.obs_item(x, True)) for x in items]
        data = refcodec.encode_stream(obs, rnd=rnd, wide=False, opts=dict(name_only_ident=True), repeat_header=False)
        ctx.count_case(("name_only_epochs", k))
        try:
            rb = sc.read_stream_items(data)
            got = [recgen.canon(recgen.obs_item(x, True)) for x in rb]
            err = None
        except Exception as e:  # noqa
            rb, got, err = None, None, "%s: %s" % (type(e).__name__, e)
        if got != want:
            ctx.violation("an old-style stream (bare-name identifiers) in which type old/t changes its fields over time is not read back "
                          "as the records it encodes: %s" % (err or c01.first_difference(want, got)),
                          dict(kind="reference-encoded", variant="name_only_ident/epochs", items=[repr(x) for x in items],
                               stream_hex=data.hex()[:6000], error=err))
            return
        rbo = [recgen.obs_item(x, True) for x in rb]
        terms.append(sc.render_case(obs, data, rbo, kind="read_ok"))
        metas.append(("name_only_epochs", dict(items=items, index=k), data))
    # (c) golden corpus
    for f in sorted(glob.glob(str(core.VERIF / "corpus/golden/*.records"))):
        data = open(f, "rb").read()
        exp = json.load(open(f[:-8] + ".json"))
        ctx.count_case(("golden", os.path.basename(f)))
        try:
            rb = sc.read_stream_items(data)
            got = js([recgen.canon(recgen.obs_item(x, True)) for x in rb])
            err = None
        except Exception as e:  # noqa
            rb, got, err = None, None, "%s: %s" % (type(e).__name__, e)
        if got != exp["expected"]:
            ctx.violation("golden stream %s (written at revision %s) no longer reads as recorded: %s" % (
                os.path.basename(f), exp.get("revision"), err or c01.first_difference(exp["expected"], got)),
                dict(kind="golden", file=f, error=err))
            return
        rbo = [recgen.obs_item(x, True) for x in rb]
        terms.append(sc.render_case(rbo, data, rbo, kind="read_ok"))
        metas.append(("golden", dict(index=os.path.basename(f), items=rb), data))
    shard = max(1, (len(terms) + 15) // 16)
    failing, err = core.eval_bool_cases(ctx, sc.HEADER, terms, shard_size=shard, name="c02", timeout=900)
    if err:
        ctx.violation("correspondence shards did not evaluate: " + err[:300], dict(kind="coq-eval", log=err), no_input=True)
        return
    ctx.coverage["traces_validated_against_impl"] = len(terms) - len(failing)
    if failing:
        kind, cs, data = metas[failing[0]]
        ctx.violation(
            "reference codec (coq/model) and implementation disagree on %d of %d streams, first: %s case %s" % (
                len(failing), len(terms), kind, cs.get("index")),
            dict(kind="correspondence", correspondence="C02 %s stream vs coq/model/Stream.v" % kind,
                 items=[repr(x)[:400] for x in cs["items"]], stream_hex=(data or cs.get("data", b"")).hex()[:6000],
                 failing=[metas[i][0] for i in failing[:30]]), no_input=True)
        return
    for kind, cs, data in metas[:: max(1, len(metas) // 5)]:
        ctx.sample(dict(kind=kind, items=[repr(x)[:200] for x in cs["items"]]))


def replay(obj):
    print("replay: re-run ./check C02 with VERIF_SEED=%s: %s" % (obj.get("seed"), obj.get("what")))
    return 2
